#!/bin/sh
# usage: tools_mut.sh <repo-rel-file> <sed-expr> <check-args...> ; applies sed to /repo file, runs ./check, restores
f=/repo/$1; shift; e=$1; shift
cp $f /var/tmp/mut.bak
sed -i "$e" $f
if cmp -s $f /var/tmp/mut.bak; then echo "MUTATION DID NOT APPLY"; fi
(cd /verif && "$@")
echo "rc=$?"
cp /var/tmp/mut.bak $f
