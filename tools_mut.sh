#!/bin/sh
# usage: tools_mut.sh <repo-rel-file> <sed-expr> <cmd...> ; applies sed to /repo file, runs cmd (cwd /verif), restores
f=/repo/$1; shift; e=$1; shift
cp $f /var/tmp/mut.bak
trap 'cp /var/tmp/mut.bak '$f'' EXIT INT TERM PIPE
sed -i "$e" $f
if cmp -s $f /var/tmp/mut.bak; then echo "MUTATION DID NOT APPLY"; fi
(cd /verif && "$@") > /var/tmp/mut.out 2>&1
echo "rc=$?" >> /var/tmp/mut.out
cp /var/tmp/mut.bak $f
cat /var/tmp/mut.out
