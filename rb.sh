#!/bin/bash
# rebuild the replay crate into the cache used by ./check
cd /verif/replay && CARGO_TARGET_DIR=/verif/.cache/replay-target CARGO_NET_OFFLINE=true cargo build --offline -q 2>&1 | grep -E "^(error|warning: unused)" -A6 | head -40
