#!/usr/bin/env python3
import sys, json
sys.path.insert(0,'/verif')
from vx import run
g=sys.argv[1]; canary = len(sys.argv)>2 and sys.argv[2]=='canary'
r=run.check_group('/repo',g,'/var/tmp/vxb',canary=canary)
print(r['status'], r.get('lost'), 'verified',r['verified'],'errors',r['errors'], 'wall', round(r['wall_s'],1))
seen=set()
for f in r['failures'][:40]:
    print('FAIL', f['message'][:80], '|', f['part'], '|', f['line'], f['labels'], '|', (f['spans'][-1]['text'] if f['spans'] else '')[:110])
for f in r['other_errors'][:12]: print('OTHER', f.get('message','')[:200], '\n   ', (f.get('rendered','').split('\n')[1:2] or [''])[0][:150], '\n', '\n'.join(f.get('rendered','').split('\n')[2:9])[:700])
bad=[k for k,v in r['functions'].items() if not v['success']]
print('failed fns', bad)
slow=sorted(((v['time_ms'],k) for k,v in r['functions'].items()), reverse=True)[:5]
print('slow', slow)
print('canary', r.get('canary') and {k:v for k,v in r['canary'].items() if k!='expected_to_fail'})
