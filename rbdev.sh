#!/bin/bash
# dev build of the replay crate against /var/tmp/devrepo (so that /repo can be busy with regressions)
rm -rf /var/tmp/replay-dev && mkdir -p /var/tmp/replay-dev && cp -r /verif/replay/Cargo.toml /verif/replay/Cargo.lock /verif/replay/src /verif/replay/data /var/tmp/replay-dev/ && sed -i 's|/repo/|/var/tmp/devrepo/|g' /var/tmp/replay-dev/Cargo.toml
cd /var/tmp/replay-dev && CARGO_TARGET_DIR=/var/tmp/replay-dev-target CARGO_NET_OFFLINE=true cargo build --offline -q 2>&1 | grep -E "^(error|warning: unused)" -A8 | head -50
