#!/bin/bash
# neutral half of tools_regress.sh
cd /verif
echo "== neutral"
python3 - <<'PY'
import json, subprocess, glob, re
# which properties a neutral diff touches: by file
MAP = [("pretty_decimal", ["C07", "C06"]), ("book_keeping", ["C01", "C02", "C03", "C06", "C12"]), ("balance.rs", ["C02", "C03", "C04", "C13"]), ("evaluated", ["C08", "C12"]),
       ("eval/amount", ["C01", "C02", "C03", "C08", "C13"]), ("intern", ["C12"]), ("golden", ["C20"]), ("query.rs", ["C04", "C13"]), ("price_db", ["C01", "C06", "C13"]),
       ("extract.rs", ["C17", "C13"]), ("display.rs", ["C19", "C07"]), ("adaptor.rs", ["C14"]), ("parse/error.rs", ["C14", "C06"]), ("config.rs", ["C17"]), ("csv.rs", ["C16"]), ("single_entry", ["C16"])]
for f in sorted(glob.glob('/verif/seeded/neutral*/*.diff')):
    t = open(f).read()
    props = []
    for k, v in MAP:
        if re.search(r"^\+\+\+ b/.*" + re.escape(k), t, re.M):
            props += [p for p in v if p not in props]
    if not props:
        print(f, "no property mapped"); continue
    r = subprocess.run(["python3", "tools_neutral.py", f] + props, cwd="/verif", capture_output=True, text=True)
    print(r.stdout.strip())
PY
git -C /repo status --porcelain
