"""Kani route: copy /repo's current working tree to a scratch dir, inject #[cfg(kani)] harness
modules next to the code they exercise, run `cargo kani` per harness, parse the result.

HARNESSES[name] = {
  crate: cargo package (-p), inject: [(module file relative to repo, 'mod decl line', harness file under kx/harness, dest path)],
  unwind/bound text, timeout, stubs (listed as assumptions), complete: bool (loop-free full-domain => complete proof)
}
"""
import json
import os
import re
import shutil
import subprocess
import time

HERE = os.path.dirname(os.path.abspath(__file__))
ROOT = os.path.dirname(HERE)
from .harnesses import HARNESSES, INJECT  # noqa: E402


def scratch_copy(repo):
    dst = f"/var/tmp/okane-verif.{os.getpid()}.{int(time.time()*1000)%100000}"
    shutil.rmtree(dst, ignore_errors=True)
    subprocess.run(["rsync", "-a", "--exclude", "target", "--exclude", ".git", repo.rstrip("/") + "/", dst + "/"], check=True)
    return dst


def inject(dst, names):
    """append `#[cfg(kani)] mod X;` to owning modules and drop the harness files next to them."""
    done = set()
    notes = []
    for nm in names:
        for key in HARNESSES[nm]["inject"]:
            if key in done:
                continue
            done.add(key)
            spec = INJECT[key]
            owner = os.path.join(dst, spec["owner"])
            if not os.path.exists(owner):
                raise FileNotFoundError(f"owner module {spec['owner']} missing")
            with open(owner, "a") as f:
                f.write("\n" + spec["decl"] + "\n")
            if not spec.get("src"):
                notes.append(key)
                continue
            os.makedirs(os.path.dirname(os.path.join(dst, spec["dest"])), exist_ok=True)
            shutil.copy(os.path.join(HERE, "harness", spec["src"]), os.path.join(dst, spec["dest"]))
            for path, anchor_re, attr in spec.get("attrs", []):
                p = os.path.join(dst, path)
                txt = open(p).read()
                mt = re.search(anchor_re, txt, re.M)
                if not mt:
                    raise FileNotFoundError(f"contract anchor /{anchor_re}/ not found in {path}")
                txt = txt[:mt.start()] + attr + "\n" + txt[mt.start():]
                open(p, "w").write(txt)
            for path, old, new in spec.get("crate_attrs", []):
                p = os.path.join(dst, path)
                txt = open(p).read()
                open(p, "w").write(new + "\n" + txt)
            notes.append(key)
    return notes


def run_group(cmd, cwd, env, timeout):
    """subprocess.run with a process-group kill on timeout (cargo-kani leaves cbmc running otherwise)"""
    import signal
    p = subprocess.Popen(cmd, cwd=cwd, env=env, stdout=subprocess.PIPE, stderr=subprocess.PIPE, text=True, start_new_session=True)
    try:
        out, err = p.communicate(timeout=timeout)
        return p.returncode, out, err, False
    except subprocess.TimeoutExpired:
        try:
            os.killpg(p.pid, signal.SIGKILL)
        except Exception:
            pass
        try:
            out, err = p.communicate(timeout=10)
        except Exception:
            out, err = "", ""
        return -9, out, err, True


def parse_kani(out):
    res = {"checks": 0, "failed_checks": 0, "failures": [], "verdict": None, "covers": {}, "stubs": []}
    m = re.search(r"\*\* (\d+) of (\d+) failed", out)
    if m:
        res["failed_checks"], res["checks"] = int(m.group(1)), int(m.group(2))
    m = re.search(r"VERIFICATION:- (\w+)", out)
    if m:
        res["verdict"] = m.group(1)
    # Check blocks
    for blk in re.finditer(r"Check \d+: ([^\n]+)\n\s+- Status: (\w+)\n\s+- Description: \"([^\n]*)\"\n\s+- Location: ([^\n]+)", out):
        name, status, desc, loc = blk.groups()
        if status == "FAILURE":
            res["failures"].append({"property": name, "description": desc, "location": loc})
        if ".cover." in name:
            res["covers"][name + " " + desc] = status
    res["stubs"] = re.findall(r"- Stub: ([^\n]+)", out)
    return res


def run_one(dst, nm, tier, unwind_is_violation=()):
    H = HARNESSES[nm]
    env = dict(os.environ, CARGO_NET_OFFLINE="true", CARGO_TARGET_DIR=os.path.join(ROOT, ".cache", "kani-target"))
    cmd = ["cargo", "kani", "-p", H["crate"], "-Z", "function-contracts", "-Z", "stubbing", "--harness", H.get("harness", nm),
           "--output-format", "regular"] + H.get("args", [])
    t0 = time.time()
    to = H.get("timeout", 900) * (2 if tier == "thorough" else 1)
    rc, o, e, timed_out = run_group(cmd, dst, env, to)
    out = o + "\n" + e
    if timed_out:
        return {"harness": nm, "status": "inconclusive", "why": f"timeout after {to}s", "wall_s": time.time() - t0,
                "cmd": " ".join(cmd), "bound": H.get("bound", ""), "checks": 0}
    r = parse_kani(out)
    r.update({"harness": nm, "wall_s": round(time.time() - t0, 1), "cmd": " ".join(cmd), "bound": H.get("bound", ""),
              "complete": H.get("complete", False), "assumed_stubs": H.get("stubs", [])})
    expect_fail = H.get("should_panic", False)
    if r["verdict"] == "SUCCESSFUL" and r["checks"] > 0:
        r["status"] = "ok"
        # vacuity: every cover must be satisfied
        unsat = [k for k, v in r["covers"].items() if v not in ("SATISFIED",)]
        if unsat and not H.get("allow_unsat_covers"):
            r["status"] = "inconclusive"
            r["why"] = f"vacuity: cover(s) not satisfied: {unsat[:3]}"
        want_stubs = H.get("expect_stub_lines", 0)
        if want_stubs and len(r["stubs"]) < want_stubs:
            r["status"] = "inconclusive"
            r["why"] = f"expected {want_stubs} stub lines, saw {r['stubs']}"
    elif r["verdict"] == "FAILED" and r["failures"]:
        # unwinding assertion failures alone mean the bound is too small: inconclusive, not a violation
        real = [f for f in r["failures"] if "unwinding assertion" not in f["description"]]
        if real:
            r["status"] = "fail"
            r["failures"] = real
        elif nm in unwind_is_violation:
            # the bound covers every loop of the correct code for the stated text sizes: exceeding it is non-termination
            r["status"] = "fail"
            r["failures"] = [dict(f, description="loop does not terminate within the stated bound: " + f["description"]) for f in r["failures"]][:3]
        else:
            r["status"] = "inconclusive"
            r["why"] = "unwinding assertion failed (bound too small for this tree)"
            r["failures"] = []
    else:
        r["status"] = "inconclusive"
        r["why"] = "kani did not reach a verdict: " + out[-1500:]
        r["failures"] = []
    r["raw_tail"] = out[-600:]
    if r["status"] == "fail":
        # ask Kani for the counterexample as a concrete playback test (values of every kani::any() in order)
        try:
            _rc2, o2, _e2, _t2 = run_group(cmd + ["-Z", "concrete-playback", "--concrete-playback=print"], dst, env, min(to, 900))
            k = o2.find("Concrete playback unit test")
            if k >= 0:
                r["concrete"] = o2[k:k + 3000]
        except Exception as e:  # best effort
            r["concrete"] = None
    return r


def run_harnesses(repo, names, tier, unwind_is_violation=()):
    if not names:
        return []
    try:
        dst = scratch_copy(repo)
    except Exception as e:
        return [{"harness": n, "status": "inconclusive", "why": f"scratch copy failed: {e}", "checks": 0} for n in names]
    try:
        try:
            inject(dst, names)
        except FileNotFoundError as e:
            return [{"harness": n, "status": "inconclusive", "why": f"lost anchor: {e}", "checks": 0} for n in names]
        # group by crate: first one builds deps, the rest run in parallel
        import concurrent.futures as cf
        results = []
        first = run_one(dst, names[0], tier, unwind_is_violation)
        results.append(first)
        with cf.ThreadPoolExecutor(max_workers=int(os.environ.get("VERIF_KANI_JOBS", "6"))) as ex:
            results += list(ex.map(lambda n: run_one(dst, n, tier, unwind_is_violation), names[1:]))
        return results
    finally:
        shutil.rmtree(dst, ignore_errors=True)
