//! Kani harnesses for parse/error.rs (injected as child module `parse::error::kani_h` into a scratch copy).
use super::*;
use winnow::stream::Stream as _;


const MAXB: usize = 3 * 4;

/// symbolic text of <= 4 characters over {LF, CR, 'a', ';', 'あ' (3 bytes)}: CRLF line ends and multi-byte text occur
fn sym_text(buf: &mut [u8; MAXB]) -> &str {
    let n: usize = kani::any();
    kani::assume(n <= 4);
    let mut len = 0;
    for i in 0..4 {
        if i < n {
            let k: u8 = kani::any();
            kani::assume(k < 5);
            match k {
                0 => { buf[len] = b'\n'; len += 1; }
                1 => { buf[len] = b'\r'; len += 1; }
                2 => { buf[len] = b'a'; len += 1; }
                3 => { buf[len] = b';'; len += 1; }
                _ => { buf[len] = 0xE3; buf[len + 1] = 0x81; buf[len + 2] = 0x82; len += 3; }
            }
        }
    }
    // SAFETY: a concatenation of valid UTF-8 encoded characters
    unsafe { std::str::from_utf8_unchecked(&buf[..len]) }
}

fn spec_line(s: &str, pos: usize) -> usize {
    let b = s.as_bytes();
    let mut n = 1;
    let mut i = 0;
    while i < pos {
        if b[i] == b'\n' {
            n += 1;
        }
        i += 1;
    }
    n
}

/// C14: compute_line_number(s, pos) = 1 + number of LF before pos, for every text <= N bytes and every pos <= len.
#[kani::proof]
#[kani::unwind(14)]
fn compute_line_number_bounded() {
    let mut buf = [0u8; MAXB];
    let s = sym_text(&mut buf);
    let pos: usize = kani::any();
    kani::assume(pos <= s.len());
    let got = compute_line_number(s, pos);
    assert!(got == spec_line(s, pos));
    kani::cover!(got == 3);
    kani::cover!(s.len() > 4 && pos == 5);
}

/// C14 + C06: ParseError::new terminates for every failure offset (including end of input), reports the first line of
/// the entry that failed and an error span that starts at the failure offset and stays inside the remaining text.
#[kani::proof]
#[kani::unwind(15)]
fn parse_error_new_bounded() {
    let mut buf = [0u8; MAXB];
    let initial = sym_text(&mut buf);
    let mut input = LocatingSlice::new(initial);
    let skip: usize = kani::any();
    kani::assume(skip <= initial.len() && initial.is_char_boundary(skip));
    let _ = input.next_slice(skip);
    let start = input.checkpoint();
    let adv: usize = kani::any();
    kani::assume(adv <= initial.len() - skip && initial.is_char_boundary(skip + adv));
    let _ = input.next_slice(adv);
    let err = ParseError::new(Renderer::plain(), initial, input, start, ContextError::new());
    let imp = &err.0;
    assert!(imp.line_start == spec_line(initial, skip));
    assert!(imp.error_span.start == adv);
    assert!(imp.error_span.end >= imp.error_span.start);
    assert!(imp.error_span.end <= initial.len() - skip);
    assert!(imp.input.len() == initial.len() - skip);
    kani::cover!(adv == initial.len() - skip && skip > 0);
}
