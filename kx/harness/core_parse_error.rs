//! Kani harnesses for parse/error.rs (injected as child module `parse::error::kani_h` into a scratch copy).
use super::*;
use winnow::stream::Stream as _;

const N: usize = 6;

fn sym_ascii_text(buf: &mut [u8; N]) -> &str {
    // symbolic ASCII text of symbolic length <= N over an alphabet that contains LF, CR, space and letters
    let len: usize = kani::any();
    kani::assume(len <= N);
    for i in 0..N {
        let c: u8 = kani::any();
        kani::assume(c == b'\n' || c == b'\r' || c == b' ' || c == b'a' || c == b';');
        buf[i] = c;
    }
    // SAFETY: all bytes are ASCII
    unsafe { std::str::from_utf8_unchecked(&buf[..len]) }
}

fn spec_line(s: &str, pos: usize) -> usize {
    let b = s.as_bytes();
    let mut n = 1;
    let mut i = 0;
    while i < pos {
        if b[i] == b'\n' {
            n += 1;
        }
        i += 1;
    }
    n
}

/// C14: compute_line_number(s, pos) = 1 + number of LF before pos, for every text <= N bytes and every pos <= len.
#[kani::proof]
#[kani::unwind(8)]
fn compute_line_number_bounded() {
    let mut buf = [0u8; N];
    let s = sym_ascii_text(&mut buf);
    let pos: usize = kani::any();
    kani::assume(pos <= s.len());
    let got = compute_line_number(s, pos);
    assert!(got == spec_line(s, pos));
    kani::cover!(got == 3);
}

/// C14 + C06: ParseError::new terminates for every failure offset (including end of input), reports the first line of
/// the entry that failed and an error span that starts at the failure offset and stays inside the remaining text.
#[kani::proof]
#[kani::unwind(9)]
fn parse_error_new_bounded() {
    let mut buf = [0u8; N];
    let initial = sym_ascii_text(&mut buf);
    let mut input = LocatingSlice::new(initial);
    let skip: usize = kani::any();
    kani::assume(skip <= initial.len());
    let _ = input.next_slice(skip);
    let start = input.checkpoint();
    let adv: usize = kani::any();
    kani::assume(adv <= initial.len() - skip);
    let _ = input.next_slice(adv);
    let err = ParseError::new(Renderer::plain(), initial, input, start, ContextError::new());
    let imp = &err.0;
    assert!(imp.line_start == spec_line(initial, skip));
    assert!(imp.error_span.start == adv);
    assert!(imp.error_span.end >= imp.error_span.start);
    assert!(imp.error_span.end <= initial.len() - skip);
    assert!(imp.input.len() == initial.len() - skip);
    kani::cover!(adv == initial.len() - skip && skip > 0);
}
