//! Kani harnesses for parse/adaptor.rs (child module `parse::adaptor::kani_h`).
use super::*;

/// C14 (complete: loop-free, full usize domain): for a tracked span inside its entry, the span resolved against the
/// entry is the same range shifted by the entry start; no underflow.
#[kani::proof]
fn clip_complete() {
    let ps: usize = kani::any();
    let pe: usize = kani::any();
    let cs: usize = kani::any();
    let ce: usize = kani::any();
    kani::assume(ps <= cs && cs <= ce && ce <= pe);
    let r = clip(ps..pe, cs..ce);
    assert!(r.start == cs - ps);
    assert!(r.end == ce - ps);
    assert!(r.end <= pe - ps);
    kani::cover!(cs > ps && ce < pe);
}

/// C14: ParsedSpan::resolve is clip of the tracked span against the entry's span.
#[kani::proof]
fn resolve_is_clip() {
    let ps: usize = kani::any();
    let pe: usize = kani::any();
    let cs: usize = kani::any();
    let ce: usize = kani::any();
    kani::assume(ps <= cs && cs <= ce && ce <= pe);
    let span = ParsedSpan(ps..pe);
    let t = syntax::tracked::TrackedSpan::kani_new(cs..ce);
    let r = span.resolve(&t);
    assert!(r == (cs - ps..ce - ps));
}

const MAXB: usize = 3 * 4;

/// C14 (bounded: text of <= 4 characters over {LF, CR, ' ', 'a', 'あ' (3 bytes)}, every span on character boundaries):
/// the line an entry starts on is 1 + the number of LF among the BYTES before its span (multi-byte text before the
/// entry must not shift it), and as_str() is exactly the entry's slice of the original text.
#[kani::proof]
#[kani::unwind(14)]
fn parsed_context_line_and_slice() {
    let mut buf = [0u8; MAXB];
    let n: usize = kani::any();
    kani::assume(n <= 4);
    let mut len = 0;
    for i in 0..4 {
        if i < n {
            let k: u8 = kani::any();
            kani::assume(k < 5);
            match k {
                0 => { buf[len] = b'\n'; len += 1; }
                1 => { buf[len] = b'\r'; len += 1; }
                2 => { buf[len] = b'a'; len += 1; }
                3 => { buf[len] = b' '; len += 1; }
                _ => { buf[len] = 0xE3; buf[len + 1] = 0x81; buf[len + 2] = 0x82; len += 3; }
            }
        }
    }
    // SAFETY: a concatenation of valid UTF-8 encoded characters
    let initial = unsafe { std::str::from_utf8_unchecked(&buf[..len]) };
    let s: usize = kani::any();
    let e: usize = kani::any();
    kani::assume(s <= e && e <= len && initial.is_char_boundary(s) && initial.is_char_boundary(e));
    let pc = ParsedContext { initial, span: s..e };
    let mut lines = 1;
    let mut i = 0;
    while i < s {
        if buf[i] == b'\n' {
            lines += 1;
        }
        i += 1;
    }
    assert!(pc.compute_line_start() == lines);
    let sl = pc.as_str();
    assert!(sl.len() == e - s);
    assert!(sl.as_ptr() == initial[s..].as_ptr());
    kani::cover!(lines == 3 && e > s);
    kani::cover!(len > 4 && s == 4);
}
