//! Kani harness for cli/src/import/extract.rs (child module `import::extract::kani_h`): the real generic
//! Extractor / ExtractRule / MatchOrExpr / MatchAndExpr code instantiated with a symbolic matcher.
use super::*;

/// A matcher whose answer is drawn symbolically in advance, one answer per payee the fragment may carry
/// (rules see the payee as rewritten by earlier rules): i.e. every behaviour a regex matcher could have.
#[derive(Debug, Clone, Copy)]
struct SymMatcher {
    on_none: Option<(u8, u8)>,
    on_p1: Option<(u8, u8)>,
    on_other: Option<(u8, u8)>,
}

fn name(code: u8) -> Option<&'static str> {
    match code % 3 {
        0 => None,
        1 => Some("p1"),
        _ => Some("p2"),
    }
}

impl<'a> Entity<'a> for SymMatcher {
    type T = ();
}

impl TryFrom<(config::RewriteField, &str)> for SymMatcher {
    type Error = ImportError;
    fn try_from(_: (config::RewriteField, &str)) -> Result<Self, ImportError> {
        Err(ImportError::UnknownFormat)
    }
}

impl EntityMatcher for SymMatcher {
    fn captures<'a>(&self, fragment: &Fragment<'a>, _entity: ()) -> Option<Matched<'a>> {
        let ans = match fragment.payee {
            None => self.on_none,
            Some("p1") => self.on_p1,
            Some(_) => self.on_other,
        };
        ans.map(|(p, c)| Matched { payee: name(p), code: name(c) })
    }
}

fn sym_matcher() -> SymMatcher {
    SymMatcher { on_none: kani::any(), on_p1: kani::any(), on_other: kani::any() }
}

#[derive(Clone, Copy)]
struct RuleSpec {
    ors: [[SymMatcher; 2]; 2],
    n_or: usize,
    n_and: [usize; 2],
    pending: bool,
    payee: Option<&'static str>,
    account: Option<&'static str>,
    has_conv: bool,
}

/// the statement of C17, written as plain loops
fn spec_extract<'a>(rules: &[RuleSpec], conv: &'a config::CommodityConversionSpec) -> Fragment<'a> {
    let mut frag = Fragment::default();
    for r in rules {
        let mut matched: Option<Fragment<'a>> = None;
        for oi in 0..r.n_or {
            // an element matches only if all its fields do; later captures override earlier ones
            let mut cur = frag.clone();
            let mut ok = true;
            for ai in 0..r.n_and[oi] {
                match r.ors[oi][ai].captures(&cur, ()) {
                    Some(m) => {
                        if m.payee.is_some() {
                            cur.payee = m.payee;
                        }
                        if m.code.is_some() {
                            cur.code = m.code;
                        }
                    }
                    None => {
                        ok = false;
                        break;
                    }
                }
            }
            if ok {
                // an OR-list matches if any element does: the first one counts
                matched = Some(cur);
                break;
            }
        }
        if let Some(mut cur) = matched {
            if r.payee.is_some() {
                cur.payee = r.payee;
            }
            cur.account = r.account;
            if r.has_conv {
                cur.conversion = Some(conv);
            }
            if cur.account.is_some() && !r.pending {
                cur.cleared = true;
            }
            // merge into the running fragment: later rules override
            frag.cleared = frag.cleared || cur.cleared;
            if cur.payee.is_some() {
                frag.payee = cur.payee;
            }
            if cur.account.is_some() {
                frag.account = cur.account;
            }
            if cur.code.is_some() {
                frag.code = cur.code;
            }
            if cur.conversion.is_some() {
                frag.conversion = cur.conversion;
            }
        }
    }
    frag
}

fn sym_rule() -> RuleSpec {
    let n_or: usize = kani::any();
    kani::assume(n_or >= 1 && n_or <= 2);
    let a0: usize = kani::any();
    let a1: usize = kani::any();
    kani::assume(a0 >= 1 && a0 <= 2 && a1 >= 1 && a1 <= 2);
    RuleSpec {
        ors: [[sym_matcher(), sym_matcher()], [sym_matcher(), sym_matcher()]],
        n_or,
        n_and: [a0, a1],
        pending: kani::any(),
        payee: name(kani::any()),
        account: name(kani::any()),
        has_conv: kani::any(),
    }
}

fn build<'a>(rules: &[RuleSpec], conv: &'a config::CommodityConversionSpec) -> Extractor<'a, SymMatcher> {
    let mut out = Vec::new();
    for r in rules {
        let mut ors = Vec::new();
        for oi in 0..r.n_or {
            let mut ands = Vec::new();
            for ai in 0..r.n_and[oi] {
                ands.push(r.ors[oi][ai]);
            }
            ors.push(MatchAndExpr(ands));
        }
        out.push(ExtractRule {
            match_expr: MatchOrExpr(ors),
            pending: r.pending,
            payee: r.payee,
            account: r.account,
            conversion: if r.has_conv { Some(conv) } else { None },
        });
    }
    Extractor { rules: out }
}

fn check(n_rules: usize) {
    let conv = config::CommodityConversionSpec::default();
    let all = [sym_rule(), sym_rule(), sym_rule()];
    check_rules(&all[..n_rules], &conv);
}

fn check_rules<'a>(rules: &[RuleSpec], conv: &'a config::CommodityConversionSpec) {
    let ex = build(rules, conv);
    let got = ex.extract(());
    let want = spec_extract(rules, conv);
    assert!(got.cleared == want.cleared);
    assert!(got.payee == want.payee);
    assert!(got.account == want.account);
    assert!(got.code == want.code);
    assert!(got.conversion.is_some() == want.conversion.is_some());
    kani::cover!(got.account.is_some() && !got.cleared);
    kani::cover!(got.payee == Some("p2") && got.code == Some("p1"));
}

/// C17 (bounded): <= 2 rules x <= 2 OR-elements x <= 2 AND-fields, every matcher behaviour.
#[kani::proof]
#[kani::unwind(4)]
fn extractor_matches_statement_2rules() {
    let n: usize = kani::any();
    kani::assume(n <= 2);
    check(n);
}

/// C17 (bounded, quick): 2 rules, OR-lists of <= 2 single-field elements.
#[kani::proof]
#[kani::unwind(4)]
fn extractor_2rules_or2_and1() {
    let conv = config::CommodityConversionSpec::default();
    let mut all = [sym_rule(), sym_rule(), sym_rule()];
    all[0].n_and = [1, 1];
    all[1].n_and = [1, 1];
    check_rules(&all[..2], &conv);
}

/// C17 (bounded, quick): 2 rules, one OR-element of <= 2 AND-fields.
#[kani::proof]
#[kani::unwind(4)]
fn extractor_2rules_or1_and2() {
    let conv = config::CommodityConversionSpec::default();
    let mut all = [sym_rule(), sym_rule(), sym_rule()];
    all[0].n_or = 1;
    all[1].n_or = 1;
    check_rules(&all[..2], &conv);
}

/// C17 (bounded, thorough): exactly 3 rules.
#[kani::proof]
#[kani::unwind(5)]
fn extractor_matches_statement_3rules() {
    check(3);
}
