//! Kani harnesses for syntax/display.rs (child module `syntax::display::kani_h`).
use super::*;

/// C19 (complete: loop-free, full usize domain, second engine next to the Verus proof).
#[kani::proof]
fn get_column_complete() {
    let colsize: usize = kani::any();
    let left: usize = kani::any();
    let padding: usize = kani::any();
    kani::assume(left.checked_add(padding).is_some());
    let r = get_column(colsize, left, padding);
    assert!(r >= padding);
    if left + padding < colsize {
        assert!(left + r == colsize);
    } else {
        assert!(r == padding);
    }
    kani::cover!(left + padding < colsize);
}
