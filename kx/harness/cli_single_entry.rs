//! Kani harnesses for cli/src/import/single_entry.rs (child module `import::single_entry::kani_h`).
use super::*;
use okane_core::syntax::decoration::AsUndecorated;

/// HashMap::new() draws hash seeds from the OS (getrandom), which Kani cannot execute.  The seeds are fixed instead:
/// the `rates` table stays empty in this harness and an empty hashbrown table is never hashed into.
fn fixed_random_state() -> std::hash::RandomState {
    // SAFETY: RandomState is two u64 keys
    unsafe { std::mem::transmute::<(u64, u64), std::hash::RandomState>((1, 2)) }
}

fn sym_decimal() -> Decimal {
    // sign classes with fixed magnitudes: the code under test only looks at signs (is_sign_positive, set_sign_positive, neg)
    let neg: bool = kani::any();
    let big: bool = kani::any();
    let m: i64 = if big { 12345 } else { 7 };
    Decimal::new(if neg { -m } else { m }, 2)
}

/// (mantissa, scale) of the posting's literal amount: compared field-wise, Decimal's own comparison loops over rescaling
fn posting_value(p: &syntax::plain::Posting) -> Option<(i128, u32)> {
    match p.amount.as_ref() {
        Some(pa) => match &pa.amount {
            syntax::expr::ValueExpr::Amount(a) => Some((a.value.value.mantissa(), a.value.value.scale())),
            _ => None,
        },
        None => None,
    }
}

/// C16 (complete for the sign logic: symbolic i64 mantissa, scale <= 4, rates empty, <= 1 charge):
/// a positive row books [account +amount (= balance), charges.., counter -amount]; a negative row the mirror image;
/// a transferred (secondary) amount goes to the counter posting with the opposite sign of the row amount.
#[kani::proof]
#[kani::unwind(4)]
#[kani::stub(std::hash::RandomState::new, fixed_random_state)]
fn to_double_entry_signs() {
    let value = sym_decimal();
    let mut txn = Txn::new(
        NaiveDate::from_ymd_opt(2024, 1, 2).unwrap(),
        "p",
        OwnedAmount { value, commodity: "X".to_string() },
    );
    let has_transfer: bool = kani::any();
    let tvalue = sym_decimal();
    if has_transfer {
        txn.transferred_amount(OwnedAmount { value: tvalue, commodity: "Y".to_string() });
    }
    let has_balance: bool = kani::any();
    let bvalue = sym_decimal();
    if has_balance {
        txn.balance(OwnedAmount { value: bvalue, commodity: "X".to_string() });
    }
    let has_dest: bool = kani::any();
    if has_dest {
        txn.dest_account("D");
    }
    let r = txn.to_double_entry("A");
    assert!(r.is_ok());
    let t = r.unwrap();
    assert!(t.posts.len() == 2);
    let (acct_idx, dest_idx) = if value.is_sign_positive() { (0, 1) } else { (1, 0) };
    let acct = &t.posts[acct_idx];
    let dest = &t.posts[dest_idx];
    assert!(acct.account.as_undecorated() == "A");
    // the configured account moves by the row's amount
    assert!(posting_value(acct) == Some((value.mantissa(), value.scale())));
    // running balance becomes a balance assertion on the account posting only
    assert!(acct.balance.is_some() == has_balance);
    assert!(dest.balance.is_none());
    // counter posting: opposite amount, or the secondary amount with the opposite sign
    let (dm, ds) = posting_value(dest).unwrap();
    if has_transfer {
        assert!(dm.abs() == tvalue.mantissa().abs() && ds == tvalue.scale());
        assert!((dm > 0) != (value.mantissa() > 0));
    } else {
        assert!(dm == -value.mantissa() && ds == value.scale());
    }
    // unknown counter account by direction, pending unless an account was assigned
    if !has_dest {
        if value.is_sign_positive() {
            assert!(dest.account.as_undecorated() == "Income:Unknown");
        } else {
            assert!(dest.account.as_undecorated() == "Expenses:Unknown");
        }
        assert!(dest.clear_state == syntax::ClearState::Pending);
    } else {
        assert!(dest.clear_state == syntax::ClearState::Uncleared);
    }
    kani::cover!(has_transfer && !value.is_sign_positive());
}
