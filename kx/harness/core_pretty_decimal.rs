//! Kani harnesses for syntax/pretty_decimal.rs (child module `syntax::pretty_decimal::kani_h`).
use super::*;

/// C07 (bounded): every Comma3Dot / Plain value with an i16 mantissa and scale <= 2 prints without panic and
/// the printed text parses back to the same value and the same number of decimal places; grouping style is kept
/// whenever there are thousands to group.
#[kani::proof]
#[kani::unwind(13)]
fn display_roundtrip_bounded() {
    let m: i16 = kani::any();
    let scale: u32 = kani::any();
    kani::assume(scale <= 2);
    let comma: bool = kani::any();
    let value = Decimal::from_i128_with_scale(m as i128, scale);
    let pd = if comma { PrettyDecimal::comma3dot(value) } else { PrettyDecimal::plain(value) };
    let printed = pd.to_string();
    let back: Result<PrettyDecimal, Error> = printed.parse();
    assert!(back.is_ok());
    let back = back.unwrap();
    assert!(back.value.mantissa() == m as i128);
    assert!(back.value.scale() == scale);
    let int_part = (m as i64).abs() / 10i64.pow(scale);
    if int_part >= 1000 {
        assert!(back.format == pd.format);
    }
    kani::cover!(comma && int_part >= 1000 && scale == 2);
    kani::cover!(comma && int_part == 0 && scale == 2 && m != 0);
}
