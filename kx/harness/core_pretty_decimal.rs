//! Kani harnesses for syntax/pretty_decimal.rs (child module `syntax::pretty_decimal::kani_h`).
use super::*;

/// C07 (bounded): every Comma3Dot / Plain value with an i16 mantissa and scale <= 2 prints without panic and
/// the printed text parses back to the same value and the same number of decimal places; grouping style is kept
/// whenever there are thousands to group.
#[kani::proof]
#[kani::unwind(13)]
fn display_roundtrip_bounded() {
    let m: i16 = kani::any();
    let scale: u32 = kani::any();
    kani::assume(scale <= 2);
    let comma: bool = kani::any();
    let value = Decimal::from_i128_with_scale(m as i128, scale);
    let pd = if comma { PrettyDecimal::comma3dot(value) } else { PrettyDecimal::plain(value) };
    let printed = pd.to_string();
    let back: Result<PrettyDecimal, Error> = printed.parse();
    assert!(back.is_ok());
    let back = back.unwrap();
    assert!(back.value.mantissa() == m as i128);
    assert!(back.value.scale() == scale);
    let int_part = (m as i64).abs() / 10i64.pow(scale);
    if int_part >= 1000 {
        assert!(back.format == pd.format);
    }
    kani::cover!(comma && int_part >= 1000 && scale == 2);
    kani::cover!(comma && int_part == 0 && scale == 2 && m != 0);
}

/// C06 (bounded): the error path of from_str (`try_find_char`, which slices the text around a byte offset) never
/// panics, for every text of <= 3 characters over {'1', ',', 'x', 'あ' (3 bytes)} and every byte offset inside it.
#[kani::proof]
#[kani::unwind(12)]
fn try_find_char_no_panic() {
    let mut buf = [0u8; 9];
    let n: usize = kani::any();
    kani::assume(n >= 1 && n <= 3);
    let mut len = 0;
    for k in 0..3 {
        if k < n {
            let t: u8 = kani::any();
            kani::assume(t < 4);
            match t {
                0 => { buf[len] = b'1'; len += 1; }
                1 => { buf[len] = b','; len += 1; }
                2 => { buf[len] = b'x'; len += 1; }
                _ => { buf[len] = 0xE3; buf[len + 1] = 0x81; buf[len + 2] = 0x82; len += 3; }
            }
        }
    }
    let s = unsafe { std::str::from_utf8_unchecked(&buf[..len]) };
    let i: usize = kani::any();
    kani::assume(i < len);
    let out = try_find_char(s, i, buf[i]);
    assert!(out.len() >= 1);
    kani::cover!(len == 5 && i == 3);
}
