"""Kani harness registry (sources in kx/harness/, injected into a scratch copy of /repo on every run)."""
INJECT = {
    "cli_extract": {"owner": "cli/src/import/extract.rs", "decl": "#[cfg(kani)]\nmod kani_h;", "src": "cli_extract.rs", "dest": "cli/src/import/extract/kani_h.rs"},
    "core_parse_adaptor": {"owner": "core/src/parse/adaptor.rs", "decl": "#[cfg(kani)]\nmod kani_h;", "src": "core_parse_adaptor.rs", "dest": "core/src/parse/adaptor/kani_h.rs"},
    "core_tracked_ctor": {"owner": "core/src/syntax/tracked.rs", "decl": "#[cfg(kani)]\nimpl TrackedSpan {\n    pub fn kani_new(span: Range<usize>) -> TrackedSpan {\n        TrackedSpan(span)\n    }\n}"},
    "core_display": {"owner": "core/src/syntax/display.rs", "decl": "#[cfg(kani)]\nmod kani_h;", "src": "core_display.rs", "dest": "core/src/syntax/display/kani_h.rs"},
    "cli_single_entry": {"owner": "cli/src/import/single_entry.rs", "decl": "#[cfg(kani)]\nmod kani_h;", "src": "cli_single_entry.rs", "dest": "cli/src/import/single_entry/kani_h.rs"},
    "core_pretty_decimal": {"owner": "core/src/syntax/pretty_decimal.rs", "decl": "#[cfg(kani)]\nmod kani_h;", "src": "core_pretty_decimal.rs", "dest": "core/src/syntax/pretty_decimal/kani_h.rs"},
    "core_parse_error": {"owner": "core/src/parse/error.rs", "decl": "#[cfg(kani)]\nmod kani_h;", "src": "core_parse_error.rs", "dest": "core/src/parse/error/kani_h.rs"},
}
HARNESSES = {
    "try_find_char_no_panic": {"crate": "okane-core", "inject": ["core_pretty_decimal"], "bound": "text <= 3 characters over {1, ',', x, あ(3 bytes)}; every byte offset", "timeout": 900},
    "extractor_2rules_or2_and1": {"crate": "okane", "inject": ["cli_extract"], "bound": "2 rules x <= 2 OR-elements x 1 field; symbolic matcher answers", "timeout": 1800},
    "extractor_2rules_or1_and2": {"crate": "okane", "inject": ["cli_extract"], "bound": "2 rules x 1 OR-element x <= 2 AND-fields; symbolic matcher answers", "timeout": 1800},
    "extractor_matches_statement_2rules": {"crate": "okane", "inject": ["cli_extract"], "bound": "<= 2 rules x <= 2 OR-elements x <= 2 AND-fields; symbolic matcher answers, payees/codes/accounts from {None, p1, p2}", "timeout": 1800},
    "extractor_matches_statement_3rules": {"crate": "okane", "inject": ["cli_extract"], "bound": "3 rules x <= 2 OR-elements x <= 2 AND-fields", "timeout": 3600},
    "clip_complete": {"crate": "okane-core", "inject": ["core_parse_adaptor", "core_tracked_ctor"], "bound": "none (loop-free, full usize domain)", "complete": True, "timeout": 600},
    "resolve_is_clip": {"crate": "okane-core", "inject": ["core_parse_adaptor", "core_tracked_ctor"], "bound": "none (loop-free, full usize domain)", "complete": True, "timeout": 600},
    "parsed_context_line_and_slice": {"crate": "okane-core", "inject": ["core_parse_adaptor", "core_tracked_ctor"], "bound": "text <= 4 characters over {LF, CR, space, a, 3-byte char}; every span on character boundaries", "timeout": 900},
    "get_column_complete": {"crate": "okane-core", "inject": ["core_display"], "bound": "none (loop-free, full usize domain)", "complete": True, "timeout": 600},
    "to_double_entry_signs": {"crate": "okane", "inject": ["cli_single_entry"], "bound": "one record: amounts from the sign classes {+,-} x two magnitudes (scale 2); optional transferred amount / balance / dest account; no charges, no rates", "timeout": 2400},
    "display_roundtrip_bounded": {"crate": "okane-core", "inject": ["core_pretty_decimal"], "bound": "i16 mantissa, scale <= 2, Plain and Comma3Dot", "timeout": 1800},
    "compute_line_number_bounded": {"crate": "okane-core", "inject": ["core_parse_error"], "bound": "text <= 4 characters over {LF, CR, a, ;, あ(3 bytes)}; every byte position", "timeout": 600},
    "parse_error_new_bounded": {"crate": "okane-core", "inject": ["core_parse_error"], "bound": "text <= 4 characters over {LF, CR, a, ;, あ(3 bytes)}; every entry start and failure offset on a char boundary", "timeout": 900},
}
