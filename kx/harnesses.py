"""Kani harness registry (sources in kx/harness/, injected into a scratch copy of /repo on every run)."""
INJECT = {}
HARNESSES = {}
