#!/usr/bin/env python3
import sys, json
sys.path.insert(0,'/verif')
from vx import run
g=sys.argv[1]; canary = len(sys.argv)>2 and sys.argv[2]=='canary'
import os
r=run.check_group(os.environ.get('VERIF_REPO','/repo'),g,os.environ.get('VXB','/var/tmp/vxb'),canary=canary)
print(r['status'], r.get('lost'), 'verified',r['verified'],'errors',r['errors'], 'wall', round(r['wall_s'],1))
for f in r['failures'][:12]: print('FAIL', f['message'], f['part'], f['line'], f['labels']); print(f['rendered'][:900])
for f in r['other_errors'][:8]: print('OTHER', f.get('message'), f.get('rendered','')[:700])
print({k:v for k,v in r['functions'].items()})
print('canary', r.get('canary'))
