"""Per-property configuration of the check driver.

verus: list of (group, unit-filter) — a failed obligation counts for the property only when it lies in one of the
       listed units (None = every unit of the group).  A group that is inconclusive makes the property inconclusive.
kani:  harness names (kx/harnesses.py) per tier.
family: replay family (replay/src/*.rs) used to look for a concrete failing input after an obligation failed
        (and, in the thorough tier, as a bounded sweep of the executable twin of the spec on the real code).
"""

L0_DECIMAL = "assumed L0 model of rust_decimal::Decimal (vx/prelude/rust_decimal.rs): machine decimal arithmetic treated as mathematical (exact, total + - *; / requires non-zero divisor; rounding only constrained to keep zero and sign)"
L0_HANDLES = "assumed: Commodity/Account are Copy handles whose Eq/Hash is identity and obey the HashMap key model (vx/prelude/handles.rs)"
L0_STD = "assumed std specs added by hand: Entry::or_default, Option::{copied,or,replace}, u8::is_ascii_digit (vx/prelude/std_gaps*.rs); vstd's own specs of HashMap/Vec/Option/Result"
L1_AMOUNT = ("Amount's loops over its HashMap (round_mut, negate, check_div, mul_assign, add_assign, sub_assign, remove_zero_entries, maybe_pair; formerly assumed L1 contracts) are now PROVED on text obtained by the "
             "mechanical loop rewrites R25 (iter_mut -> key snapshot + get/insert), R25b (into_iter -> entry snapshot), R25c (retain -> key snapshot + remove), R24 (zip/skip/next -> first two entries); what stays ASSUMED is "
             "std's iteration contract in vx/prelude/hashmap_iter_models.rs (every entry exactly once in an unspecified order; two iter() calls over an unmodified map agree) and that `x op= y` on `&mut Decimal` forwards to Decimal (R26)")
L1_BOOK = "assumed contracts (L1): ComputedPosting::{compute_from_syntax, calculate_converted_amount} (closures over &mut ctx + Option::transpose), Evaluable::eval_mut as a deterministic function of (expr, ctx) that only extends the stores, PriceRepositoryBuilder::insert_impl (requires non-zero divisor)"
STUBS = "hand-written stand-ins for GAT syntax types (vx/prelude/syntax_stub.rs) and ReportContext (ctx_stub.rs): exactly the fields read; rustc type-checks extracted bodies against them"

BOOK_UNITS_C01 = ["check_balance", "ComputedPosting::calculate_balance_amount", "Exchange::is_zero", "Exchange::exchange", "Exchange::try_from_syntax",
                  "posting_price_event", "add_transaction", "PriceRepositoryBuilder::insert_price", "callsite:insert_impl division"]

PROPS = {
    "C01": {
        "level": "proof",
        "verus": [("bookkeep", BOOK_UNITS_C01), ("amounts", ["SingleAmount::with_sign_of", "Mul<Decimal> for SingleAmount", "AddAssign<PostingAmount> for Amount", "AddAssign<SingleAmount> for Amount", "TryFrom<PostingAmount> for SingleAmount"])],
        "family": ("c01", {"quick": ["quick"], "thorough": ["thorough"]}),
        "explanation": "Verus proves on the text of /repo: check_balance returns Ok only if the rounded per-commodity totals are all zero or exactly two non-zero totals of opposite sign remain, "
                       "always accepts an all-zero total, and otherwise returns UnbalancedPostings without dividing by zero; each posting is valued at lot price, else cost, else its own amount; "
                       "exchanges with zero rate / no commodity / same commodity are rejected; add_transaction's running total is the sum of those balancing values, a single omitted amount "
                       "receives its negation, two omitted amounts are an error, and otherwise check_balance decides (any number of postings and commodities, any prior balance).",
        "units_doc": ["core/src/report/book_keeping.rs: check_balance, add_transaction, posting_price_event, Exchange::{is_zero,exchange,try_from_syntax}, ComputedPosting::calculate_balance_amount",
                      "core/src/report/price_db.rs: PriceRepositoryBuilder::insert_price (+ division slice of insert_impl)",
                      "core/src/report/eval/*: SingleAmount::with_sign_of, Mul<Decimal>, Amount += PostingAmount/SingleAmount"],
        "assumptions": [L0_DECIMAL, L0_HANDLES, L0_STD, L1_AMOUNT, L1_BOOK, STUBS,
                        "R10: the loop that fills converted_amount in check_balance is dropped (its two divisions are kept as obligations; it only assigns p.converted_amount)"],
        "not_decided": ["the winnow parser producing the syntax tree", "Amount::round / maybe_pair / is_zero bodies (L1)"],
    },
    "C02": {
        "level": "proof",
        "verus": [("bookkeep", ["process_posting", "add_transaction"]), ("balance", ["Balance::add_posting_amount"]), ("amounts", ["Amount::assert_balance", "Amount::get_part", "Amount::is_absolute_zero"])],
        "family": ("c02", {"quick": ["quick"], "thorough": ["thorough"]}),
        "explanation": "Verus proves: process_posting adds the posting to exactly that account (whole-balance postcondition, zero entries removed), and when it returns Ok with `= X` present the assertion "
                       "holds on the updated holdings (X's commodity equals X exactly; bare `= 0` means nothing non-zero is held); a false assertion yields BalanceAssertionFailure carrying the posting's "
                       "account span and the assertion's span; postings are processed in vector (file) order by add_transaction's loop.",
        "units_doc": ["core/src/report/book_keeping.rs: process_posting, add_transaction", "core/src/report/balance.rs: Balance::add_posting_amount", "core/src/report/eval/amount.rs: assert_balance, get_part, is_absolute_zero"],
        "assumptions": [L0_DECIMAL, L0_HANDLES, L0_STD, L1_AMOUNT, L1_BOOK, STUBS, "R4: format!(..) of the computed/diff amounts is opaque message text"],
        "not_decided": ["that the error text prints the computed balance (Display plumbing)", "aliases/includes reaching the same account (C12/C11)"],
    },
    "C03": {
        "level": "proof",
        "verus": [("bookkeep", ["process_posting", "add_transaction"]), ("balance", ["Balance::set_partial", "Balance::add_amount"]),
                  ("amounts", ["Amount::set_partial", "PostingAmount::check_sub", "PostingAmount::check_add", "Neg for PostingAmount", "SingleAmount::check_add", "SingleAmount::check_sub", "TryFrom<&Amount> for PostingAmount"])],
        "family": ("c03", {"quick": ["quick"], "thorough": ["thorough"]}),
        "explanation": "Verus proves: `Account = X` without amount yields exactly X minus the account's holding in that commodity (bare `= 0`: minus its whole single-commodity holding), leaves the account at X and "
                       "changes no other account; `= 0` on several commodities is an error; the single omitted posting receives the negated sum of balancing values in as many commodities as needed, is booked "
                       "on its own account only, and two or more unconstrained postings are rejected.",
        "units_doc": ["core/src/report/book_keeping.rs: process_posting, add_transaction", "core/src/report/balance.rs: Balance::{set_partial, add_amount}", "core/src/report/eval/{amount,posting_amount,single_amount}.rs"],
        "assumptions": [L0_DECIMAL, L0_HANDLES, L0_STD, L1_AMOUNT, L1_BOOK, STUBS],
        "not_decided": [],
    },
    "C04": {
        "level": "proof",
        "verus": [("daterange", None), ("balance", ["Balance::add_amount", "Balance::add_posting_amount"])],
        "family": ("c04", {"quick": [], "thorough": []}),
        "explanation": "Verus proves (a) DateRange::contains is exactly start <= d < end with open ends as infinity, adjacent windows partition their union and empty windows contain nothing, "
                       "is_bypass/require_recompute choose the stored balance only for an unbounded window without per-posting conversion; (b) every update of the running Balance adds the posting to that "
                       "account only and never stores a zero-valued commodity.  The re-fold in Ledger::balance and the register's running total are iterator-adapter code and are NOT decided.",
        "units_doc": ["core/src/report/query.rs: DateRange::{contains,is_bypass}, BalanceQuery::require_recompute", "core/src/report/balance.rs: Balance::{add_amount, add_posting_amount}"],
        "assumptions": ["assumed L0 model of chrono::NaiveDate: a totally ordered day number (vx/prelude/chrono.rs)", L0_DECIMAL, L0_HANDLES, L0_STD, L1_AMOUNT],
        "not_decided": ["Ledger::balance re-fold (flat_map/filter_map closures), Balance::round, RegisterCmd running total"],
    },
    "C06": {
        "level": "other",
        "verus": [("prettydec", ["from_str"]),
                  ("bookkeep", ["PriceRepositoryBuilder::insert_price", "callsite:insert_impl division", "check_balance", "posting_price_event", "add_transaction", "process_posting"]),
                  ("amounts", None), ("balance", None), ("intern", ["InternStore::insert_canonical_impl", "InternStore::insert_alias_impl"])],
        "kani": {"quick": ["parse_error_new_bounded", "compute_line_number_bounded", "clip_complete", "try_find_char_no_panic"], "thorough": ["parsed_context_line_and_slice"]},
        "family": ("c06", {"quick": ["quick"], "thorough": ["thorough"]}),
        "technique": "contract-based deductive verification (Verus safety/termination obligations of the contracted kernels) + Kani with unwinding assertions on the real crate for the loops that live in std",
        "explanation": "PARTIAL.  A deductive verifier proves absence of panics and termination by default; C06 collects those obligations for the kernels that sit on the hazards the property names: "
                       "from_str (i128 overflow, scale overflow, indexing, loop termination: all string lengths), insert_price / insert_impl and check_balance (Decimal division by zero), posting_price_event "
                       "(unreachable! turned into an obligation), add_transaction (indexing postings[u]), the amount/balance kernels (unwrap/expect reachability), the two debug_assert!s of InternStore as obligations; "
                       "Kani (bounded, unwinding assertions on): ParseError::new terminates and stays in range for every failure offset including end of input, compute_line_number's assert precondition, clip has "
                       "no underflow (complete), Display for PrettyDecimal does not panic (i16 mantissa, scale <= 2).  NOT decided: totality of the winnow parser on arbitrary text, include cycles, the CLI main.",
        "units_doc": ["see C01, C02, C03, C07, C12 units", "core/src/parse/error.rs: ParseError::new, compute_line_number (Kani)", "core/src/parse/adaptor.rs: clip (Kani)", "core/src/syntax/pretty_decimal.rs: Display (Kani, bounded)"],
        "assumptions": [L0_DECIMAL, L0_HANDLES, L0_STD, L1_AMOUNT, L1_BOOK, STUBS, "overflow panics of Decimal + - * are outside C06 by its own 'representable range' clause",
                        "Kani: text <= 4 characters over {LF, CR, a, ;, あ (3 bytes)}"],
        "bounded": ["parse_error_new_bounded (text <= 4 characters incl. a 3-byte one)", "compute_line_number_bounded (same)", "try_find_char_no_panic (text <= 3 characters)"],
        "not_decided": ["winnow parser totality on arbitrary text", "self-including files (load_impl recursion has no measure)", "cli main error mapping"],
        "unwind_is_violation": ["parse_error_new_bounded"],
    },
    "C13": {
        "level": "other",
        "verus": [("determinism", None), ("amounts", ["TryFrom<&Amount> for SingleAmount"])],
        "kani": {"quick": [], "thorough": []},
        "family": ("c13", {"quick": [], "thorough": []}),
        "technique": "contract-based deductive verification: determinism phrased as 'the result is a function of the map's contents': Verus proves that the statements fixing an output order return the canonical "
                     "(strictly key-sorted, complete, duplicate-free) listing of the hash map, and that the canonical listing is unique; bounded stand-in: the same input run 24 times in one process with fresh hash seeds",
        "explanation": "PARTIAL.  C13 is a 2-safety property (two runs agree); it is decided here in the contract form 'every order that reaches the output is a function of the hash map's CONTENTS'.  Verus' HashMap "
                       "model leaves iteration order unconstrained (that is the per-process seed), so an order-dependent result cannot satisfy such a postcondition.  Proved on text extracted from /repo: the "
                       "function Amount::sorted_values that fixes the printing and iteration order of a multi-commodity amount (balance, register, eval, error texts, first missing rate), Balance::into_vec (account order of the "
                       "balance report), the statements of Ledger::balance that order the accounts before conversion, the statements of compute_price_table that order the neighbours of a commodity (tie-breaking among "
                       "equally distant rates) and the statements of MatchAndExpr::try_from that fix the order of a rewrite rule's field matchers each return the canonical listing (every entry once, strictly increasing key); lemma_canonical_unique "
                       "proves that two canonical listings of the same map are equal, so two runs agree.  SingleAmount::try_from(&Amount) never picks 'the first' entry of a multi-commodity amount (C08 obligation reused).  "
                       "Four genuine defects were found and fixed (f727f42, bdc6d41, f33a1e3, 4d6c148).  Bounded: the c13 family runs balance / register / eval / error texts and camt053 / CSV imports 24 times per input in one "
                       "process (fresh RandomState per map) and compares the texts byte for byte.  NOT decided: the rest of the price search (BinaryHeap order given a fixed push sequence is taken to be deterministic), ReportContext::all_accounts, environment / clock / locale.",
        "units_doc": ["core/src/report/eval/amount.rs: Amount::sorted_values (+ textual anchors in InlinePrintAmount::fmt and Amount::iter), TryFrom<&Amount> for SingleAmount", "core/src/report/balance.rs: Balance::into_vec",
                      "core/src/report/query.rs: Ledger::balance (account order before conversion, sliced)", "core/src/report/price_db.rs: compute_price_table (neighbour order, sliced)",
                      "cli/src/import/extract.rs: TryFrom<&FieldMatcher> for MatchAndExpr (order statements, sliced)", "lemmas: det::lemma_canonical_unique, det::lemma_sorted_perm_canonical, theorem_*_listing_deterministic"],
        "assumptions": [L0_HANDLES, "assumed (R24): HashMap::iter().collect() / into_iter().collect() list every entry exactly once in an unspecified order; slice::sort_unstable_by_key returns a permutation sorted by the key",
                        "assumed: Ord for str / derive(Ord) for RewriteField are antisymmetric on the keys, i.e. two distinct interned handles of one context never carry the same name",
                        "the loops that print the listing in index order (write! plumbing) are not under contract"],
        "bounded": ["c13 family: 9 ledgers x (balance, balance -X up-to-date / historical, register, eval, error text), 4 camt053 rule shapes + 1 CSV rule, 24 runs each in one process"],
        "not_decided": ["that BinaryHeap pops equal-distance entries in an order fixed by the push sequence (std)", "ReportContext::all_accounts (sorted, not under contract)", "process-level inputs: environment, clock, locale"],
    },
    "C14": {
        "level": "other",
        "verus": [],
        "kani": {"quick": ["compute_line_number_bounded", "parse_error_new_bounded", "clip_complete", "resolve_is_clip", "parsed_context_line_and_slice"], "thorough": []},
        "technique": "Kani on the real okane-core crate: harness modules injected next to parse/error.rs and parse/adaptor.rs; loop-free harnesses over the full usize domain are complete proofs, string harnesses are bounded",
        "explanation": "PARTIAL / BOUNDED.  On the real compiled code: compute_line_number(s, pos) = 1 + number of LF before pos; ParsedContext::compute_line_start is that at the entry's span start and as_str is the "
                       "entry's slice; ParseError::new reports the first line of the failed entry, an error span starting at the failure offset and ending inside the remaining text, for every entry start and failure "
                       "offset (text <= 4 characters over {LF, CR, a, ;, a 3-byte character}) — bounded; clip / ParsedSpan::resolve map a tracked span inside the entry to entry-relative offsets without underflow — complete (loop-free, full usize).",
        "units_doc": ["core/src/parse/error.rs: compute_line_number, ParseError::new", "core/src/parse/adaptor.rs: clip, ParsedSpan::resolve, ParsedContext::{compute_line_start, as_str}"],
        "assumptions": ["Kani 0.68 / CBMC 6.11 model of std", "text restricted to <= 4 characters over {LF, CR, a, ;, あ (3 bytes)} (both the ParseError and the ParsedContext harness)",
                        "TrackedSpan constructor injected under cfg(kani) (the real one is cfg(test))"],
        "bounded": ["text <= 4 characters (<= 12 bytes) for compute_line_number / ParseError::new, ASCII <= 6 bytes for ParsedContext"],
        "not_decided": ["which file path reaches ErrorContext::new (load_impl, C11)", "rendering by annotate_snippets", "that spans produced by winnow lie inside their entry"],
        "unwind_is_violation": ["parse_error_new_bounded"],
    },
    "C07": {
        "level": "proof",
        "verus": [("prettydec", None), ("rescale", None)],
        "kani": {"quick": [], "thorough": []},
        "family": ("c07", {"quick": ["5"], "thorough": ["6"]}),
        "explanation": "Verus discharges, for strings of every length, that PrettyDecimal::from_str (text extracted from /repo on this run) "
                       "returns Ok exactly for well-formed representable literals and then carries exactly the written mantissa, scale and grouping style; "
                       "all index/overflow/termination obligations of the scanner are discharged as well.",
        "units_doc": ["core/src/syntax/pretty_decimal.rs: impl FromStr for PrettyDecimal::from_str (+closure aligned_comma), PrettyDecimal::{scale, rescale}",
                      "core/src/syntax/display.rs: rescale (printing pads to the configured precision, never lowers the scale, keeps value and grouping style: also the numeric clause of C15)"],
        "assumptions": [
            "rust_decimal::Decimal::try_from_i128_with_scale: Ok iff scale<=28 and |m|<=2^96-1, then mantissa/scale as given (assumed from its source)",
            "u8::is_ascii_digit == 48..=57 (assume_specification)",
            "str length + 4 <= usize::MAX (every Rust str has len <= isize::MAX)",
            "try_find_char is opaque (R16): it only builds the error message text",
        ],
        "not_decided": ["token extent of numbers inside the winnow parser (primitive::pretty_decimal)"],
    },
    "C08": {
        "level": "proof",
        "verus": [("evalvisit", None), ("evaluated", None), ("amounts", None)],
        "family": ("c08", {"quick": ["quick"], "thorough": ["thorough"]}),
        "explanation": "Verus proves, by structural induction over expression trees of every depth, that Evaluable::eval_visit (ValueExpr / Expr / UnaryOpExpr / BinaryOpExpr) returns, whenever it succeeds, "
                       "exactly the value of a functional semantics `sem` (unary minus negates, parentheses group, each binary node applies its operator to both evaluated sides) and therefore fails on every tree "
                       "that has no value.  Verus also proves the typing rules of evaluation on the real functions: number+number and amount+amount (pointwise, per commodity) are the only sums, amount*number / number*amount the only "
                       "products with an amount, division by zero (number or all-zero amount) is DivideByZero, number/amount needs a single-commodity amount, amount/amount and number+amount are UnmatchingOperation; "
                       "conversions to SingleAmount / PostingAmount accept exactly one / at most one commodity and reject non-zero bare numbers.",
        "units_doc": ["core/src/report/eval.rs: trait Evaluable::eval_visit and its four impls",
                      "core/src/report/eval/evaluated.rs: Evaluated::{check_add,check_sub,check_mul,check_div,negate,is_zero,from_expr_amount,from_expr_amount_mut} and its TryFrom/From impls",
                      "core/src/report/eval/{amount,single_amount,posting_amount}.rs: 40 functions"],
        "assumptions": [L0_DECIMAL, L0_HANDLES, L0_STD, L1_AMOUNT, "ReportContext stand-in (ctx_stub.rs): CommodityStore::{ensure,resolve} as assumed interface of InternStore (proved in C12)",
                        "A-EVAL (rule R22): the literal evaluator closure (FnMut over &mut ctx) is treated as a stateless function (F: Fn, &F); the default methods eval_mut / eval that build it are dropped (R16)"],
        "not_decided": ["precedence/associativity as produced by the winnow parser (parse/expr.rs)", "Evaluable::{eval_mut, eval} glue (closures capturing the context)"],
    },
    "C12": {
        "level": "proof",
        "verus": [("intern", None), ("evaluated", ["Evaluated::from_expr_amount_mut", "Evaluated::from_expr_amount"]), ("bookkeep", ["ProcessAccumulator::process"])],
        "family": ("c12", {"quick": [], "thorough": []}),
        "explanation": "Verus proves the alias table on the real InternStore code (HashMap<&str, Option<InternedStr>>): a representation invariant (aliases point at registered canonicals, no chains) is "
                       "preserved by every operation; resolve/ensure map an alias to the canonical it was declared for and a canonical to itself, never re-point or remove a known name (so a later use of an alias "
                       "means the canonical in every later state); insert_canonical on an alias is AlreadyAlias and insert_alias on a canonical is AlreadyCanonical with the table unchanged; every commodity name "
                       "in an evaluated literal goes through ensure/resolve; ProcessAccumulator::process rejects an `account`/`commodity` declaration whose name is already an alias and registers every accepted "
                       "declaration without changing the meaning of names known before (against the store interface of ctx_stub.rs).  The FromInterned impls of Commodity and Account are verified against the trait contract.",
        "units_doc": ["core/src/report/intern.rs: InternStore::{get,resolve,ensure,insert_canonical,insert_alias,insert_canonical_impl,insert_alias_impl,as_type}, StoredValue::as_canonical, InternedStr::as_str",
                      "core/src/report/commodity.rs, context.rs: impl FromInterned for Commodity / Account", "core/src/report/eval/evaluated.rs: from_expr_amount(_mut)",
                      "core/src/report/book_keeping.rs: ProcessAccumulator::process (declaration wiring)"],
        "assumptions": ["assumed (5 axioms, vx/prelude/intern_stub.rs): a &str key is its content — as_static(q) is the stored key equal in content to q; &'static str obeys the HashMap key model; "
                        "contains_borrowed_key / maps_borrowed_key_to_value / get_key_value for &str keys look up as_static(q)",
                        "assumed: Bump::alloc_str returns a &str with the same content; InternedStr pointer equality is modelled as content equality (sound while each name is allocated once, which the debug_assert obligations establish)",
                        "the account use site ctx.accounts.ensure in add_transaction is verified under C01-C03 against the same interface (ctx_stub.rs)"],
        "not_decided": ["that reports print canonical names (Display / iterator code)"],
    },
    "C20": {
        "level": "proof",
        "verus": [("golden", None)],
        "family": ("c20", {"quick": [], "thorough": []}),
        "explanation": "Verus proves the control logic of the golden helper for all contents and paths over an assumed model of std::fs / std::env: is_update_golden is exactly 'UPDATE_GOLDEN set to a non-empty value'; "
                       "read_as_utf8 returns the file with CRLF replaced by LF; Golden::new fails on a missing file unless updating; Golden::assert is verified under two contract variants of the same extracted body — "
                       "(succeeds) when updating or got equals the normalised content the comparison holds, and the only write is of exactly `got` to the golden path under UPDATE_GOLDEN; (fails) when not updating and "
                       "got differs, no write is reachable and the comparison is reached with different operands (assert_str_eq! panics).",
        "units_doc": ["golden/src/lib.rs: read_as_utf8, is_update_golden, Golden::new, Golden::assert (two contract variants)"],
        "assumptions": ["assumed model of std::fs::{read_to_string, write}, std::env::var, std::io::Error (vx/prelude/env_model.rs, rule R21 redirects std:: paths to it): reads/vars are functions of the path/name, fs::write succeeds",
                        "assumed: str::replace is a function of (text, from, to); assert_str_eq! panics iff its operands differ (R15); Result::{or_else,unwrap_or_default} specs added by hand"],
        "not_decided": ["what str::replace(\"\\r\\n\", \"\\n\") computes (std)", "real file-system effects"],
    },
    "C16": {
        "level": "proof",
        "verus": [("csvsign", None)],
        "kani": {"quick": [], "thorough": []},
        "family": ("c16", {"quick": [], "thorough": []}),
        "explanation": "PARTIAL.  Verus proves the sign clauses on the real functions: FieldMap::amount books a non-empty credit column as +credit, otherwise a non-empty debit column as -debit, neither as an error, and an "
                       "`amount` column as +amount for an asset and -amount for a liability account; amount_with_sign gives the secondary amount the requested sign and keeps its magnitude and commodity; Neg for "
                       "OwnedAmount/BorrowedAmount negates the value only; the statement that orders the rows at the end of csv::import (sliced out) keeps an oldest-first statement and reverses a newest-first one.  Thorough tier (Kani on the real okane crate, one symbolic record): Txn::to_double_entry puts +amount (with the balance assertion) on the "
                       "configured account first for a positive row and last for a negative one, the counter posting carries the opposite amount or the secondary amount with the opposite sign, Income:/Expenses:Unknown "
                       "by direction and pending unless an account was assigned.  NOT decided: column mapping/templates, conversion-rate orientation inside csv::import, acceptance by book-keeping.",
        "units_doc": ["cli/src/import/csv.rs: FieldMap::amount", "cli/src/import/single_entry.rs: amount_with_sign (Verus), Txn::to_double_entry (Kani, thorough)", "cli/src/import/amount.rs: Neg impls, AmountRef::into_borrowed"],
        "assumptions": [L0_DECIMAL, "assumed (L1): FieldMap::resolve returns the configured column/template text; str_to_comma_decimal returns None for an empty string, else the number written or an error (it is PrettyDecimal::from_str, C07)",
                        "stand-ins for csv::StringRecord, Template, ImportError (vx/prelude/csv_stub.rs)", "Kani harness: RandomState::new stubbed with fixed keys (rates table stays empty)"],
        "bounded": ["to_double_entry_signs: one record, i64 mantissa, scale <= 4, no charges, no rates"],
        "not_decided": ["csv::import row loop (csv crate, regex, HashMap): conversion block, templates", "that okane's book-keeping accepts the result"],
    },
    "C17": {
        "level": "other",
        "verus": [("config", None)],
        "kani": {"quick": ["extractor_2rules_or1_and2"], "thorough": ["extractor_2rules_or2_and1", "extractor_matches_statement_2rules"]},
        "family": ("c17", {"quick": [], "thorough": ["thorough"]}),
        "technique": "contract-based deductive verification: Verus on ConfigFragment::merge; Kani on the real generic extractor code instantiated with a symbolic matcher (callee replaced by 'any answer')",
        "explanation": "PARTIAL / BOUNDED.  Verus proves ConfigFragment::merge: the later document overrides each scalar setting that it sets and the rewrite rules are concatenated in order.  Kani runs the real "
                       "Extractor::extract / ExtractRule::extract / MatchOrExpr::extract / MatchAndExpr::extract / Fragment += / Fragment + Matched with a matcher whose answers are symbolic per payee seen, and compares all five "
                       "Fragment fields with the statement written as plain loops (rules in order each seeing the rewritten payee; OR = first matching element; AND = all fields; captures then rule payee override; account "
                       "replaces; cleared iff some matching account rule is not pending) for <= 2 rules x <= 2 OR x <= 2 AND.  NOT decided by proof: ConfigSet::select_impl (substring match, stable sort, fold), regexes, YAML: "
                       "these are exercised, bounded, by the c17 replay family (layered documents through load_from_yaml + select; rule lists of <= 3 rules through the real CSV import) against a twin of the statement.",
        "units_doc": ["cli/src/import/config.rs: ConfigFragment::merge", "cli/src/import/extract.rs: Extractor::extract, ExtractRule::extract, MatchOrExpr::extract, MatchAndExpr::extract, AddAssign for Fragment, Add<Matched> for Fragment (Kani, thorough)"],
        "assumptions": ["stand-ins for Encoding, AccountCommodityConfig, FormatSpec, RewriteRule (merge never looks inside)", "Option::or spec added by hand"],
        "bounded": ["quick: 2 rules x 1 OR-element x <= 2 AND-fields (about 4 min of CBMC); thorough: 2 rules x <= 2 OR x 1 field, and <= 2 rules x <= 2 OR x <= 2 AND (about 26 min); names from {None, p1, p2}",
                    "c17 family: base document + every ordered selection of <= 3 of 7 documents x 5 file paths; every list of <= 2 (quick: a third of the 3-rule lists; thorough: all) of 8 rules x 6 CSV rows"],
        "not_decided": ["ConfigSet::select_impl ordering and matching (bounded family only)", "regex matchers and capture groups (bounded family only)", "Income:/Expenses:Unknown fallback (decided under C16's Kani harness)"],
    },
    "C19": {
        "level": "proof",
        "verus": [("columns", None)],
        "kani": {"quick": ["get_column_complete"], "thorough": []},
        "family": ("c19", {"quick": ["quick"], "thorough": ["thorough"]}),
        "explanation": "Verus proves the column arithmetic of formatted postings on get_column, Alignment::{absolute,plus} and on the two get_column call expressions sliced out of Display for Posting: "
                       "padding is always >= 2, a short account makes the amount's numeric part end at column 52 and a balance-only posting's `=` land where it would after an amount; the indent literals "
                       "of posting and metadata lines are exactly four spaces.",
        "units_doc": ["core/src/syntax/display.rs: get_column, Alignment::{absolute,plus}, call-site slices get_column(48, ..) / get_column(50 + trailing, ..), format-string literal slices"],
        "assumptions": ["fmt plumbing ({:>width$}), unicode-width and fmt_with_alignment's returned offset are not verified", "widths < 2^30"],
        "not_decided": ["fmt_with_alignment offsets, unicode width, entry separation in format.rs"],
    },
}


def trusted_base(pid):
    base = ["Verus 0.2026.09.13 + Z3 (vstd specs of std)", "vx/extract.py rule catalogue (vx/rules.md): emitted text = repo text modulo logged rule instances"]
    P = PROPS[pid]
    if P.get("kani", {}).get("quick") or P.get("kani", {}).get("thorough"):
        base.append("Kani 0.68 / CBMC 6.11")
    return base
