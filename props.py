"""Per-property configuration of the check driver.

verus: list of (group, unit-filter) — a failed obligation counts for the property only when it lies in one of the
       listed units (None = every unit of the group).  A group that is inconclusive makes the property inconclusive.
kani:  harness names (kx/harnesses.py) per tier.
family: replay family (replay/src/*.rs) used to look for a concrete failing input after an obligation failed
        (and, in the thorough tier, as a bounded sweep of the executable twin of the spec on the real code).
"""

L0_DECIMAL = "assumed L0 model of rust_decimal::Decimal (vx/prelude/rust_decimal.rs): machine decimal arithmetic treated as mathematical (exact, total + - *; / requires non-zero divisor; rounding only constrained to keep zero and sign)"
L0_HANDLES = "assumed: Commodity/Account are Copy handles whose Eq/Hash is identity and obey the HashMap key model (vx/prelude/handles.rs)"
L0_STD = "assumed std specs added by hand: Entry::or_default, Option::{copied,or,replace}, u8::is_ascii_digit (vx/prelude/std_gaps*.rs); vstd's own specs of HashMap/Vec/Option/Result"
L1_AMOUNT = ("Amount's loops over its HashMap (round_mut, negate, check_div, mul_assign, add_assign, sub_assign, remove_zero_entries, maybe_pair; formerly assumed L1 contracts) are now PROVED on text obtained by the "
             "mechanical loop rewrites R25 (iter_mut -> key snapshot + get/insert), R25b (into_iter -> entry snapshot), R25c (retain -> key snapshot + remove), R24 (zip/skip/next -> first two entries); what stays ASSUMED is "
             "std's iteration contract in vx/prelude/hashmap_iter_models.rs (every entry exactly once in an unspecified order; two iter() calls over an unmodified map agree) and that `x op= y` on `&mut Decimal` forwards to Decimal (R26)")
L1_BOOK = ("assumed (L1): Evaluable::eval_mut as a deterministic function of (expr, ctx) that only extends the stores (its recursion, eval_visit, is proved in group evalvisit); that ComputedPosting::compute_from_syntax is a FUNCTION of (written amount, context) "
           "(`computed_of` names its result in process_posting's contract) - every other clause of its contract is PROVED on the extracted body (renamed copy `compute_from_syntax(body)`, rule R34b: `.map(..).transpose()?` -> match); "
           "ComputedPosting::calculate_converted_amount is proved (R34c); PriceRepositoryBuilder::insert_impl is an assumed contract in group bookkeep (requires non-zero divisor; its division slice is checked there) and proved on its real body in group prices")
STUBS = "hand-written stand-ins for GAT syntax types (vx/prelude/syntax_stub.rs) and ReportContext (ctx_stub.rs): exactly the fields read; rustc type-checks extracted bodies against them"

BOOK_UNITS_C01 = ["check_balance", "ComputedPosting::calculate_balance_amount", "Exchange::is_zero", "Exchange::exchange", "Exchange::try_from_syntax",
                  "posting_price_event", "add_transaction", "PriceRepositoryBuilder::insert_price", "callsite:insert_impl division",
                  "ComputedPosting::compute_from_syntax(body)", "posting_cost_exchange", "posting_lot_exchange", "ComputedPosting::calculate_converted_amount", "ProcessAccumulator::process"]

PROPS = {
    "C01": {
        "level": "proof",
        "verus": [("bookkeep", BOOK_UNITS_C01), ("amounts", ["SingleAmount::with_sign_of", "Mul<Decimal> for SingleAmount", "AddAssign<PostingAmount> for Amount", "AddAssign<SingleAmount> for Amount", "TryFrom<PostingAmount> for SingleAmount",
                                                                 "Amount::round_mut", "Amount::round", "Amount::is_zero", "Amount::maybe_pair", "Amount::negate", "SubAssign for Amount", "AddAssign<Amount> for Amount"])],
        "family": ("c01", {"quick": ["quick"], "thorough": ["thorough"]}),
        "explanation": "Verus proves on the text of /repo: a `commodity` directive stores the precision of its (last) `format` line for the declared commodity whatever the sample spells after the number (ProcessAccumulator::process); check_balance returns Ok only if the rounded per-commodity totals are all zero or exactly two non-zero totals of opposite sign remain, "
                       "always accepts an all-zero total, and otherwise returns UnbalancedPostings without dividing by zero; each posting is valued at lot price, else cost, else its own amount; "
                       "exchanges with zero rate / no commodity / same commodity are rejected; add_transaction's running total is the sum of those balancing values, a single omitted amount "
                       "receives its negation, two omitted amounts are an error, and otherwise check_balance decides (any number of postings and commodities, any prior balance).",
        "units_doc": ["core/src/report/book_keeping.rs: check_balance, add_transaction, posting_price_event, Exchange::{is_zero,exchange,try_from_syntax}, ComputedPosting::calculate_balance_amount",
                      "core/src/report/price_db.rs: PriceRepositoryBuilder::insert_price (+ division slice of insert_impl)",
                      "core/src/report/eval/*: SingleAmount::with_sign_of, Mul<Decimal>, Amount += PostingAmount/SingleAmount"],
        "assumptions": [L0_DECIMAL, L0_HANDLES, L0_STD, L1_AMOUNT, L1_BOOK, STUBS,
                        "R10: the loop that fills converted_amount in check_balance is dropped (its two divisions are kept as obligations; it only assigns p.converted_amount)"],
        "not_decided": ["the winnow parser producing the syntax tree", "Evaluable::eval_mut glue (closure capturing the context); that compute_from_syntax is a function of its inputs"],
    },
    "C02": {
        "level": "proof",
        "verus": [("bookkeep", ["process_posting", "add_transaction"]), ("balance", ["Balance::add_posting_amount", "Balance::set_partial", "Balance::add_amount"]),
                  ("amounts", ["Amount::assert_balance", "Amount::get_part", "Amount::is_absolute_zero", "Amount::is_zero", "SubAssign for Amount", "Amount::remove_zero_entries", "AddAssign<Amount> for Amount", "Amount::set_partial",
                               "AddAssign<PostingAmount> for Amount", "AddAssign<SingleAmount> for Amount"])],
        "family": ("c02", {"quick": ["quick"], "thorough": ["thorough"]}),
        "explanation": "Verus proves: process_posting adds the posting to exactly that account (whole-balance postcondition, zero entries removed), and when it returns Ok with `= X` present the assertion "
                       "holds on the updated holdings (X's commodity equals X exactly; bare `= 0` means nothing non-zero is held); a false assertion yields BalanceAssertionFailure carrying the posting's "
                       "account span and the assertion's span; postings are processed in vector (file) order by add_transaction's loop.",
        "units_doc": ["core/src/report/book_keeping.rs: process_posting, add_transaction", "core/src/report/balance.rs: Balance::add_posting_amount", "core/src/report/eval/amount.rs: assert_balance, get_part, is_absolute_zero"],
        "assumptions": [L0_DECIMAL, L0_HANDLES, L0_STD, L1_AMOUNT, L1_BOOK, STUBS, "R4: format!(..) of the computed/diff amounts is opaque message text"],
        "not_decided": ["that the error text prints the computed balance (Display plumbing)", "aliases/includes reaching the same account (C12/C11)"],
    },
    "C03": {
        "level": "proof",
        "verus": [("bookkeep", ["process_posting", "add_transaction"]), ("balance", ["Balance::set_partial", "Balance::add_amount"]),
                  ("amounts", ["Amount::set_partial", "PostingAmount::check_sub", "PostingAmount::check_add", "Neg for PostingAmount", "SingleAmount::check_add", "SingleAmount::check_sub", "TryFrom<&Amount> for PostingAmount",
                               "Amount::negate", "AddAssign<Amount> for Amount", "SubAssign for Amount", "Amount::remove_zero_entries"])],
        "family": ("c03", {"quick": ["quick"], "thorough": ["thorough"]}),
        "explanation": "Verus proves: `Account = X` without amount yields exactly X minus the account's holding in that commodity (bare `= 0`: minus its whole single-commodity holding), leaves the account at X and "
                       "changes no other account; `= 0` on several commodities is an error; the single omitted posting receives the negated sum of balancing values in as many commodities as needed, is booked "
                       "on its own account only, and two or more unconstrained postings are rejected.",
        "units_doc": ["core/src/report/book_keeping.rs: process_posting, add_transaction", "core/src/report/balance.rs: Balance::{set_partial, add_amount}", "core/src/report/eval/{amount,posting_amount,single_amount}.rs"],
        "assumptions": [L0_DECIMAL, L0_HANDLES, L0_STD, L1_AMOUNT, L1_BOOK, STUBS],
        "not_decided": [],
    },
    "C04": {
        "level": "proof",
        "verus": [("daterange", None), ("register", None), ("registercmd", ["callsite:RegisterCmd::run.lines", "anchor:RegisterCmd::run lists what Ledger::postings returns for the account argument"]), ("balance", None), ("query", None), ("bookkeep", ["process_posting", "add_transaction", "ProcessAccumulator::process", "ProcessAccumulator::new"]),
                  ("amounts", ["AddAssign<Amount> for Amount", "Amount::remove_zero_entries", "Amount::set_partial", "AddAssign<PostingAmount> for Amount", "AddAssign<SingleAmount> for Amount", "TryFrom<&Amount> for PostingAmount"])],
        "family": ("c04", {"quick": [], "thorough": []}),
        "explanation": "Verus proves (a) DateRange::contains is exactly start <= d < end with open ends as infinity, adjacent windows partition their union and empty windows contain nothing, "
                       "is_bypass/require_recompute choose the stored balance only for an unbounded window without per-posting conversion; (b) every update of the running Balance adds the posting to that "
                       "account only and never stores a zero-valued commodity; (c) the register's account filter (AccountFilter::is_match; AccountFilter::new, whole function: `.filter(..).collect()` into the HashSet rewritten into an insert loop, R35b) lists a posting "
                       "exactly when no account was asked for or its account's name EQUALS the argument, and Ledger::postings applies it to the posting's own account (textual anchor).  (d) Ledger::balance, the whole function (group `query`, rule R30): "
                       "with a window (or --historical) the result is the fold, in file order, of Balance::add_amount over exactly the stored postings of the transactions whose date satisfies contains(), rounded once at the end by Balance::round (proved: every account rounded, none added or dropped); "
                       "without a window the stored whole-history balance is returned as it is; nothing in the ledger is modified.  (e) the data-structure invariant behind 'the two report paths agree': add_transaction moves the running balance, per account and commodity, by exactly the sum of the amounts its stored (register) postings list "
                       "(new postcondition, incl. assigned, deduced and placeholder postings), ProcessAccumulator::process keeps `stored balance == register sum over all stored transactions` and ProcessAccumulator::new establishes it; "
                       "`process` hands both fields to the Ledger unchanged (three textual anchors - its loader closure is outside Verus).  (f) Lemmas over those contracts (proof functions, group `query`): per account and commodity the window report before rounding "
                       "is the sum of the listed amounts of the transactions dated in [start, end); reports over adjacent windows add up to the report over their union; with an unbounded window the re-fold, the stored balance and the register total coincide; "
                       "the re-fold never holds a zero total.  (g) the register COMMAND (cli/src/cmd.rs RegisterCmd::run, group `registercmd`): the loop over the listed postings is a statement slice checked against Amount's `+=` contract and the fmt sink model (rule R50): it prints one line per listed posting, in the listed order - account, the posting's amount, a running total - and that running total is, per commodity, the sum of the amounts of the lines printed so far; the list it runs over is what Ledger::postings returned for the account argument (anchor).  NOT decided by proof: how an amount is rendered (InlinePrintAmount) and rounding interplay beyond 'rounded once at the end'; they are exercised by the c04 family (five ledgers incl. back-dated entries, a declared precision, "
                       "assignments, and account names that are prefixes of one another x 100 [start, end) windows against the sum of the listed postings; Ledger::postings per account against the whole-history report).",
        "units_doc": ["core/src/report/query.rs: DateRange::{contains,is_bypass}, BalanceQuery::require_recompute, AccountFilter::is_match, AccountFilter::new (whole function + selection predicate slice), Ledger::postings (whole function)", "core/src/report/balance.rs: Balance::{add_amount, add_posting_amount, round}", "core/src/report/query.rs: Ledger::balance (whole function)",
                      "core/src/report/book_keeping.rs: add_transaction (register-sum postcondition), ProcessAccumulator::{new, process} (invariant), process (anchors)",
                      "cli/src/cmd.rs: RegisterCmd::run (the listing loop: statement slice + anchor)", "lemmas: lemma_fold_is_register_sum, theorem_adjacent_windows_add_up, theorem_whole_history_agrees, theorem_window_report_shows_no_zero_total"],
        "assumptions": ["assumed: std::borrow::Cow modelled by an enum with the same variants; R30: flat_map / filter_map visit outer then inner elements in order (std definition); R25e: values_mut visits every value once", "assumed L0 model of chrono::NaiveDate: a totally ordered day number (vx/prelude/chrono.rs)", "assumed: Account::as_str is the account's interned name; HashSet::{insert, contains, len} (vstd); ReportContext::all_accounts_unsorted yields every known canonical account exactly once (iterator over the intern store)", L0_DECIMAL, L0_HANDLES, L0_STD, L1_AMOUNT],
        "not_decided": ["how the register renders an amount (InlinePrintAmount Display; family only)", "that `process` feeds every entry to the accumulator and hands its fields over (textual anchors, loader closure outside Verus)"],
    },
    "C05": {
        "level": "other",
        "verus": [("prettydec", ["from_str"]), ("columns", None)],
        "kani": {"quick": [], "thorough": []},
        # number fidelity is part of the statement ("each number's value, decimal places and grouping style"): the literal family of C07 runs here too
        "family": [("c05", {"quick": [], "thorough": ["thorough"]}), ("c07", {"quick": ["5"], "thorough": ["6"]})],
        "technique": "bounded: a catalogue of entries in the documented syntax is parsed, formatted and parsed again (entries must be ==) and formatted twice (text must not change), each also without a final newline, "
                     "with CRLF and with extra blank lines; contract-based only for the numeric-literal sub-grammar (Verus on PrettyDecimal::from_str, C07) and the indent literals of Display (C19)",
        "explanation": "BOUNDED (the parser is ~2000 lines of winnow combinator closures over a GAT decoration: neither verifier can take it; stated plainly).  Deductive fragments reused: PrettyDecimal::from_str accepts "
                       "exactly the well-formed literals and keeps value, scale and grouping (C07); the posting / metadata indent literals of Display are four spaces (C19).  Everything else is the c05 family: ~65 "
                       "catalogue entries (five comment prefixes, account / commodity declarations with alias, note, format and multi-line comments, apply tag / end apply tag, include, 10 transaction headers with "
                       "effective date, clear state, code, wide characters, header note and transaction metadata, 22 posting shapes: clear marks, costs @ / @@, lot price {} / {{}}, lot date and note, parenthesised "
                       "expressions, assertions with and without amount, posting notes and metadata, an over-long account, a tab separator) x {alone, no final newline, CRLF, surrounded by blank lines, followed by a "
                       "transaction / directive / comment} + the whole catalogue as one file + accounts of every display width 36..56 in front of six posting tails + 800 (thorough 6,000) random derivations of the grammar in "
                       "doc/syntax.md (arbitrary sp* / sp+, both date separators, lot parts in any order, nested expressions, every metadata form, CRLF, no final newline): 1,838 (7,494) texts, three laws each.  Six "
                       "genuine defects were found and repaired (f1b9942, 0d35137, fee6b1e, 8eb4a5e, 84b63e3, 43fdb1f).",
        "units_doc": ["core/src/syntax/pretty_decimal.rs: FromStr for PrettyDecimal (Verus, C07)", "core/src/syntax/display.rs: indent literals (Verus slices, C19)", "core/src/parse/**, core/src/format.rs, core/src/syntax/display.rs: bounded family only"],
        "assumptions": ["the catalogue and the random generator follow doc/syntax.md (plus a leading minus on amounts, which every sample uses); a construct the generator never produces is not exercised"],
        "bounded": ["c05 family: 1,838 texts (thorough: 7,494) incl. 800 (6,000) random derivations of doc/syntax.md seeded by VERIF_SEED, three laws each"],
        "not_decided": ["acceptance of every text in the documented syntax and parse-format-parse for all inputs (bounded family only)"],
    },
    "C06": {
        "level": "other",
        "verus": [("prettydec", ["from_str"]),
                  ("bookkeep", ["PriceRepositoryBuilder::insert_price", "callsite:insert_impl division", "check_balance", "posting_price_event", "add_transaction", "process_posting"]),
                  ("amounts", None), ("balance", None), ("intern", ["InternStore::insert_canonical_impl", "InternStore::insert_alias_impl"]),
                  # formatting: Display for Posting subtracts two usize widths and adds widths / offsets; the fmt_with_alignment impls add lengths
                  ("postingfmt", ["Display for Posting", "fmt_with_alignment for ValueExpr", "fmt_with_alignment for Expr", "fmt_with_alignment for Amount"])],
        "kani": {"quick": ["parse_error_new_bounded", "compute_line_number_bounded", "clip_complete", "try_find_char_no_panic"], "thorough": ["parsed_context_line_and_slice"]},
        "family": ("c06", {"quick": ["quick"], "thorough": ["thorough"]}),
        "technique": "contract-based deductive verification (Verus safety/termination obligations of the contracted kernels) + Kani with unwinding assertions on the real crate for the loops that live in std",
        "explanation": "PARTIAL.  A deductive verifier proves absence of panics and termination by default; C06 collects those obligations for the kernels that sit on the hazards the property names: "
                       "from_str (i128 overflow, scale overflow, indexing, loop termination: all string lengths), insert_price / insert_impl and check_balance (Decimal division by zero), posting_price_event "
                       "(unreachable! turned into an obligation), add_transaction (indexing postings[u]), the amount/balance kernels (unwrap/expect reachability), the two debug_assert!s of InternStore as obligations; "
                       "Kani (bounded, unwinding assertions on): ParseError::new terminates and stays in range for every failure offset including end of input, compute_line_number's assert precondition, clip has "
                       "no underflow (complete).  NOT decided by proof: totality of the winnow parser on arbitrary text, the loader, the CLI main; they are exercised, bounded, by the c06 family: every prefix of sample ledgers and every "
                       "string of <= 3 (thorough 4) characters over the ledger alphabet through format and report::process with a 3 s watchdog, small ledgers of every posting shape (crashes only), and five include graphs "
                       "(self-inclusion, mutual inclusion, a cycle through a sub-directory, the same file twice, a diamond) each loaded in a child process because a stack overflow cannot be caught (found F11).",
        "units_doc": ["see C01, C02, C03, C07, C12 units", "core/src/parse/error.rs: ParseError::new, compute_line_number (Kani)", "core/src/parse/adaptor.rs: clip (Kani)", "core/src/syntax/pretty_decimal.rs: try_find_char (Kani, bounded)"],
        "assumptions": [L0_DECIMAL, L0_HANDLES, L0_STD, L1_AMOUNT, L1_BOOK, STUBS, "overflow panics of Decimal + - * are outside C06 by its own 'representable range' clause",
                        "Kani: text <= 4 characters over {LF, CR, a, ;, あ (3 bytes)}"],
        "bounded": ["parse_error_new_bounded (text <= 4 characters incl. a 3-byte one)", "compute_line_number_bounded (same)", "try_find_char_no_panic (text <= 3 characters)"],
        "not_decided": ["winnow parser totality on arbitrary text (bounded family only)", "termination of load_impl for all include graphs (bounded family only; cycles are rejected since f36de73)", "cli main error mapping"],
        "unwind_is_violation": ["parse_error_new_bounded"],
    },
    "C13": {
        "level": "other",
        "verus": [("determinism", None), ("amounts", ["TryFrom<&Amount> for SingleAmount"])],
        "kani": {"quick": [], "thorough": []},
        "family": ("c13", {"quick": [], "thorough": []}),
        "technique": "contract-based deductive verification: determinism phrased as 'the result is a function of the map's contents': Verus proves that the statements fixing an output order return the canonical "
                     "(strictly key-sorted, complete, duplicate-free) listing of the hash map, and that the canonical listing is unique; bounded stand-in: the same input run 24 times in one process with fresh hash seeds",
        "explanation": "PARTIAL.  C13 is a 2-safety property (two runs agree); it is decided here in the contract form 'every order that reaches the output is a function of the hash map's CONTENTS'.  Verus' HashMap "
                       "model leaves iteration order unconstrained (that is the per-process seed), so an order-dependent result cannot satisfy such a postcondition.  Proved on text extracted from /repo: the "
                       "function Amount::sorted_values that fixes the printing and iteration order of a multi-commodity amount (balance, register, eval, error texts, first missing rate), Balance::into_vec (account order of the "
                       "balance report), the statements of Ledger::balance that order the accounts before conversion, the statements of compute_price_table that order the neighbours of a commodity (tie-breaking among "
                       "equally distant rates) and the statements of MatchAndExpr::try_from that fix the order of a rewrite rule's field matchers, and ReportContext::all_accounts (the order of `okane accounts`; whole function) each return the canonical listing (every entry once, strictly increasing key); lemma_canonical_unique "
                       "proves that two canonical listings of the same map are equal, so two runs agree.  SingleAmount::try_from(&Amount) never picks 'the first' entry of a multi-commodity amount (C08 obligation reused).  "
                       "Four genuine defects were found and fixed (f727f42, bdc6d41, f33a1e3, 4d6c148).  Bounded: the c13 family runs balance / register / eval / error texts and camt053 / CSV imports 24 times per input in one "
                       "process (fresh RandomState per map) and compares the texts byte for byte.  NOT decided: the rest of the price search (BinaryHeap order given a fixed push sequence is taken to be deterministic), ReportContext::all_accounts, environment / clock / locale.",
        "units_doc": ["core/src/report/eval/amount.rs: Amount::sorted_values (+ textual anchors in InlinePrintAmount::fmt and Amount::iter), TryFrom<&Amount> for SingleAmount", "core/src/report/balance.rs: Balance::into_vec",
                      "core/src/report/query.rs: Ledger::balance (account order before conversion, sliced)", "core/src/report/price_db.rs: compute_price_table (neighbour order, sliced)",
                      "cli/src/import/extract.rs: TryFrom<&FieldMatcher> for MatchAndExpr (order statements, sliced)", "lemmas: det::lemma_canonical_unique, det::lemma_sorted_perm_canonical, theorem_*_listing_deterministic"],
        "assumptions": [L0_HANDLES, "assumed (R24): HashMap::iter().collect() / into_iter().collect() list every entry exactly once in an unspecified order; slice::sort_unstable_by_key returns a permutation sorted by the key",
                        "assumed: Ord for str / derive(Ord) for RewriteField are antisymmetric on the keys, i.e. two distinct interned handles of one context never carry the same name",
                        "the loops that print the listing in index order (write! plumbing) are not under contract"],
        "bounded": ["c13 family: 16 ledgers (incl. multi-commodity expressions that cancel, in amount / assertion / assignment / cost / lot position) x (balance, balance -X up-to-date / historical, register, eval, error text), 4 camt053 rule shapes + 1 CSV rule, 24 runs each in one process"],
        "not_decided": ["that BinaryHeap pops equal-distance entries in an order fixed by the push sequence (std)", "process-level inputs: environment, clock, locale"],
    },
    "C14": {
        "level": "other",
        "verus": [("linenum", None)],
        "family": ("c14", {"quick": [], "thorough": []}),
        "kani": {"quick": ["compute_line_number_bounded", "parse_error_new_bounded", "clip_complete", "resolve_is_clip", "parsed_context_line_and_slice"], "thorough": []},
        "technique": "Kani on the real okane-core crate: harness modules injected next to parse/error.rs and parse/adaptor.rs; loop-free harnesses over the full usize domain are complete proofs, string harnesses are bounded",
        "explanation": "(for texts of EVERY length Verus proves compute_line_number on its extracted body - split_at modelled, the filter/count chain rewritten into a counting loop, R42: the line of byte offset pos is one plus the number of LF bytes before it; the Kani harnesses below run the compiled code, bounded) PARTIAL / BOUNDED.  On the real compiled code: compute_line_number(s, pos) = 1 + number of LF before pos; ParsedContext::compute_line_start is that at the entry's span start and as_str is the "
                       "entry's slice; ParseError::new reports the first line of the failed entry, an error span starting at the failure offset and ending inside the remaining text, for every entry start and failure "
                       "offset (text <= 4 characters over {LF, CR, a, ;, a 3-byte character}) — bounded; clip / ParsedSpan::resolve map a tracked span inside the entry to entry-relative offsets without underflow — complete (loop-free, full usize).  "
                       "NOT decided by those harnesses: which file path reaches the diagnostic, and the rendering.  They are exercised, bounded, by the c14 family: one invalid entry (two syntax errors, unbalanced, false "
                       "assertion, two omitted amounts, zero cost) after five kinds of valid content (nothing, comments and blank lines, other entries, multi-byte text, declarations) x LF / CRLF x with / without a following entry "
                       "x {root file, included file, file included from an included file} = 360 ledgers through the real report::process: the rendered diagnostic must name the containing file (and no other) and every line "
                       "number it shows must lie within the entry.",
        "units_doc": ["core/src/parse/error.rs: compute_line_number, ParseError::new", "core/src/parse/adaptor.rs: clip, ParsedSpan::resolve, ParsedContext::{compute_line_start, as_str}"],
        "assumptions": ["Kani 0.68 / CBMC 6.11 model of std", "text restricted to <= 4 characters over {LF, CR, a, ;, あ (3 bytes)} (both the ParseError and the ParsedContext harness)",
                        "TrackedSpan constructor injected under cfg(kani) (the real one is cfg(test))"],
        "bounded": ["text <= 4 characters (<= 12 bytes) for compute_line_number / ParseError::new / ParsedContext", "c14 family: 360 ledgers with exactly one invalid entry"],
        "not_decided": ["which file path reaches ErrorContext::new (bounded family only)", "rendering by annotate_snippets (bounded family only)", "that spans produced by winnow lie inside their entry (bounded family only)"],
        "unwind_is_violation": ["parse_error_new_bounded"],
    },
    "C07": {
        "level": "proof",
        "verus": [("prettydec", None), ("rescale", None)],
        "kani": {"quick": [], "thorough": []},
        "family": ("c07", {"quick": ["5"], "thorough": ["6"]}),
        "explanation": "Verus discharges, for strings of every length, that PrettyDecimal::from_str (text extracted from /repo on this run) "
                       "returns Ok exactly for well-formed representable literals and then carries exactly the written mantissa, scale and grouping style; "
                       "all index/overflow/termination obligations of the scanner are discharged as well.",
        "units_doc": ["core/src/syntax/pretty_decimal.rs: impl FromStr for PrettyDecimal::from_str (+closure aligned_comma), PrettyDecimal::{scale, rescale}",
                      "core/src/syntax/display.rs: rescale (printing pads to the configured precision, never lowers the scale, keeps value and grouping style: also the numeric clause of C15)"],
        "assumptions": [
            "rust_decimal::Decimal::try_from_i128_with_scale: Ok iff scale<=28 and |m|<=2^96-1, then mantissa/scale as given (assumed from its source)",
            "u8::is_ascii_digit == 48..=57 (assume_specification)",
            "str length + 4 <= usize::MAX (every Rust str has len <= isize::MAX)",
            "try_find_char is opaque (R16): it only builds the error message text",
        ],
        "not_decided": ["how the winnow combinators apply the token predicate (take_while / opt / try_map; the predicate itself and the chain are a slice and an anchor)"],
    },
    "C08": {
        "level": "proof",
        "verus": [("evalvisit", None), ("evaluated", None), ("amounts", None),
                  # the positions in which a single amount is required: cost / lot price (Exchange::try_from_syntax), posting amount (compute_from_syntax), assertion / assignment (process_posting)
                  ("bookkeep", ["Exchange::try_from_syntax", "ComputedPosting::compute_from_syntax(body)", "process_posting"])],
        "family": ("c08", {"quick": ["quick"], "thorough": ["thorough"]}),
        "explanation": "(positions: the units that convert an evaluated expression where a single amount is required - Exchange::try_from_syntax for cost / lot price, compute_from_syntax for the posting amount, process_posting for assertions and assignments - are part of this check) Verus proves, by structural induction over expression trees of every depth, that Evaluable::eval_visit (ValueExpr / Expr / UnaryOpExpr / BinaryOpExpr) returns, whenever it succeeds, "
                       "exactly the value of a functional semantics `sem` (unary minus negates, parentheses group, each binary node applies its operator to both evaluated sides) and therefore fails on every tree "
                       "that has no value.  Verus also proves the typing rules of evaluation on the real functions: number+number and amount+amount (pointwise, per commodity) are the only sums, amount*number / number*amount the only "
                       "products with an amount, division by zero (number or all-zero amount) is DivideByZero, number/amount needs a single-commodity amount, amount/amount and number+amount are UnmatchingOperation; "
                       "conversions to SingleAmount / PostingAmount accept exactly one / at most one commodity and reject non-zero bare numbers.",
        "units_doc": ["core/src/report/eval.rs: trait Evaluable::eval_visit and its four impls",
                      "core/src/report/eval/evaluated.rs: Evaluated::{check_add,check_sub,check_mul,check_div,negate,is_zero,from_expr_amount,from_expr_amount_mut} and its TryFrom/From impls",
                      "core/src/report/eval/{amount,single_amount,posting_amount}.rs: 40 functions"],
        "assumptions": [L0_DECIMAL, L0_HANDLES, L0_STD, L1_AMOUNT, "ReportContext stand-in (ctx_stub.rs): CommodityStore::{ensure,resolve} as assumed interface of InternStore (proved in C12)",
                        "A-EVAL (rule R22): the literal evaluator closure (FnMut over &mut ctx) is treated as a stateless function (F: Fn, &F); the default methods eval_mut / eval that build it are dropped (R16)"],
        "not_decided": ["precedence/associativity as produced by the winnow parser (parse/expr.rs)", "Evaluable::{eval_mut, eval} glue (closures capturing the context)"],
    },
    "C09": {
        "level": "other",
        "verus": [("prices", None), ("convert", ["PriceRepository::convert_single", "PriceRepository::new"]), ("bookkeep", ["PriceRepositoryBuilder::insert_price", "callsite:insert_impl division", "callsite:load_price_db.event_of_a_line"]), ("determinism", ["callsite:compute_price_table.neighbor_order"])],
        "kani": {"quick": [], "thorough": []},
        "family": ("c09", {"quick": [], "thorough": ["thorough"]}),
        "technique": "contract-based deductive verification of the fragments of price selection that a contract can reach (Verus on functions and call-site slices extracted from /repo); the chain search itself "
                     "(label-correcting search over BinaryHeap + nested HashMap) is decided only by a bounded brute-force twin sweep through the real Ledger::eval",
        "explanation": "PARTIAL / BOUNDED.  Verus proves: insert_price records every price in both directions with reciprocal rates (same date, same source) and ignores an event with a zero amount; "
                       "insert_impl (its real body, nested entry API rewritten by rule R28) stores rate = price_with / price_of under the pair, ADDS a price of the same source to what is recorded, lets a price of a "
                       "higher-ranking source (price database over ledger; derive(Ord) variant order pinned by an anchor) REPLACE everything recorded for the pair, and touches no other pair - under the call-order "
                       "precondition that no lower-ranking price arrives after a higher-ranking one (not proved at the call sites; `process` reading the price database after the whole ledger is pinned by an anchor); "
                       "the predicate that compute_price_table hands to partition_point is exactly `price date <= date`, and the price taken is the last of that usable prefix, i.e. the most recent usable one (the vector "
                       "is date-sorted); no usable price = no edge; the age of a step is query date - price date; Distance::extend counts a ledger-derived step as a ledger step and a price-DB step not, counts every "
                       "step, and keeps the stalest step's age; chains are compared by (ledger steps, steps, staleness) in that order (derive(Ord): field order pinned by an anchor; WithDistance's hand-written "
                       "comparisons with a Distance are proved to compare the distance); the relaxation step (entry API rewritten by rule R27) records a strictly better chain, keeps the recorded one against a strictly "
                       "worse one (ties: either, the statement does not decide them), reports truthfully whether it recorded, and touches no other commodity; a queued chain is skipped only when a strictly better one is "
                       "recorded; the rate of a chain is the product of its steps' rates; the search starts at distance zero; convert_single (real body, rule R29) returns an amount already in the target commodity as it is, otherwise value x the entry of the table computed for exactly this "
                       "(target, date) - memoised per (target, date), the memo proved consistent - and fails when the table has no entry (no chain); neighbours are "
                       "visited in a hash-seed-independent order (C13).  NOT decided by proof: that the label-correcting loop as a whole reaches the minimum over all chains (queue discipline and termination: a "
                       "whole-loop invariant over BinaryHeap + HashMap was not attempted), load_price_db.  build_naive IS proved (rule R41: the nested `values_mut().for_each(..)` rewritten into key-snapshot loops): every pair's prices end up sorted by date - "
                       "the sortedness `latest usable price` relies on - with the same source and the same prices, and no pair appears or disappears.  The undecided parts are exercised, bounded: every subset of <= 4 (thorough: 5) of 9 price facts over 4 "
                       "commodities (ledger costs, an implied exchange, price-DB lines, a future price) x 6 dates x all 16 ordered pairs against a brute-force reading of the statement over all simple chains; chains that "
                       "tie on all three criteria with different rates are skipped as undecided by the statement.",
        "units_doc": ["core/src/report/price_db.rs: PriceRepositoryBuilder::{insert_price, insert_impl}, Distance::extend, WithDistance::{eq, partial_cmp} against Distance, compute_price_table (call-site slices: usable-price "
                      "predicate, latest usable price, step age, chain rate, relaxation step, stale-queue-entry test, start distance, neighbour order), PriceRepositoryBuilder::build_naive (whole), PriceRepository::{new, convert_single}"],
        "assumptions": [L0_DECIMAL, L0_HANDLES, "assumed L0 model of chrono::NaiveDate (day number; date - date = that many days) and TimeDelta (seconds, ordered by length), std::cmp::max on TimeDelta",
                        "assumed (std entry API, rules R27/R28): entry(k) is Occupied iff k is present, OccupiedEntry::get is the stored value, both inserts store under k; entry(k).or_default()/.or_insert(v) is a "
                        "mutable reference to the slot under k, created first when absent",
                        "assumed (R13): derive(PartialOrd, Ord) compares fields / variants in declaration order (the declaration orders are pinned by textual anchors)",
                        "NOT proved at call sites: insert_impl's call-order precondition (no lower-ranking source after a higher-ranking one for a pair); holds because process() loads the price database after the ledger (anchor)",
                        "assumed: slice::partition_point returns the length of the prefix satisfying the predicate (std, for a partitioned slice); Vec<(NaiveDate, Decimal)>::sort is a permutation ordered by date (std; R41: values_mut visits every value once)"],
        "bounded": ["c09 family: 255 (thorough: 381) price-fact subsets x 6 dates x 16 ordered commodity pairs = 24,480 (36,576) conversions; rates chosen so that reciprocals and products are exact decimals"],
        "not_decided": ["optimality of the label-correcting search (bounded family only)", "parse::price and the reading of the price database file (bounded family only; the event a line records is a slice)", "ties among equally good chains (left open by the statement)"],
    },
    "C10": {
        "level": "other",
        "verus": [("convert", ["convert_amount", "PriceRepository::convert_single", "PriceRepository::new"]), ("query", ["Ledger::balance", "Balance::round", "Ledger::eval"]), ("determinism", ["callsite:Ledger::balance.conversion_order", "Amount::sorted_values"])],
        "kani": {"quick": [], "thorough": []},
        # the report goes through the price search, so the C09 family is run for C10 as well (seed C10-k: a search change seen only through `balance -X`)
        "family": [("c10", {"quick": [], "thorough": []}), ("c09", {"quick": [], "thorough": ["thorough"]})],
        "technique": "contract-based deductive verification: Verus on price_db::convert_amount extracted from /repo (loop invariant: running sum of the holdings converted so far) over the contract of "
                     "PriceRepository::convert_single, itself extracted and proved in the same file over an uninterpreted rate table (the result of compute_price_table); bounded stand-in for Ledger::balance's conversion branches: twin sweep through the real Ledger::balance",
        "explanation": "PARTIAL.  Verus proves convert_amount, the function both conversion branches of Ledger::balance and `eval -X` go through: if every holding of the amount has a rate, the result holds exactly the "
                       "target commodity with the sum, over Amount::iter's listing (every commodity exactly once: C13), of value x rate, a holding already in the target commodity counted as it is (so the result "
                       "is linear in the amounts); if some holding has no rate the call fails - nothing is dropped, double-counted or left unconverted; the rates are a function of the records and are not changed by "
                       "converting.  convert_single itself (real body, `entry().or_insert_with(..)` rewritten by rule R29) is proved against the table compute_price_table gives for (target, date): identity for the target "
                       "commodity, value x that table's rate in the target commodity otherwise, failure when the table has no entry, and the memo stays consistent with the records whatever was asked before (a cache keyed "
                       "by less than (target, date) fails this).  Ledger::balance, the WHOLE function (group `query`; the flat_map/filter_map loop header rewritten into two nested indexed loops by rule R30, std's Cow modelled): --historical "
                       "books, for every stored posting of a transaction dated in the window, convert_amount(posting amount, T, transaction date) on the posting's account - and fails iff one of them has no rate; "
                       "-X at the report date converts every account of the stored (or re-folded) balance on its own with convert_amount(.., T, now), keeps exactly the same accounts, fails iff some account has an unconvertible holding, and rounds once at the end (Balance::round: proved).  "
                       "Ledger::eval (`eval -X T`, whole function) converts the amount the expression evaluates to as a whole with convert_amount(.., T, the asked date) - every holding once or failure - and rejects an exchange commodity the ledger does not know.  "
                       "NOT decided by proof: EvalOptions::to_conversion (cli glue); bounded stand-in, c10 family: 4 ledgers x 3 scalings x declared/undeclared precision x 7 report dates (historical, before / between / on / after the "
                       "price dates) against a twin written from the statement (direct ledger prices only, so that rate choice - C09 - plays no part).",
        "units_doc": ["core/src/report/price_db.rs: convert_amount, PriceRepository::{new, convert_single}", "core/src/report/query.rs: Ledger::balance (whole function: both conversion branches; account order before conversion also sliced for C13), Ledger::eval (whole function)", "core/src/report/balance.rs: Balance::round", "core/src/report/eval/amount.rs: Amount::sorted_values (listing behind Amount::iter)"],
        "assumptions": [L0_DECIMAL, L0_HANDLES, L0_STD, L1_AMOUNT,
                        "requires: convert_amount, convert_single and Ledger::balance assume the memo is consistent with the records on entry (established by PriceRepository::new, preserved by all three: proved); Ledger construction (ProcessAccumulator -> Ledger) is not under contract",
                        "assumed: std::borrow::Cow modelled by an enum with the same variants (into_owned returns the value / an equal clone); R30: flat_map / filter_map visit outer then inner elements in order (std definition); R25e: values_mut visits every value once",
                        "the report-date conversion of a re-folded balance is stated as: SOME balance whose contents are the rounded register sum was converted account by account (the Amount objects of a local balance cannot be named in a postcondition; conversion is defined over Amount::iter's listing)",
                        "assumed: compute_price_table is a function of (records, target, date) (no hidden state; hash-order independence is C13's neighbour-order obligation); std entry API (R29)",
                        "assumed (R25d): Amount::iter yields every commodity of the amount exactly once (tied to the proved Amount::sorted_values by a textual anchor)"],
        "bounded": ["c10 family: 4 scenarios x scale {1, 2, -3} x T precision {none, 2} x report date {historical, 6 dates} x date range {none; for scale 1 also four [start, end) windows} = 392 queries"],
        "not_decided": ["which rate is the right one (C09)", "cli EvalOptions::to_conversion / to_date_range", "that the sum over Amount::iter's listing is independent of the listing order (commutativity of real addition; not needed for the statement)"],
    },
    "C11": {
        "level": "other",
        "verus": [("loadinc", None)],
        "kani": {"quick": [], "thorough": []},
        "family": ("c11", {"quick": [], "thorough": []}),
        "technique": "bounded: one ledger split into included files in several ways on a real temporary directory (and on the in-memory file system), loaded through the real Loader and compared entry by entry with the "
                     "unsplit ledger; contract-based only for the glob options (Verus on glob_match_options extracted from /repo) and three textual anchors on load_impl",
        "explanation": "(one statement of load_impl is proved as a slice over an assumed model of std::path: the target of an `include` line is the directory of the INCLUDING file joined with the written path, a file without a parent directory or a non-Unicode result is an error) BOUNDED (almost no deductive content: stated plainly).  Loader::load_impl recurses through a FileSystem trait object, glob, PathBuf and an FnMut callback; the real file system has no specification, so "
                       "no contract within reach decides 'splitting changes nothing'.  Proved: glob_match_options requires a literal separator and a literal leading dot (wildcards do not cross directories, dot-files are "
                       "not matched).  Anchored textually (a change is exit 2): matches are sorted before being visited, an empty match returns an error, every non-include entry goes to the callback.  Everything else "
                       "is the c11 family: a seven-entry ledger (commodity and account declarations, a comment, four transactions with an assertion) in 6 layouts - one include in the middle, includes first and last, "
                       "nested includes relative to the including file and back through `..`, `*` and `?` globs with a dot-file, another extension and a deeper directory present - on a real temp dir (ProdFileSystem) "
                       "and, where it has no `..`, on FakeFileSystem (whose glob returns matches in reverse order): delivered entries identical to the unsplit ledger (so: file order, in-place expansion, include line "
                       "never delivered, sorted matches, dot-files skipped), same balance report; three includes that match nothing must fail.  Include cycles are covered under C06.",
        "units_doc": ["core/src/load.rs: glob_match_options (Verus); Loader::load_impl (textual anchors + bounded family)"],
        "assumptions": ["the glob crate implements MatchOptions as documented", "the family runs on the sandbox's file system (tempfile)"],
        "bounded": ["c11 family: 6 layouts x 2 file systems + 2 layouts that deliver a file more than once + 3 empty-match cases = 17 loads"],
        "not_decided": ["Loader::load_impl for all include graphs (bounded family only)", "ProdFileSystem::canonicalize_path / symlinks", "cli flatten command"],
    },
    "C12": {
        "level": "proof",
        "verus": [("intern", None), ("evaluated", ["Evaluated::from_expr_amount_mut", "Evaluated::from_expr_amount"]), ("bookkeep", ["ProcessAccumulator::process", "add_transaction"])],
        "family": ("c12", {"quick": [], "thorough": []}),
        "explanation": "Verus proves the alias table on the real InternStore code (HashMap<&str, Option<InternedStr>>): a representation invariant (aliases point at registered canonicals, no chains) is "
                       "preserved by every operation; resolve/ensure map an alias to the canonical it was declared for and a canonical to itself, never re-point or remove a known name (so a later use of an alias "
                       "means the canonical in every later state); insert_canonical on an alias is AlreadyAlias and insert_alias on a canonical is AlreadyCanonical with the table unchanged; every commodity name "
                       "in an evaluated literal goes through ensure/resolve; add_transaction books every posting on the account its written name resolves to (new postcondition: stored posting account == resolved(written name), for every spelling); ProcessAccumulator::process rejects an `account`/`commodity` declaration whose name is already an alias and registers every accepted "
                       "declaration without changing the meaning of names known before (against the store interface of ctx_stub.rs); every `alias` line of an accepted declaration that introduces a new name makes that name resolve to the declared account / commodity - also when the canonical name was used or declared earlier "
                       "(postconditions process.account_alias_means_the_declared_account / .commodity_alias_means_the_declared_commodity; the frame clauses of the store interface they rest on - no other name changes its status - are proved on InternStore::insert_canonical / insert_alias in group intern); ReportContext::{account, commodity} resolve through the store.  The FromInterned impls of Commodity and Account are verified against the trait contract.",
        "units_doc": ["core/src/report/intern.rs: InternStore::{get,resolve,ensure,insert_canonical,insert_alias,insert_canonical_impl,insert_alias_impl,as_type}, StoredValue::as_canonical, InternedStr::as_str",
                      "core/src/report/commodity.rs, context.rs: impl FromInterned for Commodity / Account", "core/src/report/eval/evaluated.rs: from_expr_amount(_mut)",
                      "core/src/report/book_keeping.rs: ProcessAccumulator::process (declaration wiring)"],
        "assumptions": ["assumed (5 axioms, vx/prelude/intern_stub.rs): a &str key is its content — as_static(q) is the stored key equal in content to q; &'static str obeys the HashMap key model; "
                        "contains_borrowed_key / maps_borrowed_key_to_value / get_key_value for &str keys look up as_static(q)",
                        "assumed: Bump::alloc_str returns a &str with the same content; InternedStr pointer equality is modelled as content equality (sound while each name is allocated once, which the debug_assert obligations establish)",
                        "the account use site ctx.accounts.ensure in add_transaction is verified under C01-C03 against the same interface (ctx_stub.rs)"],
        "not_decided": ["that the report printers go through Account::as_str / Commodity::as_str (Display code; the listing of accounts keeps canonical entries only: slice of all_accounts_unsorted)"],
    },
    "C20": {
        "level": "proof",
        "verus": [("golden", None)],
        "family": ("c20", {"quick": [], "thorough": []}),
        "explanation": "Verus proves the control logic of the golden helper for all contents and paths over an assumed model of std::fs / std::env: is_update_golden is exactly 'UPDATE_GOLDEN set to a non-empty value'; "
                       "read_as_utf8 returns the file with CRLF replaced by LF; Golden::new fails on a missing file unless updating; Golden::assert is verified under two contract variants of the same extracted body — "
                       "(succeeds) when updating or got equals the normalised content the comparison holds, and the only write is of exactly `got` to the golden path under UPDATE_GOLDEN; (fails) when not updating and "
                       "got differs, no write is reachable and the comparison is reached with different operands (assert_str_eq! panics).",
        "units_doc": ["golden/src/lib.rs: read_as_utf8, is_update_golden, Golden::new, Golden::assert (two contract variants)"],
        "assumptions": ["assumed model of std::fs::{read_to_string, write}, std::env::var, std::io::Error (vx/prelude/env_model.rs, rule R21 redirects std:: paths to it): reads/vars are functions of the path/name, fs::write succeeds",
                        "assumed: str::replace is a function of (text, from, to); assert_str_eq! panics iff its operands differ (R15); Result::{or_else,unwrap_or_default} specs added by hand"],
        "not_decided": ["what str::replace(\"\\r\\n\", \"\\n\") computes (std)", "real file-system effects"],
    },
    "C15": {
        "level": "other",
        "verus": [("rescale", None), ("prettydec", ["from_str"]), ("columns", ["get_column", "callsite:amount_padding", "callsite:balance_padding"])],
        "kani": {"quick": [], "thorough": []},
        "family": ("c15", {"quick": [], "thorough": []}),
        "technique": "bounded: statements imported through the real ImportCmd (what `okane import` prints) are parsed back with okane's own parser and compared field by field with what the importer built; "
                     "contract-based only for the numeric clause (Verus on display::rescale: printing only pads, and on PrettyDecimal::from_str, C07)",
        "explanation": "BOUNDED (read-back is parse after display: same obstacle as C05; stated plainly).  Deductive fragments reused: rescale never lowers the scale and keeps the value (numbers are only padded to the "
                       "configured precision), from_str reads a printed literal back exactly (C07).  Everything else is the c15 family: the repository's six sample statements (camt.053, Viseca, four CSV layouts) with the "
                       "repository's config, and 50 generated CSV statements whose payee / note fields carry text that means something in the ledger syntax (`;`, parentheses, `=`, `@`, `*`, `!`, tab, a date, wide "
                       "characters, quotes, `key: value`, `:tag:`, line breaks, a forged posting line, leading / trailing / only spaces, `#`, `%`), with a balance column, a charge and a code-capturing rule: one "
                       "transaction per record, same date, effective date, state, code, payee, accounts, amounts (by value), rates, assertions and comments.  One genuine defect was repaired (6136fd0: line breaks in "
                       "statement text forged lines of the printed transaction); four are recorded as known findings because the Ledger syntax has no escape for them (known_findings.json).",
        "units_doc": ["core/src/syntax/display.rs: rescale (Verus, C07 numeric clause)", "cli/src/cmd.rs ImportCmd::run, cli/src/import/**, core/src/parse/**: bounded family only"],
        "assumptions": [L0_DECIMAL],
        "bounded": ["c15 family: 6 repository samples + 50 generated CSV statements of 2 records"],
        "not_decided": ["read-back for all statements (bounded family only)"],
    },
    "C16": {
        "level": "proof",
        "verus": [("csvsign", None), ("csvrow", None)],
        "kani": {"quick": [], "thorough": []},
        # "oldest first under either row_order" depends on which `format` block is in force: the layering family of C17 runs here too (seed C16-l)
        "family": [("c16", {"quick": [], "thorough": []}), ("c17", {"quick": [], "thorough": ["thorough"]})],
        "explanation": "(row statements, group `csvrow`: sliced out of csv::import and checked against the real Txn setters - the transaction of a row moves the configured account by the row's signed amount in the row's commodity on the row's date; a running-balance column becomes exactly that balance assertion in the row's commodity and no column means no assertion; a record the rules did not clear is marked pending; a charge column adds a charge posting and leaves the account posting alone; the conversion block: the matching rule's conversion applies, else the account's default one only when the row has rate, secondary amount and secondary commodity, and a conversion flagged `disabled` means none - no fall-back; the counter amount is in the commodity the conversion names, the secondary-commodity column only when it names none; the stated rate is attached to the commodity it prices - price_of_secondary: pair target = secondary commodity and counter amount = amount / rate, price_of_primary: target = primary and amount * rate; Txn::add_rate records `1 target = rate source` under the TARGET commodity and a posting's printed cost is the rate recorded for its own commodity (slice + two anchors)) PARTIAL.  Verus proves the sign clauses on the real functions: FieldMap::amount books a non-empty credit column as +credit, otherwise a non-empty debit column as -debit, neither as an error, and an "
                       "`amount` column as +amount for an asset and -amount for a liability account; amount_with_sign gives the secondary amount the requested sign and keeps its magnitude and commodity; Neg for "
                       "OwnedAmount/BorrowedAmount negates the value only; the two expressions of Txn::dest_amount (sliced): without a conversion the counter-posting carries the opposite amount, with one the secondary "
                       "amount with the sign opposite to the row's amount; the statement that orders the rows at the end of csv::import (sliced) keeps an oldest-first statement and reverses a newest-first one.  "
                       "NOT decided by proof: Txn::to_double_entry's posting order / balance assertion / Unknown accounts (a Kani harness for it did not finish in 50 minutes and is no longer registered), column "
                       "mapping and templates, the conversion block of csv::import, acceptance by book-keeping: these are exercised, bounded, by the c16 family (16 statement layouts x account types x row orders with and "
                       "without a running balance; conversion cases: default, rule-disabled, account-disabled, compute / price_of_primary) through the real import, to_double_entry and okane's own report::process.",
        "units_doc": ["cli/src/import/csv.rs: FieldMap::amount, row-order statement of import (slice)", "cli/src/import/single_entry.rs: amount_with_sign, Txn::dest_amount (two slices)", "cli/src/import/amount.rs: Neg impls, AmountRef::into_borrowed"],
        "assumptions": ["slice rate_direction REQUIRES rate != 0: csv::import does not check it - a `rate` cell of 0 with conversion.rate = price_of_secondary divides by zero (seen by reading; `import` is not among the commands C06 lists, so this is noted, not claimed)", L0_DECIMAL, "assumed (L1): FieldMap::resolve returns the configured column/template text; str_to_comma_decimal returns None for an empty string, else the number written or an error (it is PrettyDecimal::from_str, C07)",
                        "stand-ins for csv::StringRecord, Template, ImportError (vx/prelude/csv_stub.rs) and for the amount member of Txn (TxnAmounts)"],
        "bounded": ["c16 family: 16 base configurations (account type x amount / credit-debit columns x row order x running balance) + layout variants (columns by 1-based index, `;` and tab delimiters, three skipped head lines one of them blank) + 2 conversion configurations: 66 statements of 4-5 rows"],
        "not_decided": ["Txn::to_double_entry (bounded family only)", "csv::import as a whole (csv crate reader, record loop, conversion block, templates: bounded family only; the per-row statements are proved on slices)", "that okane's book-keeping accepts the result (bounded family only)"],
    },
    "C17": {
        "level": "other",
        "verus": [("config", None), ("extractor", None), ("csvrow", ["callsite:to_double_entry.counter_posting_state", "callsite:to_double_entry.unmatched_income", "callsite:to_double_entry.unmatched_expense",
                                                                       "callsite:csv::import.pending_unless_cleared"])],
        "kani": {"quick": [], "thorough": ["extractor_2rules_or1_and2", "extractor_2rules_or2_and1", "extractor_matches_statement_2rules"]},
        "family": ("c17", {"quick": [], "thorough": ["thorough"]}),
        "technique": "contract-based deductive verification: Verus on ConfigFragment::merge and on the whole rule engine (Extractor::extract, ExtractRule::extract, MatchOrExpr::extract, MatchAndExpr::extract, Fragment += and Fragment + Matched) extracted from /repo, "
                     "generic over a matcher known only by its contract, for rule lists / OR-lists / AND-lists of EVERY length; thorough tier also Kani on the real generic code with a symbolic matcher (bounded)",
        "explanation": "PARTIAL.  Verus proves ConfigFragment::merge: the later document overrides each scalar setting that it sets and the rewrite rules are concatenated in order.  Verus proves the rule engine against the statement written as "
                       "recursive spec functions (group `extractor`; the iterator adapters try_fold / find_map / Option::map(|mut ..|) rewritten into their std definitions by rules R32-R34, the GAT polyfill <M as Entity>::T replaced by an opaque Copy type, R31): "
                       "rules apply in list order each seeing the fragment as rewritten by the earlier ones; an OR-list matches if any element does (the first matching one); an element matches only if all its fields do, later captures overriding earlier ones; "
                       "a matching rule's captures set payee and code, the rule's own payee overrides a captured one, its account replaces any earlier account (a rule without account keeps it), and the record is cleared (not pending) iff some matching "
                       "account-assigning rule is not flagged pending - for any number of rules, elements and fields.  The last sentence of the statement is proved on slices of Txn::to_double_entry and of the importers (group `csvrow`): a record that no account-assigning rule matched goes to Income:Unknown when money comes in and to Expenses:Unknown when it goes out; the counter-posting takes the state the importer set - Pending unless the rules cleared the record - and without one is pending exactly when no rule assigned an account.  In the thorough tier Kani additionally runs the real "
                       "Extractor::extract / ExtractRule::extract / MatchOrExpr::extract / MatchAndExpr::extract / Fragment += / Fragment + Matched with a matcher whose answers are symbolic per payee seen, and compares all five "
                       "Fragment fields with the statement written as plain loops (rules in order each seeing the rewritten payee; OR = first matching element; AND = all fields; captures then rule payee override; account "
                       "replaces; cleared iff some matching account rule is not pending) for <= 2 rules x <= 2 OR x <= 2 AND.  ConfigSet::select_impl is proved too (group `config`; nested fn has_matches extracted as its own unit, filter_map / sort_by_key / fold / map rewritten into loops and a stable-sort model, std path and string functions modelled): "
                       "the configuration in force is the merge - later overrides scalars, rule lists concatenated - of exactly the documents whose `path` occurs in the file's path, shortest `path` first, documents with paths of equal length in document order; none applies = no configuration.  NOT decided by proof: regexes, YAML, ConfigEntry::try_from: "
                       "these are exercised, bounded, by the c17 replay family (layered documents through load_from_yaml + select; rule lists of <= 3 rules through the real CSV import) against a twin of the statement.",
        "units_doc": ["cli/src/import/config.rs: ConfigFragment::merge, ConfigSet::select_impl (+ its nested fn has_matches)", "cli/src/import/extract.rs: Extractor::extract, ExtractRule::extract, MatchOrExpr::extract, MatchAndExpr::extract, AddAssign for Fragment, Add<Matched> for Fragment (Verus, all lengths; Kani, thorough, bounded)"],
        "assumptions": ["stand-ins for Encoding, AccountCommodityConfig, FormatSpec, RewriteRule (merge never looks inside)", "Option::or spec added by hand",
                        "R31: the matcher is any implementation of `captures` that is a function of (matcher, fragment so far, record) - regexes are stateless; the trait's GAT polyfill and its TryFrom constructor bound are dropped; lifetimes mapped to 'static",
                        "R32-R34: Iterator::try_fold over Option, Iterator::find_map and Option::map replaced by their std definitions (early-exit loops / match); derive(Clone, Default) on Fragment restated",
                        "select_impl: assumed models of Path::to_str, PathBuf::to_str, path_slash::from_slash (`native_form`), str::contains (`occurs_in`), String::len (`byte_len`), slice::sort_by_key (stable: elements ordered by (key, old position), a permutation), "
                        "TryFrom<ConfigFragment> for ConfigEntry as an uninterpreted function; R35 / R36: filter_map().collect() and into_iter().fold() replaced by their std definitions (loops)"],
        "bounded": ["thorough (Kani): 2 rules x 1 OR-element x <= 2 AND-fields; thorough: 2 rules x <= 2 OR x 1 field, and <= 2 rules x <= 2 OR x <= 2 AND (about 26 min); names from {None, p1, p2}",
                    "c17 family: base document + every ordered selection of <= 3 of 7 documents x 5 file paths; every list of <= 2 (quick: a third of the 3-rule lists; thorough: all) of 8 rules x 6 CSV rows"],
        "not_decided": ["regex matchers and capture groups, construction of the matchers from the config (bounded family only)"],
    },
    "C18": {
        "level": "other",
        "verus": [("camt", None), ("csvsign", ["Neg for OwnedAmount"])],
        "kani": {"quick": [], "thorough": []},
        "family": ("c18", {"quick": [], "thorough": []}),
        "technique": "contract-based deductive verification of the importer's sign and date helpers (Verus on functions extracted from /repo); the importer's control structure (serde-derived XML model, iterator chains) is "
                     "decided only by a bounded sweep of generated consistent statements through the real importer and okane's own book-keeping",
        "explanation": "PARTIAL / BOUNDED.  Verus also proves, on statements SLICED out of iso_camt053::import (the function as a whole - serde model, an Either of two iterators, the extractor - is outside Verus; the slices are wrapped into functions of their free variables, R17) and checked against the real Txn setters (Txn::new, effective_date, dest_account(_option), code_option, clear_state, balance: extracted, incl. that the handed-back reference is self): an entry without details becomes a transaction signed by the ENTRY's indicator, every detail of a batched entry one signed by the DETAIL's own indicator, both dated by the value date (booking date when there is none) with the booking date as effective date when different; the opening transaction moves nothing, asserts the opening balance and is dated like the first entry; a record the rules did not clear is marked pending; find_balance (whole function, filter/map/next rewritten into a loop, R40) returns the FIRST balance record with the code, signed by its own indicator, each look-up on its own.  add_charges (whole function; `for .. continue` rewritten into an index loop advanced before the body, R6d) never touches the account amount, the date or the balance assertion of a transaction; a charge included in the entry amount only adds a charge posting (Txn::add_charge), one that is not included makes the transferred amount `amount + charge` in the same commodity and is rejected - transaction unchanged - for another commodity or a second transfer (Txn::try_add_charge_not_included).  A detail settled in another currency (slice `detail_transfer`): the counter amount is the detail's transaction amount signed by the detail's own indicator, set only when it differs from the booked amount, and the account posting is never touched.  Four textual anchors pin where those statements sit: opening transaction before the entry loop, rows in the configured order, details replacing their entry, closing balance attached after the loop to the last transaction.  Verus proves xmlnode::Amount::to_data (credit = +amount, debit = -amount, the statement's currency: the function every entry, detail, balance and charge amount goes "
                       "through), Entry::guess_value_date (value date, else booking date) and Txn::effective_date (the booking date becomes the effective date only when it differs from the transaction date).  NOT decided by proof: iso_camt053::import itself (opening-balance transaction first, one transaction per entry or per detail, "
                       "effective date = booking date when different, closing balance asserted on the last transaction, row order) - serde-derived types and iterator chains are outside Verus, and the Kani route was "
                       "measured as intractable (DESIGN 10.3).  Those clauses are exercised, bounded, by the c18 family: 5 generated consistent statements (positive / zero / negative opening balance, entries "
                       "with and without value date, batched details summing to the entry) x both row orders through the real import + to_double_entry, then - after a funding transaction giving the account its opening "
                       "balance - through okane's own report::process, which must accept the ledger and end the account at the closing balance.",
        "units_doc": ["cli/src/import/iso_camt053.rs: xmlnode::Amount::to_data, xmlnode::Entry::guess_value_date, find_balance (whole), import (five statement slices + four anchors)", "cli/src/import/single_entry.rs: Txn::{new, effective_date, dest_account, dest_account_option, code_option, clear_state, balance, transferred_amount, add_charge, try_add_charge_not_included}", "cli/src/import/iso_camt053.rs: add_charges (whole)", "cli/src/import/amount.rs: Neg for OwnedAmount (charges)"],
        "assumptions": [L0_DECIMAL, "assumed L0 model of chrono::NaiveDate", "stand-ins for xmlnode::Entry (the two date members) and DateHolder::as_naive_date (vx/prelude/camt_stub.rs)"],
        "bounded": ["c18 family: 5 statements x 2 row orders = 10 imports (<= 3 entries, <= 3 details per entry, one currency, no charges, no currency exchange)"],
        "not_decided": ["iso_camt053::import control structure (bounded family only)", "charges (add_charges) and currency exchange details", "the XML decoder (quick_xml / serde)"],
    },
    "C19": {
        "level": "proof",
        "verus": [("columns", None), ("alignment", None), ("postingfmt", ["Display for Posting", "print_clear_state", "callsite:FormatOptions::format.entry_separator"])],
        "kani": {"quick": ["get_column_complete"], "thorough": []},
        "family": ("c19", {"quick": ["quick"], "thorough": ["thorough"]}),
        "explanation": "Verus proves the column arithmetic of formatted postings on get_column, Alignment::{absolute,plus} and on the two get_column call expressions sliced out of Display for Posting: "
                       "padding is always >= 2, a short account makes the amount's numeric part end at column 52 and a balance-only posting's `=` land where it would after an amount; the indent literals "
                       "of posting and metadata lines are exactly four spaces.  Group `alignment` (structural induction over every expression tree): the three fmt_with_alignment impls (ValueExpr, Expr, Amount) append exactly "
                       "the expression's text to the sink - `(`..`)`, the operator between single spaces, the number, one space, the commodity - and return, as Complete(k), the byte offset k of the END OF THE NUMERIC PART "
                       "of the first amount that carries a commodity, or Partial(length of the whole text) when no amount carries one; that offset lies inside the printed text (lemma); the Display impls of UnaryOp / BinaryOp "
                       "print exactly one ASCII character (the alignment arithmetic counts 1 and 3 for them); WithContext::pass_context keeps the context; the blanket `impl Display for WithContext<T> where Self: DisplayWithAlignment` prints exactly the text fmt_with_alignment appends.  Group `postingfmt`: the WHOLE `Display for WithContext<Posting>` (write! pieces by rule R50, the GAT-decorated syntax types replaced by stand-ins with exactly the fields read): the sink receives, in this order, four spaces, the clear mark, the account; for an amount: `{:>w$}` of the empty string with w = get_column(48, account columns + offset of the number's end, 2), the amount expression, the lot part, ` @ ` / ` @@ ` and the cost; for an assertion: ` =` right-aligned in get_column(50 + trailing, account columns, 3) (0 after an amount), one space, the assertion expression; a line end; and per metadata one line `    ; ..`.  Theorems over that proven line (proof functions): the padding before an amount is >= 2 spaces; for a short account 4 + account columns + padding + offset of the number's end = 52; an assertion-only posting's ` =` is padded to >= 3 and its `=` falls in column 52 + trailing + 2; after an amount the assertion follows directly; every posting block ends with a line end.  FormatOptions::format (core/src/format.rs) writes exactly one more line end after every entry's own text (statement slice `format.one_line_end_after_every_entry`): entries are separated by exactly one blank line.",
        "units_doc": ["core/src/syntax/display.rs: get_column, Alignment::{absolute,plus}, call-site slices get_column(48, ..) / get_column(50 + trailing, ..), format-string literal slices",
                      "core/src/syntax/display.rs: DisplayWithAlignment for WithContext<ValueExpr> / <Expr> / <Amount> (whole functions), WithContext::pass_context", "core/src/syntax/expr.rs: Display for UnaryOp, Display for BinaryOp", "core/src/syntax/display.rs: Display for WithContext<Posting> (whole function), print_clear_state; theorems theorem_amount_number_ends_at_column_52, theorem_amount_padding_is_spaces, theorem_assertion_only_aligned, theorem_assertion_after_amount"],
        "assumptions": ["ASSUMED model of core::fmt (vx/prelude/fmt_model.rs): write!(f, ..) sends the pieces of its format string to the sink in order and stops at the first error (rule R50); `{}` appends the argument's Display text; x.to_string() is that text; "
                        "str::len counts UTF-8 bytes (utf8_len is the definition of the encoding)", "ASSUMED: display::rescale is a function of (amount, context) (its contract is proved in group `rescale`); the text Display for PrettyDecimal prints is uninterpreted here (family c07)",
                        "the printed text of one expression has at most usize::MAX bytes (requires of fmt_with_alignment)", "{:>width$} (put_padded_right: pads with spaces to `width` characters, never truncates) and unicode-width (uninterpreted width_cjk_spec / width_spec) are ASSUMED models", "requires of Display for Posting (posting_fits): account columns and expression texts below 2^30", "ASSUMED axioms (vx/prelude/alignment_width.rs): unicode-width is additive over concatenation and gives one column per printable ASCII character; Display for PrettyDecimal prints printable ASCII only (family c07).  From these it is PROVED (structural induction, lemma_expr_shape / lemma_abs_le_width) that everything printed before the end of the first commodity-bearing number is printable ASCII, so that the reported offset (bytes) equals display columns and never exceeds the display width of the text: the subtraction width_cjk(balance_str) - alignment cannot underflow", "stand-ins for Posting / PostingAmount / Lot / Exchange / Metadata / the Decorated wrapper (vx/prelude/posting_fmt_stub.rs): exactly the fields the function reads; the text of the lot part and of a metadata item is uninterpreted", "that bytes = display columns for the printed number prefix (ASCII) when reading the theorems as statements about columns"],
        "not_decided": ["that the number PrettyDecimal prints is ASCII (so that bytes = display columns; family c07 / c19)", "unicode width itself; Display for Lot / Metadata / Transaction header (family c19); that entries other than transactions end their text with a line end (family c19 / c05)"],
    },
}


def trusted_base(pid):
    base = ["Verus 0.2026.09.13 + Z3 (vstd specs of std)", "vx/extract.py rule catalogue (vx/rules.md): emitted text = repo text modulo logged rule instances"]
    P = PROPS[pid]
    if P.get("kani", {}).get("quick") or P.get("kani", {}).get("thorough"):
        base.append("Kani 0.68 / CBMC 6.11")
    return base
