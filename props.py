"""Per-property configuration of the check driver."""

L0_DECIMAL = "assumed L0 model of rust_decimal::Decimal (vx/prelude/rust_decimal_*.rs): machine decimal arithmetic treated as mathematical"

PROPS = {
    "C07": {
        "level": "proof",
        "verus": ["prettydec"],
        "kani": {"quick": [], "thorough": []},
        "family": ("c07", {"quick": ["4"], "thorough": ["6"]}),
        "explanation": "Verus discharges, for strings of every length, that PrettyDecimal::from_str (text extracted from /repo on this run) "
                       "returns Ok exactly for well-formed representable literals and then carries exactly the written mantissa, scale and grouping style; "
                       "all index/overflow/termination obligations of the scanner are discharged as well.",
        "units_doc": ["core/src/syntax/pretty_decimal.rs: impl FromStr for PrettyDecimal::from_str (+closure aligned_comma)"],
        "assumptions": [
            "rust_decimal::Decimal::try_from_i128_with_scale: Ok iff scale<=28 and |m|<=2^96-1, then mantissa/scale as given (assumed from its source)",
            "u8::is_ascii_digit == 48..=57 (assume_specification)",
            "str length + 4 <= usize::MAX (every Rust str has len <= isize::MAX)",
            "try_find_char is opaque (R16): it only builds the error message text",
        ],
        "not_decided": ["token extent of numbers inside the winnow parser (primitive::pretty_decimal)"],
    },
}


def trusted_base(pid):
    base = ["Verus 0.2026.09.13 + Z3 (vstd specs of std)", "vx/extract.py rule catalogue (vx/rules.md): emitted text = repo text modulo logged rule instances"]
    P = PROPS[pid]
    if P.get("kani", {}).get("quick") or P.get("kani", {}).get("thorough"):
        base.append("Kani 0.68 / CBMC 6.11")
    if any(g for g in P.get("verus", [])):
        base.append(L0_DECIMAL)
    return base
