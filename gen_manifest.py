#!/usr/bin/env python3
"""Regenerates MANIFEST.json from props.py (single source of truth for claimed properties)."""
import json, sys
sys.path.insert(0, '/verif')
import props

NA = {
}

def main():
    m = json.load(open('/verif/MANIFEST.json'))
    checks = []
    for pid, P in sorted(props.PROPS.items()):
        engines = []
        if P.get("verus"): engines.append("verus-extract")
        if P.get("kani", {}).get("quick") or P.get("kani", {}).get("thorough"): engines.append("kani-inject")
        checks.append({
            "property_id": pid,
            "quick_cmd": f"./check {pid} --tier quick",
            "thorough_cmd": f"./check {pid} --tier thorough",
            "evidence_file": f"/verif/evidence/{pid}.json",
            "replay_cmd_template": f"./check {pid} --replay {{path}}",
            "engine": "+".join(engines),
            "level_claimed": {"category": P["level"], "text": P["explanation"], "design_ref": "DESIGN.md §4 " + pid},
            "level_note": "; ".join(props.trusted_base(pid) + P.get("assumptions", [])),
            "technique": P.get("technique", "contract-based deductive verification: Verus on functions extracted mechanically from /repo (requires/ensures/invariants spliced by item path and loop ordinal)"),
        })
    m["checks"] = checks
    m["not_applicable"] = [{"property_id": k, "reason": v} for k, v in sorted(NA.items()) if k not in props.PROPS]
    allp = [f"C{n:02d}" for n in range(1, 21)]
    for p in allp:
        if p not in props.PROPS and p not in NA:
            m["not_applicable"].append({"property_id": p, "reason": "check not built yet (see DESIGN.md)"})
    for e in m["engines"]:
        if e["name"] == "verus-extract":
            e["serves_properties"] = [p for p, P in sorted(props.PROPS.items()) if P.get("verus")]
        if e["name"] == "kani-inject":
            e["serves_properties"] = [p for p, P in sorted(props.PROPS.items()) if P.get("kani", {}).get("quick") or P.get("kani", {}).get("thorough")]
        if e["name"] == "replay":
            e["serves_properties"] = [p for p, P in sorted(props.PROPS.items()) if P.get("family")]
    json.dump(m, open('/verif/MANIFEST.json', 'w'), indent=1)
    try:
        import jsonschema
        jsonschema.validate(m, json.load(open('/root/.vp/MANIFEST.schema.json')))
    except ImportError:
        pass
    print("MANIFEST ok:", [c["property_id"] for c in checks], "n/a:", [x["property_id"] for x in m["not_applicable"]])

main()
