#!/usr/bin/env python3
"""Regenerates MANIFEST.json from props.py (single source of truth for claimed properties)."""
import json, sys
sys.path.insert(0, '/verif')
import props

NA = {
 "C18": "iso_camt053::import is serde-derived XML types + regex field matchers + iterator chains: outside Verus' reach, and the planned Kani harness (XML decoder stubbed by a harness-built document) is not tractable here: the much smaller Txn::to_double_entry harness already needs tens of minutes of CBMC time; not attempted within the time budget (DESIGN.md 10.3)",
 "C05": "parser acceptance and parse∘format laws live in ~2000 lines of winnow combinator closures over a GAT decoration; no contract within reach of Verus (cannot ingest) or Kani (>=20 input bytes for one transaction) can express or decide them; the literal sub-grammar is decided under C07",
 "C09": "price selection is a label-correcting search over BinaryHeap + nested HashMap entry API + partition_point closures; no vstd spec, Kani cannot run HashMap/Decimal arithmetic, and the proof is a protocol-level inductive invariant; only the division-by-zero obligation of insert_price is kept (C06/C01)",
 "C10": "convert_amount / Ledger::balance are folds over impl-Iterator wrappers and adapter chains with an or_insert_with(closure) cache; no contract within reach expresses 'every entry converted exactly once'",
 "C11": "load_impl recurses through a FileSystem trait, glob, PathBuf and an FnMut callback; the real file system has no specification and the fake one is a HashMap<PathBuf,_> Kani cannot execute",
 "C15": "read-back of importer output is parse∘display = id (same obstacle as C05); its numeric clause is decided under C07",
}

def main():
    m = json.load(open('/verif/MANIFEST.json'))
    checks = []
    for pid, P in sorted(props.PROPS.items()):
        engines = []
        if P.get("verus"): engines.append("verus-extract")
        if P.get("kani", {}).get("quick") or P.get("kani", {}).get("thorough"): engines.append("kani-inject")
        checks.append({
            "property_id": pid,
            "quick_cmd": f"./check {pid} --tier quick",
            "thorough_cmd": f"./check {pid} --tier thorough",
            "evidence_file": f"/verif/evidence/{pid}.json",
            "replay_cmd_template": f"./check {pid} --replay {{path}}",
            "engine": "+".join(engines),
            "level_claimed": {"category": P["level"], "text": P["explanation"], "design_ref": "DESIGN.md §4 " + pid},
            "level_note": "; ".join(props.trusted_base(pid) + P.get("assumptions", [])),
            "technique": P.get("technique", "contract-based deductive verification: Verus on functions extracted mechanically from /repo (requires/ensures/invariants spliced by item path and loop ordinal)"),
        })
    m["checks"] = checks
    m["not_applicable"] = [{"property_id": k, "reason": v} for k, v in sorted(NA.items()) if k not in props.PROPS]
    allp = [f"C{n:02d}" for n in range(1, 21)]
    for p in allp:
        if p not in props.PROPS and p not in NA:
            m["not_applicable"].append({"property_id": p, "reason": "check not built yet (see DESIGN.md)"})
    for e in m["engines"]:
        if e["name"] == "verus-extract":
            e["serves_properties"] = [p for p, P in sorted(props.PROPS.items()) if P.get("verus")]
        if e["name"] == "kani-inject":
            e["serves_properties"] = [p for p, P in sorted(props.PROPS.items()) if P.get("kani", {}).get("quick") or P.get("kani", {}).get("thorough")]
        if e["name"] == "replay":
            e["serves_properties"] = [p for p, P in sorted(props.PROPS.items()) if P.get("family")]
    json.dump(m, open('/verif/MANIFEST.json', 'w'), indent=1)
    try:
        import jsonschema
        jsonschema.validate(m, json.load(open('/root/.vp/MANIFEST.schema.json')))
    except ImportError:
        pass
    print("MANIFEST ok:", [c["property_id"] for c in checks], "n/a:", [x["property_id"] for x in m["not_applicable"]])

main()
