#!/usr/bin/env python3
"""tools_seed.py <dir under /verif/seeded> [tier]  — applies seeded/<dir>/patch.diff to /repo, runs the property's check, reverts.
Used only while developing the checks (never by a registered command)."""
import json, os, subprocess, sys
d = sys.argv[1]
tier = sys.argv[2] if len(sys.argv) > 2 else "quick"
base = f"/verif/seeded/{d}"
meta = json.load(open(f"{base}/meta.json"))
props = meta["breaks"] if isinstance(meta["breaks"], list) else [meta["breaks"]]
extra = sys.argv[3:]  # more property ids to run
assert subprocess.run(["git", "-C", "/repo", "status", "--porcelain"], capture_output=True, text=True).stdout.strip() == "", "/repo not clean"
r = subprocess.run(["git", "-C", "/repo", "apply", f"{base}/patch.diff"], capture_output=True, text=True)
if r.returncode != 0:
    print("PATCH DID NOT APPLY", r.stderr); sys.exit(3)
import shutil, tempfile
EVID_BACKUP = tempfile.mkdtemp(prefix='evid-', dir='/var/tmp')
shutil.copytree('/verif/evidence', EVID_BACKUP + '/evidence')   # the committed evidence must describe the UNCHANGED tree: put it back afterwards
try:
    for p in props + extra:
        c = subprocess.run(["./check", p, "--tier", tier], cwd="/verif", capture_output=True, text=True)
        lines = [l for l in c.stdout.splitlines() if l.startswith(("VIOLATION", "OK", "INCONCLUSIVE", "KNOWN", "failed obligation", "failing input"))]
        print(f"== {d} vs {p} [{tier}] rc={c.returncode}")
        for l in lines[:8]:
            print("   ", l[:400])
finally:
    subprocess.run(["git", "-C", "/repo", "checkout", "--", "."], check=True)
    shutil.rmtree('/verif/evidence'); shutil.copytree(EVID_BACKUP + '/evidence', '/verif/evidence'); shutil.rmtree(EVID_BACKUP)
    print("reverted:", subprocess.run(["git", "-C", "/repo", "status", "--porcelain"], capture_output=True, text=True).stdout.strip() == "")
