//! Witness family for C20: the real okane_golden::Golden in a temp dir, UPDATE_GOLDEN unset / "" / "1",
//! file present (LF or CRLF) / absent, `got` equal / different / differing only by line ending or trailing newline.
use std::panic::{catch_unwind, AssertUnwindSafe};

pub fn run(_args: &[String]) -> i32 {
    let mut bad: Vec<(String, String)> = Vec::new();
    let mut evaluated = 0u64;
    let dir = tempfile::tempdir().expect("tempdir");
    let envs: [Option<&str>; 3] = [None, Some(""), Some("1")];
    // lone CRs (not followed by LF) are content: only CRLF is normalised
    let files: [Option<&str>; 7] = [None, Some("a\nb\n"), Some("a\r\nb\r\n"), Some(""), Some("a\rb\r\nc\n"), Some("\r\r\n"), Some("a\rb\n")];
    let gots = ["a\nb\n", "a\nb", "a\r\nb\r\n", "", "あ\n", "a\rb\nc\n", "ab\nc\n", "\r\n", "\n", "a\rb\n", "ab\n"];
    for env in envs {
        for file in files {
            for got in gots {
                evaluated += 1;
                let path = dir.path().join(format!("g{}.txt", evaluated));
                if let Some(c) = file {
                    std::fs::write(&path, c).unwrap();
                }
                match env {
                    None => std::env::remove_var("UPDATE_GOLDEN"),
                    Some(v) => std::env::set_var("UPDATE_GOLDEN", v),
                }
                let update = matches!(env, Some(v) if !v.is_empty());
                let desc = format!("UPDATE_GOLDEN={:?} file={:?} got={:?}", env, file, got);
                let g = okane_golden::Golden::new(path.clone());
                let normalised = file.map(|c| c.replace("\r\n", "\n"));
                match (&g, file, update) {
                    (Ok(_), None, false) => bad.push((desc.clone(), "missing golden file was not an error".into())),
                    (Err(_), Some(_), _) => bad.push((desc.clone(), "existing golden file could not be opened".into())),
                    (Err(_), None, true) => bad.push((desc.clone(), "missing golden file is an error although UPDATE_GOLDEN is set".into())),
                    _ => {}
                }
                if let Ok(g) = g {
                    let r = catch_unwind(AssertUnwindSafe(|| g.assert(got)));
                    let should_pass = update || normalised.as_deref() == Some(got);
                    if r.is_ok() != should_pass {
                        bad.push((desc.clone(), format!("assert {} but must {}", if r.is_ok() { "succeeded" } else { "panicked" }, if should_pass { "succeed" } else { "fail" })));
                    }
                }
                let after = std::fs::read_to_string(&path).ok();
                if update {
                    if after.as_deref() != Some(got) {
                        bad.push((desc.clone(), format!("UPDATE_GOLDEN set but the file contains {:?} afterwards", after)));
                    }
                } else if after.as_deref() != file {
                    bad.push((desc.clone(), format!("file changed from {:?} to {:?} without UPDATE_GOLDEN", file, after)));
                }
            }
        }
    }
    std::env::remove_var("UPDATE_GOLDEN");
    for (s, why) in bad.iter().take(10) {
        println!("{}", serde_json::json!({"input": s, "contradiction": why}));
    }
    println!("{}", serde_json::json!({"family": "c20", "evaluated": evaluated, "contradictions": bad.len()}));
    if bad.is_empty() { 0 } else { 1 }
}
