//! okane-verif-replay: runs witness families / replay files against the real code.
//! usage: okane-verif-replay <family> [args...]   -> prints one JSON object per line; last line is a summary.
mod c04;
mod c05;
mod c06;
mod c07;
mod c08;
mod c09;
mod c10;
mod c11;
mod c12;
mod c13;
mod c14;
mod c15;
mod c16;
mod c17;
mod c18;
mod c19;
mod c20;
mod ledger;

fn main() {
    let args: Vec<String> = std::env::args().collect();
    if args.len() < 2 {
        eprintln!("usage: {} <family> [args]", args[0]);
        std::process::exit(2);
    }
    // panics inside the code under test are observations, not crashes of the replayer
    std::panic::set_hook(Box::new(|_| {}));
    let rc = match args[1].as_str() {
        "c04" => c04::run(&args[2..]),
        "c05" => c05::run(&args[2..]),
        "c06" => c06::run(&args[2..]),
        "c07" => c07::run(&args[2..]),
        "c08" => c08::run(&args[2..]),
        "c09" => c09::run(&args[2..]),
        "c10" => c10::run(&args[2..]),
        "c11" => c11::run(&args[2..]),
        "c12" => c12::run(&args[2..]),
        "c13" => c13::run(&args[2..]),
        "c14" => c14::run(&args[2..]),
        "c15" => c15::run(&args[2..]),
        "c16" => c16::run(&args[2..]),
        "c17" => c17::run(&args[2..]),
        "c18" => c18::run(&args[2..]),
        "c19" => c19::run(&args[2..]),
        "c20" => c20::run(&args[2..]),
        "c01" | "c02" | "c03" | "ledger" => ledger::run(&args[2..]),
        other => {
            eprintln!("unknown family {other}");
            2
        }
    };
    std::process::exit(rc);
}
