//! Witness family for C16: CSV statements through the real okane::import (config from YAML, csv::import,
//! Txn::to_double_entry, Display) against the statement: sign of the account posting, opposite counter posting, rows
//! oldest first under either row_order, running balance as assertions, and acceptance by okane's own book-keeping.
use std::collections::HashMap;
use std::path::{Path, PathBuf};

use bumpalo::Bump;
use okane::import::{self, Format};
use okane_core::syntax::{self, decoration::AsUndecorated};
use okane_core::{load, report};
use rust_decimal::Decimal;

fn d(s: &str) -> Decimal { s.parse().unwrap() }

fn amount_of(p: &syntax::plain::Posting) -> Option<Decimal> {
    match &p.amount.as_ref()?.amount {
        syntax::expr::ValueExpr::Amount(a) => Some(a.value.value),
        _ => None,
    }
}
fn balance_of(p: &syntax::plain::Posting) -> Option<Decimal> {
    match p.balance.as_ref()? {
        syntax::expr::ValueExpr::Amount(a) => Some(a.value.value),
        _ => None,
    }
}

pub fn run(_args: &[String]) -> i32 {
    let mut bad: Vec<(String, String)> = Vec::new();
    let mut evaluated = 0u64;
    // statement rows oldest first: (date, payee, signed movement of the account as the bank sees it: + = money in / credit)
    let rows_spread: Vec<(&str, &str, Decimal)> = vec![("2024-03-01", "Salary", d("100.00")), ("2024-03-05", "Migros", d("-30.50")), ("2024-03-09", "Refund", d("5.25")), ("2024-03-12", "Fee", d("-0.75"))];
    // the same statement booked on one single day, and one whose first and last rows share a day: the order of the rows is given by
    // `row_order`, never by comparing dates (seed C16-j)
    let rows_one_day: Vec<(&str, &str, Decimal)> = rows_spread.iter().map(|r| ("2024-03-05", r.1, r.2)).collect();
    let rows_same_ends: Vec<(&str, &str, Decimal)> = vec![("2024-03-05", "Salary", d("100.00")), ("2024-03-05", "Migros", d("-30.50")), ("2024-03-06", "Refund", d("5.25")), ("2024-03-06", "Fee", d("-0.75"))];
    for (variant, rows) in [(0, rows_spread), (1, rows_one_day), (2, rows_same_ends)] {
    for liability in [false, true] {
        for credit_debit in [false, true] {
            for new_to_old in [false, true] {
                for with_balance in [false, true] {
                  // column layout: by label or by 1-based index; delimiter; preamble lines to skip (one of them blank)
                  for (by_index, delim, skip_head) in [(false, ',', 0usize), (true, ',', 0), (false, ';', 0), (false, ',', 3), (true, '\t', 3)] {
                    if (by_index || delim != ',' || skip_head != 0) && liability && credit_debit { continue; }
                    if variant != 0 && (by_index || delim != ',' || skip_head != 0) { continue; }
                    evaluated += 1;
                    let mut yaml = String::from("path: stmt.csv\nencoding: UTF-8\naccount: Acct:Main\n");
                    yaml.push_str(if liability { "account_type: liability\n" } else { "account_type: asset\n" });
                    yaml.push_str("commodity: CHF\nformat:\n  date: \"%Y-%m-%d\"\n");
                    if new_to_old { yaml.push_str("  row_order: new_to_old\n"); }
                    if delim != ',' { yaml.push_str(&format!("  delimiter: \"{}\"\n", if delim == '\t' { "\\t".to_string() } else { delim.to_string() })); }
                    if skip_head > 0 { yaml.push_str(&format!("  skip:\n    head: {}\n", skip_head)); }
                    if by_index {
                        yaml.push_str("  fields:\n    date: 1\n    payee: 2\n");
                        if credit_debit { yaml.push_str("    credit: 3\n    debit: 4\n"); } else { yaml.push_str("    amount: 3\n"); }
                        if with_balance { yaml.push_str(&format!("    balance: {}\n", if credit_debit { 5 } else { 4 })); }
                    } else {
                        yaml.push_str("  fields:\n    date: Date\n    payee: Text\n");
                        if credit_debit { yaml.push_str("    credit: In\n    debit: Out\n"); } else { yaml.push_str("    amount: Amount\n"); }
                        if with_balance { yaml.push_str("    balance: Balance\n"); }
                    }
                    yaml.push_str("rewrite:\n  - matcher:\n      payee: Migros\n    account: Expenses:Grocery\n");
                    // running balance of the account as booked: asset: opening 1000 + movement; liability with an `amount` column books -amount
                    let booked: Vec<Decimal> = rows.iter().map(|r| if liability && !credit_debit { -r.2 } else { r.2 }).collect();
                    let mut run = d("1000.00");
                    let mut lines: Vec<String> = Vec::new();
                    let mut balances: Vec<Decimal> = Vec::new();
                    for (r, b) in rows.iter().zip(booked.iter()) {
                        run += *b;
                        balances.push(run);
                        let mut l = format!("{},{}", r.0, r.1);
                        if credit_debit {
                            if r.2 > Decimal::ZERO { l.push_str(&format!(",{},", r.2)); } else { l.push_str(&format!(",,{}", -r.2)); }
                        } else {
                            l.push_str(&format!(",{}", r.2));
                        }
                        if with_balance { l.push_str(&format!(",{}", run)); }
                        lines.push(l);
                    }
                    if new_to_old { lines.reverse(); }
                    let mut csv = String::from("Date,Text");
                    csv.push_str(if credit_debit { ",In,Out" } else { ",Amount" });
                    if with_balance { csv.push_str(",Balance"); }
                    csv.push('\n');
                    csv.push_str(&lines.join("\n"));
                    csv.push('\n');
                    if delim != ',' { csv = csv.replace(',', &delim.to_string()); }
                    if skip_head > 0 { csv = format!("Okane Bank statement\nAccount 123-456\n\n{}", csv); }
                    let desc = format!("config:\n{}\ncsv:\n{}", yaml, csv);
                    let set = match import::config::load_from_yaml(yaml.as_bytes()) { Ok(s) => s, Err(e) => { bad.push((desc, format!("config rejected: {}", e))); continue; } };
                    let entry = match set.select(Path::new("stmt.csv")) { Ok(Some(e)) => e, _ => { bad.push((desc, "no config selected".into())); continue; } };
                    let txns = match import::import(csv.as_bytes(), Format::Csv, &entry) { Ok(t) => t, Err(e) => { bad.push((desc, format!("import failed: {}", e))); continue; } };
                    if txns.len() != rows.len() { bad.push((desc, format!("{} transactions for {} rows", txns.len(), rows.len()))); continue; }
                    let mut ledger_text = String::from("2024/01/01 opening\n    Acct:Main    1000.00 CHF\n    Equity\n\n");
                    let mut problem: Option<String> = None;
                    for (i, t) in txns.iter().enumerate() {
                        let de = match t.to_double_entry(&entry.account) { Ok(x) => x, Err(e) => { problem = Some(format!("row {} could not be converted: {}", i, e)); break; } };
                        let want_date = chrono::NaiveDate::parse_from_str(rows[i].0, "%Y-%m-%d").unwrap();
                        if de.date != want_date { problem = Some(format!("transaction {} is dated {}, rows must come out oldest first ({})", i, de.date, want_date)); break; }
                        if de.payee.as_ref() != rows[i].1 { problem = Some(format!("transaction {} is the row of {:?}, rows must come out oldest first: {:?} is due here", i, de.payee, rows[i].1)); break; }
                        let acct: Vec<&syntax::plain::Posting> = de.posts.iter().filter(|p| p.account.as_undecorated() == "Acct:Main").collect();
                        let other: Vec<&syntax::plain::Posting> = de.posts.iter().filter(|p| p.account.as_undecorated() != "Acct:Main").collect();
                        if acct.len() != 1 || other.len() != 1 { problem = Some(format!("row {}: expected one account posting and one counter posting", i)); break; }
                        if amount_of(acct[0]) != Some(booked[i]) { problem = Some(format!("row {} ({} {}): account posting is {:?}, must be {}", i, rows[i].1, rows[i].2, amount_of(acct[0]), booked[i])); break; }
                        if amount_of(other[0]) != Some(-booked[i]) { problem = Some(format!("row {}: counter posting is {:?}, must be {}", i, amount_of(other[0]), -booked[i])); break; }
                        if with_balance && balance_of(acct[0]) != Some(balances[i]) { problem = Some(format!("row {}: balance assertion {:?}, statement says {}", i, balance_of(acct[0]), balances[i])); break; }
                        if !with_balance && balance_of(acct[0]).is_some() { problem = Some(format!("row {}: unexpected balance assertion", i)); break; }
                        let ctx = syntax::display::DisplayContext::default();
                        ledger_text.push_str(&format!("{}\n", ctx.as_display(&de)));
                    }
                    if let Some(p) = problem { bad.push((desc, p)); continue; }
                    // okane's own book-keeping accepts the imported ledger and ends at the statement's last balance
                    let arena = Bump::new();
                    let mut rctx = report::ReportContext::new(&arena);
                    let mut files: HashMap<PathBuf, Vec<u8>> = HashMap::new();
                    files.insert(PathBuf::from("/m.ledger"), ledger_text.clone().into_bytes());
                    let loader = load::Loader::new(PathBuf::from("/m.ledger"), load::FakeFileSystem::from(files));
                    let verdict = match report::process(&mut rctx, loader, &report::ProcessOptions::default()) {
                        Err(e) => Some(format!("okane's book-keeping rejects the imported ledger: {}", format!("{}", e).lines().next().unwrap_or(""))),
                        Ok(mut l) => {
                            let b = l.balance(&rctx, &report::query::BalanceQuery::default()).map(|b| b.into_owned().into_vec());
                            match b {
                                Ok(v) => {
                                    let main: Vec<String> = v.iter().filter(|(a, _)| a.as_str() == "Acct:Main").flat_map(|(_, am)| am.iter().map(|s| format!("{}", s)).collect::<Vec<_>>()).collect();
                                    let want = format!("{} CHF", balances[balances.len() - 1]);
                                    if main.len() == 1 && main[0].parse::<String>().ok().map(|s| s.split(' ').next().unwrap().parse::<Decimal>().unwrap()) == Some(balances[balances.len() - 1]) { None } else { Some(format!("account ends at {:?}, statement ends at {}", main, want)) }
                                }
                                Err(e) => Some(format!("balance failed: {}", e)),
                            }
                        }
                    };
                    if let Some(v) = verdict { bad.push((format!("{}\nimported ledger:\n{}", desc, ledger_text), v)); }
                  }
                }
            }
        }
    }
    }
    conversions(&mut bad, &mut evaluated);
    for (s, why) in bad.iter().take(8) {
        println!("{}", serde_json::json!({"input": s, "contradiction": why}));
    }
    println!("{}", serde_json::json!({"family": "c16", "evaluated": evaluated, "contradictions": bad.len()}));
    if bad.is_empty() { 0 } else { 1 }
}

fn cost_of(p: &syntax::plain::Posting) -> Option<(Decimal, String)> {
    match p.amount.as_ref()?.cost.as_ref()? {
        syntax::Exchange::Rate(syntax::expr::ValueExpr::Amount(a)) => Some((a.value.value, a.commodity.to_string())),
        _ => None,
    }
}
fn commodity_of(p: &syntax::plain::Posting) -> Option<String> {
    match &p.amount.as_ref()?.amount {
        syntax::expr::ValueExpr::Amount(a) => Some(a.commodity.to_string()),
        _ => None,
    }
}

/// Statements with rate / secondary amount / secondary commodity columns: a conversion applies to a row iff the rule that
/// matched it carries an enabled `conversion`, or (no rule-level conversion and) the account-level default is enabled and the
/// row has all three columns; a rule-level or account-level `disabled: true` switches it off.  When it applies the
/// counter-posting carries the secondary amount (opposite sign) and the rate is attached to the posting of the commodity
/// it prices; when it does not, the counter-posting is the plain opposite amount.
fn conversions(bad: &mut Vec<(String, String)>, evaluated: &mut u64) {
    // (payee, amount CHF, rate, secondary amount, secondary commodity)
    let rows: [(&str, &str, &str, &str, &str); 5] = [
        ("Plain", "-12.00", "", "", ""),
        ("Hotel", "-18.00", "0.90", "20.00", "USD"),     // default conversion: 1 USD = 0.90 CHF (price_of_secondary), extract
        ("NoConv", "-27.00", "0.90", "30.00", "USD"),    // matched by a rule with conversion.disabled
        ("Primary", "-10.00", "1.25", "", ""),           // rule: compute, price_of_primary, commodity EUR: 1 CHF = 1.25 EUR -> 12.50 EUR
        ("Income", "45.00", "0.90", "50.00", "USD"),     // positive row with the default conversion
    ];
    for account_disabled in [false, true] {
        *evaluated += 1;
        let mut yaml = String::from("path: conv.csv\nencoding: UTF-8\naccount: Acct:Main\naccount_type: asset\ncommodity:\n  primary: CHF\n");
        if account_disabled { yaml.push_str("  conversion:\n    disabled: true\n"); }
        yaml.push_str("format:\n  date: \"%Y-%m-%d\"\n  fields:\n    date: Date\n    payee: Text\n    amount: Amount\n    rate: Rate\n    secondary_amount: SecAmount\n    secondary_commodity: SecCommodity\n");
        yaml.push_str("rewrite:\n  - matcher:\n      payee: NoConv\n    account: Expenses:A\n    conversion:\n      disabled: true\n");
        yaml.push_str("  - matcher:\n      payee: Primary\n    account: Expenses:B\n    conversion:\n      amount: compute\n      rate: price_of_primary\n      commodity: EUR\n");
        yaml.push_str("  - matcher:\n      payee: Hotel\n    account: Expenses:C\n");
        let mut csv = String::from("Date,Text,Amount,Rate,SecAmount,SecCommodity\n");
        for (i, r) in rows.iter().enumerate() {
            csv.push_str(&format!("2024-04-{:02},{},{},{},{},{}\n", i + 1, r.0, r.1, r.2, r.3, r.4));
        }
        let desc = format!("config:\n{}\ncsv:\n{}", yaml, csv);
        let set = match import::config::load_from_yaml(yaml.as_bytes()) { Ok(s) => s, Err(e) => { bad.push((desc, format!("config rejected: {}", e))); continue; } };
        let entry = match set.select(Path::new("conv.csv")) { Ok(Some(e)) => e, _ => { bad.push((desc, "no config selected".into())); continue; } };
        let txns = match import::import(csv.as_bytes(), Format::Csv, &entry) { Ok(t) => t, Err(e) => { bad.push((desc, format!("import failed: {}", e))); continue; } };
        if txns.len() != rows.len() { bad.push((desc, format!("{} transactions for {} rows", txns.len(), rows.len()))); continue; }
        // expected counter posting per row: (value, commodity, which posting carries a rate: None | Some((on_counter, rate, rate commodity)))
        let expect = |i: usize| -> (Decimal, &str, Option<(bool, Decimal, &str)>) {
            match (i, account_disabled) {
                (0, _) => (d("12.00"), "CHF", None),
                (1, false) => (d("20.00"), "USD", Some((true, d("0.90"), "CHF"))),
                (1, true) => (d("18.00"), "CHF", None),
                (2, _) => (d("27.00"), "CHF", None),
                (3, _) => (d("12.50"), "EUR", Some((false, d("1.25"), "EUR"))),
                (4, false) => (d("-50.00"), "USD", Some((true, d("0.90"), "CHF"))),
                _ => (d("-45.00"), "CHF", None),
            }
        };
        let mut ledger_text = String::from("2024/01/01 opening\n    Acct:Main    1000.00 CHF\n    Equity\n\n");
        let mut problem: Option<String> = None;
        for (i, t) in txns.iter().enumerate() {
            let de = match t.to_double_entry(&entry.account) { Ok(x) => x, Err(e) => { problem = Some(format!("row {} could not be converted: {}", i, e)); break; } };
            let acct: Vec<&syntax::plain::Posting> = de.posts.iter().filter(|p| p.account.as_undecorated() == "Acct:Main").collect();
            let other: Vec<&syntax::plain::Posting> = de.posts.iter().filter(|p| p.account.as_undecorated() != "Acct:Main").collect();
            if acct.len() != 1 || other.len() != 1 { problem = Some(format!("row {}: expected one account posting and one counter posting", i)); break; }
            let (v, c, rate) = expect(i);
            if amount_of(acct[0]) != Some(d(rows[i].1)) || commodity_of(acct[0]).as_deref() != Some("CHF") {
                problem = Some(format!("row {} ({}): account posting is {:?} {:?}, must be {} CHF", i, rows[i].0, amount_of(acct[0]), commodity_of(acct[0]), rows[i].1)); break;
            }
            if amount_of(other[0]) != Some(v) || commodity_of(other[0]).as_deref() != Some(c) {
                problem = Some(format!("row {} ({}): counter posting is {:?} {:?}, must be {} {}", i, rows[i].0, amount_of(other[0]), commodity_of(other[0]), v, c)); break;
            }
            let (want_counter, want_acct) = match rate { None => (None, None), Some((true, r, rc)) => (Some((r, rc.to_owned())), None), Some((false, r, rc)) => (None, Some((r, rc.to_owned()))) };
            if cost_of(other[0]) != want_counter || cost_of(acct[0]) != want_acct {
                problem = Some(format!("row {} ({}): rates attached: counter {:?}, account {:?}; must be counter {:?}, account {:?}", i, rows[i].0, cost_of(other[0]), cost_of(acct[0]), want_counter, want_acct)); break;
            }
            let ctx = syntax::display::DisplayContext::default();
            ledger_text.push_str(&format!("{}\n", ctx.as_display(&de)));
        }
        if let Some(p) = problem { bad.push((desc, p)); continue; }
        let arena = Bump::new();
        let mut rctx = report::ReportContext::new(&arena);
        let mut files: HashMap<PathBuf, Vec<u8>> = HashMap::new();
        files.insert(PathBuf::from("/m.ledger"), ledger_text.clone().into_bytes());
        let loader = load::Loader::new(PathBuf::from("/m.ledger"), load::FakeFileSystem::from(files));
        let verdict = match report::process(&mut rctx, loader, &report::ProcessOptions::default()) {
            Err(e) => Some(format!("okane's book-keeping rejects the imported ledger: {}", format!("{}", e).lines().next().unwrap_or(""))),
            Ok(_) => None,
        };
        if let Some(v) = verdict {
            bad.push((format!("{}\nimported ledger:\n{}", desc, ledger_text), v));
        }
    }
}
