//! Witness family for C11 (bounded): one ledger of seven entries is split into included files in several ways on a REAL
//! temporary directory (ProdFileSystem: real canonicalisation and glob) and loaded through the real `Loader::load`; the
//! delivered sequence of entries must equal the unsplit one (file order, includes expanded in place, the include line
//! itself never delivered, glob matches in sorted path order, dot-files not matched by wildcards), the balance report
//! must be the same, and an include that matches nothing must be an error.
use std::path::{Path, PathBuf};

use bumpalo::Bump;
use okane_core::syntax::{self, plain::LedgerEntry};
use okane_core::{load, report};

fn entries() -> Vec<String> {
    vec![
        "commodity JPY\n    format 1,000 JPY\n\n".into(),
        "2024/01/01 one\n    A    1 JPY\n    B\n\n".into(),
        "2024/01/02 two\n    A    20 JPY\n    C\n\n".into(),
        "account D\n    alias DD\n\n".into(),
        "2024/01/03 three\n    DD    300 JPY\n    B\n\n".into(),
        "; a top level comment\n\n".into(),
        "2024/01/04 four\n    A    4,000 JPY = 4,021 JPY\n    C\n\n".into(),
    ]
}

/// loads `root`, returns the delivered entries rendered as text (one string per entry) or the error text
fn deliver(root: &Path) -> Result<Vec<String>, String> {
    let loader = load::new_loader(root.to_owned());
    let mut out: Vec<String> = Vec::new();
    let ctx = syntax::display::DisplayContext::default();
    let r: Result<(), load::LoadError> = loader.load(|_path, _pctx, entry: &LedgerEntry| {
        if let syntax::LedgerEntry::Include(_) = entry {
            out.push("<<INCLUDE LINE DELIVERED>>".to_owned());
        } else {
            out.push(format!("{}", ctx.as_display(entry)));
        }
        Ok(())
    });
    r.map(|_| out).map_err(|e| format!("{}", e))
}

/// the same through the in-memory FakeFileSystem (its glob returns matches in reverse order and matches patterns against
/// whole paths, so the loader's own sort and the literal-separator option are what is observed)
fn deliver_fake(files: &[(String, String)]) -> Result<Vec<String>, String> {
    let mut fs: std::collections::HashMap<PathBuf, Vec<u8>> = std::collections::HashMap::new();
    for (p, c) in files {
        fs.insert(PathBuf::from(format!("/root/{}", p)), c.as_bytes().to_vec());
    }
    let loader = load::Loader::new(PathBuf::from("/root/main.ledger"), load::FakeFileSystem::from(fs));
    let mut out: Vec<String> = Vec::new();
    let ctx = syntax::display::DisplayContext::default();
    let r: Result<(), load::LoadError> = loader.load(|_path, _pctx, entry: &LedgerEntry| {
        if let syntax::LedgerEntry::Include(_) = entry {
            out.push("<<INCLUDE LINE DELIVERED>>".to_owned());
        } else {
            out.push(format!("{}", ctx.as_display(entry)));
        }
        Ok(())
    });
    r.map(|_| out).map_err(|e| format!("{}", e))
}

fn balance(root: &Path) -> Result<String, String> {
    let arena = Bump::new();
    let mut ctx = report::ReportContext::new(&arena);
    let loader = load::new_loader(root.to_owned());
    let mut ledger = report::process(&mut ctx, loader, &report::ProcessOptions::default()).map_err(|e| format!("{}", e))?;
    let b = ledger.balance(&ctx, &report::query::BalanceQuery::default()).map_err(|e| format!("{}", e))?;
    let mut s = String::new();
    for (a, am) in b.into_owned().into_vec() {
        s.push_str(&format!("{}: {}\n", a.as_str(), am.as_inline_display()));
    }
    Ok(s)
}

fn write(dir: &Path, rel: &str, content: &str) {
    let p = dir.join(rel);
    std::fs::create_dir_all(p.parent().unwrap()).unwrap();
    std::fs::write(p, content).unwrap();
}

pub fn run(_args: &[String]) -> i32 {
    let mut bad: Vec<(String, String)> = Vec::new();
    let mut evaluated = 0u64;
    let e = entries();
    let all: String = e.concat();
    // layouts: (description, files (relative path, content)); every layout must deliver e[0..7] in order
    let layouts: Vec<(&str, Vec<(String, String)>)> = vec![
        ("unsplit", vec![("main.ledger".into(), all.clone())]),
        ("one include in the middle", vec![("main.ledger".into(), format!("{}include a.ledger\n\n{}{}{}{}", e[0], e[3], e[4], e[5], e[6])), ("a.ledger".into(), format!("{}{}", e[1], e[2]))]),
        ("include first and last", vec![("main.ledger".into(), format!("include head.ledger\n\n{}{}{}{}{}include tail.ledger\n", e[1], e[2], e[3], e[4], e[5])), ("head.ledger".into(), e[0].clone()), ("tail.ledger".into(), e[6].clone())]),
        ("nested, relative to the including file, back through `..`", vec![
            ("main.ledger".into(), format!("{}include sub/b.ledger\n\n{}", e[0], e[6])),
            ("sub/b.ledger".into(), format!("{}include ../c.ledger\n\n{}include deep/d.ledger\n\n", e[1], e[3])),
            ("c.ledger".into(), e[2].clone()),
            ("sub/deep/d.ledger".into(), format!("{}{}", e[4], e[5])),
        ]),
        ("glob in sorted path order; dot-file and other extension not matched", vec![
            ("main.ledger".into(), format!("{}include parts/*.ledger\n\n{}", e[0], e[6])),
            ("parts/10.ledger".into(), format!("{}{}", e[3], e[4])),
            ("parts/02.ledger".into(), e[2].clone()),
            ("parts/01.ledger".into(), e[1].clone()),
            ("parts/20.ledger".into(), e[5].clone()),
            ("parts/.hidden.ledger".into(), "2024/02/01 hidden\n    A    999 JPY\n    B\n\n".into()),
            ("parts/notes.txt".into(), "this is not a ledger (\n".into()),
            ("parts/deeper/30.ledger".into(), "2024/02/02 deeper\n    A    888 JPY\n    B\n\n".into()),
        ]),
        ("character-class glob", vec![
            ("main.ledger".into(), format!("{}include parts/part[12].ledger\n\ninclude parts/part[!12x].ledger\n\n{}{}{}", e[0], e[4], e[5], e[6])),
            ("parts/part1.ledger".into(), e[1].clone()),
            ("parts/part2.ledger".into(), e[2].clone()),
            ("parts/part3.ledger".into(), e[3].clone()),
            ("parts/partx.ledger".into(), "2024/02/04 not matched by the class\n    A    666 JPY\n    B\n\n".into()),
        ]),
        // sorted PATH order compares component by component: `bank` sorts before `bank-old` and `bank.savings`, although
        // `-` and `.` sort below `/` in the raw strings (seed C11-j)
        ("wildcard in a directory component, sibling directories whose names are prefixes of one another", vec![
            ("main.ledger".into(), format!("{}include accts/*/tx.ledger\n\n{}{}{}", e[0], e[4], e[5], e[6])),
            ("accts/bank/tx.ledger".into(), e[1].clone()),
            ("accts/bank-old/tx.ledger".into(), e[2].clone()),
            ("accts/bank.savings/tx.ledger".into(), e[3].clone()),
            ("accts/bank/other.ledger".into(), "2024/02/05 not matched: another file name\n    A    555 JPY\n    B\n\n".into()),
        ]),
        // the same include TEXT in two directories means two different files: a path is always taken relative to the including file (seed C11-l)
        ("two directories whose index files carry the same include lines", vec![
            ("main.ledger".into(), format!("{}include y2023/index.ledger\n\ninclude y2024/index.ledger\n\n{}", e[0], e[6])),
            ("y2023/index.ledger".into(), "include opening.ledger\n\ninclude txns/*.ledger\n\n".into()),
            ("y2023/opening.ledger".into(), e[1].clone()),
            ("y2023/txns/01.ledger".into(), e[2].clone()),
            ("y2024/index.ledger".into(), "include opening.ledger\n\ninclude txns/*.ledger\n\n".into()),
            ("y2024/opening.ledger".into(), e[3].clone()),
            ("y2024/txns/01.ledger".into(), e[4].clone()),
            ("y2024/txns/02.ledger".into(), e[5].clone()),
        ]),
        ("question-mark glob and a file included from two places in a row", vec![
            ("main.ledger".into(), format!("{}include p?.ledger\n\n{}{}{}{}", e[0], e[3], e[4], e[5], e[6])),
            ("p1.ledger".into(), e[1].clone()),
            ("p2.ledger".into(), e[2].clone()),
            ("p10.ledger".into(), "2024/02/03 not matched by ?\n    A    777 JPY\n    B\n\n".into()),
        ]),
    ];
    let tmp = tempfile::tempdir().expect("tempdir");
    let mut baseline: Option<(Vec<String>, String)> = None;
    for (i, (name, files)) in layouts.iter().enumerate() {
        evaluated += 1;
        let dir = tmp.path().join(format!("l{}", i));
        for (rel, content) in files { write(&dir, rel, content); }
        let root = dir.join("main.ledger");
        let desc = format!("layout `{}`:\n{}", name, files.iter().map(|(p, c)| format!("--- {}\n{}", p, c)).collect::<Vec<_>>().join(""));
        let got = deliver(&root);
        let bal = balance(&root);
        match (&got, &bal) {
            (Ok(g), Ok(b)) => {
                if g.iter().any(|x| x.contains("<<INCLUDE LINE DELIVERED>>")) { bad.push((desc.clone(), "the include line itself was delivered to the callback".into())); continue; }
                match &baseline {
                    None => {
                        if g.len() != e.len() { bad.push((desc.clone(), format!("unsplit ledger delivered {} entries, it has {}", g.len(), e.len()))); }
                        baseline = Some((g.clone(), b.clone()));
                    }
                    Some((bg, bb)) => {
                        if g != bg {
                            let k = g.iter().zip(bg.iter()).position(|(x, y)| x != y).unwrap_or(g.len().min(bg.len()));
                            bad.push((desc.clone(), format!("delivered entries differ from the unsplit ledger at position {} ({} vs {} entries): got {:?}, expected {:?}", k, g.len(), bg.len(), g.get(k).map(|s| s.lines().next().unwrap_or("").to_owned()), bg.get(k).map(|s| s.lines().next().unwrap_or("").to_owned()))));
                        } else if b != bb {
                            bad.push((desc.clone(), format!("balance report differs from the unsplit ledger: {:?} vs {:?}", b, bb)));
                        }
                    }
                }
            }
            (Err(er), _) | (_, Err(er)) => bad.push((desc.clone(), format!("split ledger rejected: {}", er.lines().next().unwrap_or("")))),
        }
        // in-memory file system (every layout, also those that go back through `..`: the statement names both file systems)
        {
            evaluated += 1;
            match (deliver_fake(files), &baseline) {
                (Ok(g), Some((bg, _))) => {
                    if &g != bg {
                        let k = g.iter().zip(bg.iter()).position(|(x, y)| x != y).unwrap_or(g.len().min(bg.len()));
                        bad.push((format!("(in-memory file system) {}", desc), format!("delivered entries differ from the unsplit ledger at position {} ({} vs {} entries): got {:?}, expected {:?}", k, g.len(), bg.len(), g.get(k).map(|s| s.lines().next().unwrap_or("").to_owned()), bg.get(k).map(|s| s.lines().next().unwrap_or("").to_owned()))));
                    }
                }
                (Err(er), _) => bad.push((format!("(in-memory file system) {}", desc), format!("split ledger rejected: {}", er.lines().next().unwrap_or("")))),
                _ => {}
            }
        }
    }
    // layouts in which a file is delivered more than once (no cycle): expected sequence given explicitly
    let repeated: Vec<(&str, Vec<(String, String)>, Vec<usize>)> = vec![
        ("a later glob match includes an earlier match again", vec![
            ("main.ledger".into(), format!("{}include y/*.ledger\n\n{}", e[0], e[6])),
            ("y/00.ledger".into(), e[1].clone()),
            ("y/01.ledger".into(), e[2].clone()),
            ("y/02.ledger".into(), format!("include 00.ledger\n\n{}", e[5])),
        ], vec![0, 1, 2, 1, 5, 6]),
        ("the same file included by two separate lines and from a sub-directory", vec![
            ("main.ledger".into(), format!("include c.ledger\n\n{}include c.ledger\n\ninclude d/e.ledger\n", e[1])),
            ("c.ledger".into(), e[5].clone()),
            ("d/e.ledger".into(), format!("{}include ../c.ledger\n", e[2])),
        ], vec![5, 1, 5, 2, 5]),
    ];
    if let Some((bg, _)) = &baseline {
        for (i, (name, files, want)) in repeated.iter().enumerate() {
            evaluated += 1;
            let dir = tmp.path().join(format!("r{}", i));
            for (rel, content) in files { write(&dir, rel, content); }
            let desc = format!("layout `{}`:\n{}", name, files.iter().map(|(p, c)| format!("--- {}\n{}", p, c)).collect::<Vec<_>>().join(""));
            let want_seq: Vec<String> = want.iter().map(|k| bg[*k].clone()).collect();
            match deliver(&dir.join("main.ledger")) {
                Ok(g) if g == want_seq => {}
                Ok(g) => bad.push((desc.clone(), format!("delivered {} entries {:?}, expected the entries {:?} of the unsplit ledger", g.len(), g.iter().map(|x| x.lines().next().unwrap_or("").to_owned()).collect::<Vec<_>>(), want))),
                Err(er) => bad.push((desc.clone(), format!("rejected although nothing is recursive: {}", er.lines().next().unwrap_or("")))),
            }
            if !name.contains("sub-directory") {
                evaluated += 1;
                match deliver_fake(files) {
                    Ok(g) if g == want_seq => {}
                    Ok(g) => bad.push((format!("(in-memory file system) {}", desc), format!("delivered {} entries, expected {:?}", g.len(), want))),
                    Err(er) => bad.push((format!("(in-memory file system) {}", desc), format!("rejected although nothing is recursive: {}", er.lines().next().unwrap_or("")))),
                }
            }
        }
    }
    // an include that matches nothing is an error (literal path and glob)
    for (i, inc) in ["include missing.ledger\n", "include nothing/*.ledger\n", "include .*.ledger\n"].iter().enumerate() {
        evaluated += 1;
        let dir = tmp.path().join(format!("m{}", i));
        write(&dir, "main.ledger", &format!("{}{}", e[1], inc));
        write(&dir, "other.txt", "x");
        let root = dir.join("main.ledger");
        if deliver(&root).is_ok() {
            bad.push((format!("main.ledger = {:?}", format!("{}{}", e[1], inc)), "an include that matches no file was accepted".into()));
        }
    }
    let _ = PathBuf::new();
    for (s, why) in bad.iter().take(8) {
        println!("{}", serde_json::json!({"input": s, "contradiction": why}));
    }
    println!("{}", serde_json::json!({"family": "c11", "evaluated": evaluated, "contradictions": bad.len()}));
    if bad.is_empty() { 0 } else { 1 }
}
