//! Witness family for C05 (bounded): texts assembled from a catalogue of entries in the documented ledger syntax are
//! (1) parsed, (2) formatted and parsed again - the entries must be `==` - and (3) formatted twice - the text must not
//! change.  Every text is also tried without its final newline, with CRLF line ends and with extra blank lines between
//! the entries.
use std::io::Cursor;

use okane_core::format::FormatOptions;
use okane_core::parse::{parse_ledger, ParseOptions};
use okane_core::syntax::plain::LedgerEntry;

fn fmt(text: &str) -> Result<String, String> {
    let mut out = Vec::new();
    FormatOptions::new().format(&mut Cursor::new(text.as_bytes()), &mut out).map_err(|e| format!("{}", e))?;
    String::from_utf8(out).map_err(|e| e.to_string())
}

fn parse(text: &str) -> Result<Vec<LedgerEntry<'_>>, String> {
    let mut v = Vec::new();
    for r in parse_ledger(&ParseOptions::default(), text) {
        match r {
            Ok((_, e)) => v.push(e),
            Err(e) => return Err(format!("{}", e)),
        }
    }
    Ok(v)
}

/// the three laws on one text; `what` names the text in a report
fn laws(text: &str) -> Option<String> {
    let before = match parse(text) {
        Ok(v) => v,
        Err(e) => return Some(format!("documented syntax rejected: {}", e.lines().next().unwrap_or(""))),
    };
    let formatted = match fmt(text) {
        Ok(f) => f,
        Err(e) => return Some(format!("format failed on a text that parses: {}", e.lines().next().unwrap_or(""))),
    };
    let after = match parse(&formatted) {
        Ok(v) => v,
        Err(e) => return Some(format!("formatted text does not parse: {} (formatted: {:?})", e.lines().next().unwrap_or(""), formatted)),
    };
    if before.len() != after.len() {
        return Some(format!("{} entries before formatting, {} after (formatted: {:?})", before.len(), after.len(), formatted));
    }
    for (i, (a, b)) in before.iter().zip(after.iter()).enumerate() {
        if a != b {
            return Some(format!("entry {} changed by formatting: {:?} became {:?}", i, a, b));
        }
    }
    match fmt(&formatted) {
        Ok(again) if again == formatted => None,
        Ok(again) => {
            let (la, lb) = formatted.lines().zip(again.lines()).find(|(x, y)| x != y).unwrap_or(("", ""));
            Some(format!("formatting the formatted text changes it: {:?} became {:?}", la, lb))
        }
        Err(e) => Some(format!("formatted text does not format: {}", e.lines().next().unwrap_or(""))),
    }
}

fn catalogue() -> Vec<String> {
    let mut v: Vec<String> = Vec::new();
    // directives and comments
    for s in [
        "; top comment\n",
        "# hash comment\n; second line\n",
        "% percent comment\n",
        "| bar comment\n",
        "* star comment\n",
        "account Assets:Bank\n",
        "account Assets:Bank\n    alias Bank\n    note main account\n",
        "account Assets:銀行 口座\n    ; a comment\n    alias B2\n    ; another\n     ; continued\n    note n1\n    note n2\n",
        "commodity JPY\n",
        "commodity JPY\n    alias ¥\n    format 1,000 JPY\n",
        "commodity USD\n    ; us dollar\n    note n\n    alias $\n    format 1,000.00 USD\n",
        "apply tag k\n",
        "apply tag k: v\n",
        "end apply tag\n",
        "include other.ledger\n",
        "include sub/*.ledger\n",
    ] {
        v.push(s.to_owned());
    }
    // transaction headers
    let headers = [
        "2024/01/01 Payee",
        "2024-01-02 Payee",
        "2024/01/01=2024/01/03 Payee",
        "2024/01/01 * Payee",
        "2024/01/01 ! Payee",
        "2024/01/01 * (c1) Payee with spaces",
        "2024/01/01 (#12) 支払い 先",
        "2024/01/01=2024/01/05 ! (x) Payee  ; header note",
        "2024/01/01",
        "2024/01/01 *",
    ];
    // posting lines (without indentation)
    let postings = [
        "A  1 JPY",
        "Assets:Bank Account  1,000,000 JPY",
        "Assets:銀行  -2,000.50 CHF",
        "* A  1 JPY",
        "! Assets:B  0.00 USD",
        "A  1.5 USD @ 150 JPY",
        "A  -1.5 USD @@ 225.00 JPY",
        "A  10 OKANE {80 JPY}",
        "A  10 OKANE {{800 JPY}}",
        "A  10 OKANE {80 JPY} [2024/01/09] (a lot) @ 90 JPY",
        "A  (2 * 1.50 CHF)",
        "A  (1 + 2 * 3)",
        "A  (-(1 CHF + 2 CHF) / 3)",
        "A  1 JPY = 10 JPY",
        "A  1 JPY = 0",
        "A  = 1,234 JPY",
        "A  = 0",
        "A  1 JPY  ; posting note",
        "A  1 JPY\n    ; :tag1:tag2:\n    ; Key: value\n    ; Expr:: (1 JPY + 2 JPY)\n    ; free text",
        "A",
        "Expenses:Very:Long:Account:Name:That:Goes:Past:The:Column:Limit  123,456.78 JPY",
        "A\t1 JPY",
    ];
    for (i, h) in headers.iter().enumerate() {
        // every header with a plain pair of postings, and with transaction-level metadata
        v.push(format!("{}\n    A  1 JPY\n    B\n", h));
        if i % 2 == 0 {
            v.push(format!("{}\n    ; :t1:\n    ; K: v\n    ; note\n    A  1 JPY\n    B  -1 JPY\n", h));
        }
    }
    for p in postings {
        v.push(format!("2024/02/01 P\n    {}\n    Z\n", p));
        v.push(format!("2024/02/01 P\n    Z  -1 JPY\n    {}\n", p));
    }
    v.push("2024/03/01 no postings\n".to_owned());
    v
}

pub fn run(args: &[String]) -> i32 {
    let thorough = args.first().map(|x| x == "thorough").unwrap_or(false);
    if args.first().map(|x| x == "--only").unwrap_or(false) {
        let text = args.get(1).cloned().unwrap_or_default();
        println!("{}", serde_json::json!({"input": text, "observed": format!("{:?}", laws(&text))}));
        println!("{}", serde_json::json!({"family": "c05", "evaluated": 1, "contradictions": 0, "note": "observation only"}));
        return 0;
    }
    let cat = catalogue();
    let mut bad: Vec<(String, String)> = Vec::new();
    let mut evaluated = 0u64;
    let mut texts: Vec<String> = Vec::new();
    for e in &cat {
        texts.push(e.clone());                                   // the entry alone
        texts.push(e.trim_end_matches('\n').to_owned());         // ... its last line ending at end of file
        texts.push(e.replace('\n', "\r\n"));                     // ... CRLF
        texts.push(format!("\n\n{}\n\n\n", e));                  // ... surrounded by blank lines
    }
    // pairs of entries separated by one blank line (every entry followed by a transaction, a directive and a comment)
    let followers = ["2024/04/01 next\n    A  1 JPY\n    B\n", "account Next\n    alias N\n", "; next comment\n"];
    for e in &cat {
        for f in followers {
            texts.push(format!("{}\n{}", e, f));
            if thorough {
                texts.push(format!("{}\n\n\n{}", e, f.trim_end_matches('\n')));
                texts.push(format!("{}\n{}", f, e));
            }
        }
    }
    // the whole catalogue as one file, and the bundled sample
    texts.push(cat.join("\n"));
    texts.push(include_str!("../data/sample.ledger").to_owned());
    for t in &texts {
        evaluated += 1;
        if let Some(why) = laws(t) {
            if bad.len() < 12 && !bad.iter().any(|(_, w): &(String, String)| w.split(':').next() == why.split(':').next() && bad.len() >= 6) {
                bad.push((t.clone(), why));
            }
        }
    }
    for (s, why) in &bad {
        println!("{}", serde_json::json!({"input": s, "contradiction": why}));
    }
    println!("{}", serde_json::json!({"family": "c05", "evaluated": evaluated, "contradictions": bad.len()}));
    if bad.is_empty() { 0 } else { 1 }
}
