//! Witness family for C05 (bounded): texts assembled from a catalogue of entries in the documented ledger syntax are
//! (1) parsed, (2) formatted and parsed again - the entries must be `==` - and (3) formatted twice - the text must not
//! change.  Every text is also tried without its final newline, with CRLF line ends and with extra blank lines between
//! the entries.
use std::io::Cursor;

use okane_core::format::FormatOptions;
use okane_core::parse::{parse_ledger, ParseOptions};
use okane_core::syntax::plain::LedgerEntry;

fn fmt(text: &str) -> Result<String, String> {
    let mut out = Vec::new();
    FormatOptions::new().format(&mut Cursor::new(text.as_bytes()), &mut out).map_err(|e| format!("{}", e))?;
    String::from_utf8(out).map_err(|e| e.to_string())
}

fn parse(text: &str) -> Result<Vec<LedgerEntry<'_>>, String> {
    let mut v = Vec::new();
    for r in parse_ledger(&ParseOptions::default(), text) {
        match r {
            Ok((_, e)) => v.push(e),
            Err(e) => return Err(format!("{}", e)),
        }
    }
    Ok(v)
}

/// the three laws on one text; `what` names the text in a report
fn laws(text: &str) -> Option<String> {
    let before = match parse(text) {
        Ok(v) => v,
        Err(e) => return Some(format!("documented syntax rejected: {}", e.lines().next().unwrap_or(""))),
    };
    let formatted = match fmt(text) {
        Ok(f) => f,
        Err(e) => return Some(format!("format failed on a text that parses: {}", e.lines().next().unwrap_or(""))),
    };
    let after = match parse(&formatted) {
        Ok(v) => v,
        Err(e) => return Some(format!("formatted text does not parse: {} (formatted: {:?})", e.lines().next().unwrap_or(""), formatted)),
    };
    if before.len() != after.len() {
        return Some(format!("{} entries before formatting, {} after (formatted: {:?})", before.len(), after.len(), formatted));
    }
    for (i, (a, b)) in before.iter().zip(after.iter()).enumerate() {
        if a != b {
            return Some(format!("entry {} changed by formatting: {:?} became {:?}", i, a, b));
        }
    }
    match fmt(&formatted) {
        Ok(again) if again == formatted => None,
        Ok(again) => {
            let (la, lb) = formatted.lines().zip(again.lines()).find(|(x, y)| x != y).unwrap_or(("", ""));
            Some(format!("formatting the formatted text changes it: {:?} became {:?}", la, lb))
        }
        Err(e) => Some(format!("formatted text does not format: {}", e.lines().next().unwrap_or(""))),
    }
}

fn catalogue() -> Vec<String> {
    let mut v: Vec<String> = Vec::new();
    // directives and comments
    for s in [
        "; top comment\n",
        "# hash comment\n; second line\n",
        "% percent comment\n",
        "| bar comment\n",
        "* star comment\n",
        "account Assets:Bank\n",
        "account Assets:Bank\n    alias Bank\n    note main account\n",
        "account Assets:銀行 口座\n    ; a comment\n    alias B2\n    ; another\n     ; continued\n    note n1\n    note n2\n",
        "account Notes\n    note \n    note first\n    note \n    note third\n",
        "commodity N\n    note \n",
        "account Sp\n    note   \n    ; \n    ;\n",
        "commodity JPY\n",
        "commodity JPY\n    alias ¥\n    format 1,000 JPY\n",
        "commodity USD\n    ; us dollar\n    note n\n    alias $\n    format 1,000.00 USD\n",
        "apply tag k\n",
        "apply tag k: v\n",
        "end apply tag\n",
        "include other.ledger\n",
        "include sub/*.ledger\n",
    ] {
        v.push(s.to_owned());
    }
    // transaction headers
    let headers = [
        "2024/01/01 Payee",
        "2024-01-02 Payee",
        "2024/01/01=2024/01/03 Payee",
        "2024/01/01 * Payee",
        "2024/01/01 ! Payee",
        "2024/01/01 * (c1) Payee with spaces",
        "2024/01/01 (#12) 支払い 先",
        "2024/01/01=2024/01/05 ! (x) Payee  ; header note",
        "2024/01/01",
        "2024/01/01 *",
    ];
    // posting lines (without indentation)
    let postings = [
        "A  1 JPY",
        "Assets:Bank Account  1,000,000 JPY",
        // numbers beyond 64 bits, in the integer and in the fraction digits (seed C05-l: the printer went through u64)
        "Assets:Chain  20,000,000,000,000,000,000 WEI",
        "Assets:Chain  -1,000.98765432109876543210 X",
        "Assets:Chain  79,228,162,514,264,337,593,543,950,335 SAT",
        "Assets:銀行  -2,000.50 CHF",
        "* A  1 JPY",
        "! Assets:B  0.00 USD",
        "A  1.5 USD @ 150 JPY",
        "A  -1.5 USD @@ 225.00 JPY",
        "A  10 OKANE {80 JPY}",
        "A  10 OKANE {{800 JPY}}",
        "A  10 OKANE {80 JPY} [2024/01/09] (a lot) @ 90 JPY",
        "A  (2 * 1.50 CHF)",
        "A  (1 + 2 * 3)",
        "A  (-(1 CHF + 2 CHF) / 3)",
        "A  1 JPY = 10 JPY",
        "A  1 JPY = 0",
        "A  = 1,234 JPY",
        "A  = 0",
        "A  1 JPY  ; posting note",
        "A  1 JPY\n    ; :tag1:tag2:\n    ; Key: value\n    ; Expr:: (1 JPY + 2 JPY)\n    ; free text",
        "A",
        "Expenses:Very:Long:Account:Name:That:Goes:Past:The:Column:Limit  123,456.78 JPY",
        "A\t1 JPY",
    ];
    for (i, h) in headers.iter().enumerate() {
        // every header with a plain pair of postings, and with transaction-level metadata
        v.push(format!("{}\n    A  1 JPY\n    B\n", h));
        if i % 2 == 0 {
            v.push(format!("{}\n    ; :t1:\n    ; K: v\n    ; note\n    A  1 JPY\n    B  -1 JPY\n", h));
        }
    }
    for p in postings {
        v.push(format!("2024/02/01 P\n    {}\n    Z\n", p));
        v.push(format!("2024/02/01 P\n    Z  -1 JPY\n    {}\n", p));
    }
    v.push("2024/03/01 no postings\n".to_owned());
    v
}


// ---------------------------------------------------------------- random derivations of doc/syntax.md
struct Rng(u64);
impl Rng {
    fn next(&mut self) -> u64 { self.0 = self.0.wrapping_mul(6364136223846793005).wrapping_add(1442695040888963407); self.0 >> 33 }
    fn below(&mut self, n: u64) -> u64 { self.next() % n }
    fn chance(&mut self, pct: u64) -> bool { self.below(100) < pct }
    fn pick<'a>(&mut self, v: &[&'a str]) -> &'a str { v[self.below(v.len() as u64) as usize] }
}
/// sp+ : one to three blanks (spaces only where a tab would change the meaning)
fn sp1(r: &mut Rng) -> String { " ".repeat(1 + r.below(3) as usize) }
/// sp* : zero to two spaces
fn sp0(r: &mut Rng) -> String { " ".repeat(r.below(3) as usize) }
fn date(r: &mut Rng) -> String {
    let (y, m, d) = (2000 + r.below(30), 1 + r.below(12), 1 + r.below(28));
    if r.chance(50) { format!("{:04}/{:02}/{:02}", y, m, d) } else { format!("{:04}-{:02}-{:02}", y, m, d) }
}
fn decimal(r: &mut Rng) -> String {
    let int = match r.below(5) {
        0 => format!("{}", r.below(10)),
        1 => format!("{}", r.below(100000)),
        2 => format!("{},{:03}", 1 + r.below(999), r.below(1000)),
        3 => format!("{},{:03},{:03}", 1 + r.below(99), r.below(1000), r.below(1000)),
        _ => format!("{}", 100 + r.below(900)),
    };
    match r.below(4) { 0 => int, 1 => format!("{}.{}", int, r.below(10)), 2 => format!("{}.{:02}", int, r.below(100)), _ => format!("{}.{:04}", int, r.below(10000)) }
}
fn commodity(r: &mut Rng) -> &'static str { r.pick(&["JPY", "CHF", "USD", "OKANE", "円", "¥", "$", "€uro", "ACME_B"]) }
fn amount_expr(r: &mut Rng, signed: bool) -> String {
    let neg = if signed && r.chance(35) { "-" } else { "" };
    if r.chance(15) { format!("{}{}", neg, decimal(r)) } else { format!("{}{}{}{}", neg, decimal(r), sp0(r), commodity(r)) }
}
fn add_expr(r: &mut Rng, depth: u32) -> String {
    let mut s = mul_expr(r, depth);
    for _ in 0..r.below(3) { s = format!("{}{}{}{}{}", s, sp0(r), r.pick(&["+", "-"]), sp0(r), mul_expr(r, depth)); }
    s
}
fn mul_expr(r: &mut Rng, depth: u32) -> String {
    let mut s = unary_expr(r, depth);
    for _ in 0..r.below(2) { s = format!("{}{}{}{}{}", s, sp0(r), r.pick(&["*", "/"]), sp0(r), unary_expr(r, depth)); }
    s
}
fn unary_expr(r: &mut Rng, depth: u32) -> String {
    let neg = if r.chance(25) { "-" } else { "" };
    if depth < 2 && r.chance(25) { format!("{}({}{}{})", neg, sp0(r), add_expr(r, depth + 1), sp0(r)) } else { format!("{}{}", neg, amount_expr(r, false)) }
}
fn value_expr(r: &mut Rng) -> String {
    if r.chance(20) { format!("({}{}{})", sp0(r), add_expr(r, 0), sp0(r)) } else { amount_expr(r, true) }
}
fn tag(r: &mut Rng) -> &'static str { r.pick(&["Key", "payee", "タグ", "a-b", "x_1"]) }
fn metadata(r: &mut Rng) -> String {
    match r.below(4) {
        0 => format!(";{}{}{}:{}{}", sp0(r), tag(r), sp0(r), sp0(r), r.pick(&["value", "some text; with semi", "値 テキスト", "123"])),
        1 => format!(";{}{}{}::{}{}", sp0(r), tag(r), sp0(r), sp0(r), value_expr(r)),
        2 => { let n = 1 + r.below(3); let mut s = format!(";{}:", sp0(r)); for _ in 0..n { s.push_str(tag(r)); s.push(':'); } s }
        _ => format!(";{}", r.pick(&[" free comment", "no space comment", " コメント", " trailing ; semi"])),
    }
}
fn account(r: &mut Rng) -> &'static str { r.pick(&["A", "Assets:Bank", "Assets:Bank Account", "Expenses:食費", "資産:銀行 口座", "Liabilities:Card:Visa 1234", "Equity"]) }
fn lot(r: &mut Rng) -> String {
    let mut parts: Vec<String> = Vec::new();
    if r.chance(70) { let a = amount_expr(r, false); parts.push(if r.chance(50) { format!("{{{}{}{}}}", sp0(r), a, sp0(r)) } else { format!("{{{{{}{}{}}}}}", sp0(r), a, sp0(r)) }); }
    if r.chance(50) { parts.push(format!("[{}{}{}]", sp0(r), date(r), sp0(r))); }
    if r.chance(40) { parts.push(format!("({})", r.pick(&["lot note", "ロット", "n1", ""]))); }
    // any permutation
    for i in (1..parts.len()).rev() { let j = r.below(i as u64 + 1) as usize; parts.swap(i, j); }
    let mut s = String::new();
    for p in parts { s.push_str(&p); s.push_str(&sp0(r)); }
    s
}
fn posting(r: &mut Rng) -> String {
    let mut s = sp1(r);
    if r.chance(25) { s.push_str(r.pick(&["*", "!"])); s.push_str(&sp0(r)); }
    s.push_str(account(r));
    if r.chance(85) {
        s.push_str(if r.chance(85) { "  " } else { "\t" });
        s.push_str(&sp0(r));
        let has_amount = r.chance(85);
        if has_amount {
            s.push_str(&value_expr(r));
            s.push_str(&sp0(r));
            if r.chance(30) { s.push_str(&lot(r)); }
            if r.chance(30) { s.push_str(r.pick(&["@@", "@"])); s.push_str(&sp0(r)); s.push_str(&value_expr(r)); }
            s.push_str(&sp0(r));
        }
        if !has_amount || r.chance(30) { s.push('='); s.push_str(&sp0(r)); s.push_str(&value_expr(r)); s.push_str(&sp0(r)); }
    }
    if r.chance(20) { s.push_str(&sp0(r)); s.push_str(&metadata(r)); }
    s.push('\n');
    for _ in 0..r.below(3) { if r.chance(40) { s.push_str(&sp1(r)); s.push_str(&metadata(r)); s.push('\n'); } }
    s
}
fn transaction(r: &mut Rng) -> String {
    let mut s = date(r);
    if r.chance(30) { s.push('='); s.push_str(&date(r)); }
    if r.chance(90) {
        s.push_str(&sp1(r));
        if r.chance(50) { s.push_str(r.pick(&["*", "!"])); s.push_str(&sp0(r)); }
        if r.chance(40) { s.push_str(&format!("({}{}{})", sp0(r), r.pick(&["c1", "#12", "コード 7", "a b", ""]), sp0(r))); s.push_str(&sp0(r)); }
        s.push_str(r.pick(&["Payee", "Some Shop 24/7", "支払い 先", "P = Q @ R", "x", ""]));
    }
    if r.chance(15) { s.push_str(&sp0(r)); s.push_str(&metadata(r)); }
    s.push('\n');
    for _ in 0..r.below(3) { s.push_str(&sp1(r)); s.push_str(&metadata(r)); s.push('\n'); }
    for _ in 0..(r.below(4)) { s.push_str(&posting(r)); }
    s
}
fn directive(r: &mut Rng) -> String {
    match r.below(6) {
        0 => { let mut s = String::new(); for _ in 0..(1 + r.below(3)) { s.push_str(&format!("{}{}\n", r.pick(&[";", "#", "%", "|", "*"]), r.pick(&[" comment", "", " コメント", "no space"]))); } s }
        1 => {
            let mut s = format!("account{}{}{}\n", sp1(r), account(r), sp0(r));
            for _ in 0..r.below(4) {
                match r.below(3) {
                    0 => s.push_str(&format!("{}note{}{}\n", sp1(r), sp1(r), r.pick(&["a note", "ノート", "n; with semi", ""]))),
                    1 => s.push_str(&format!("{}alias{}{}\n", sp1(r), sp1(r), account(r))),
                    _ => s.push_str(&format!("{}{}{}\n", sp1(r), r.pick(&[";", "#", "%", "|", "*"]), r.pick(&[" a comment", "tight", " コメント"]))),
                }
            }
            s
        }
        2 => {
            let mut s = format!("commodity{}{}{}\n", sp1(r), commodity(r), sp0(r));
            for _ in 0..r.below(4) {
                match r.below(4) {
                    0 => s.push_str(&format!("{}note{}{}\n", sp1(r), sp1(r), r.pick(&["a note", "ノート", ""]))),
                    1 => s.push_str(&format!("{}alias{}{}\n", sp1(r), sp1(r), commodity(r))),
                    2 => s.push_str(&format!("{}format{}{}\n", sp1(r), sp1(r), r.pick(&["1,000.00 USD", "1,000 JPY", "1000.0000 OKANE"]))),
                    _ => s.push_str(&format!("{}{}{}\n", sp1(r), r.pick(&[";", "#", "%", "|", "*"]), r.pick(&[" a comment", "tight"]))),
                }
            }
            s
        }
        3 => if r.chance(50) { format!("apply{}tag{}{}{}\n", sp1(r), sp1(r), tag(r), sp0(r)) } else { format!("apply{}tag{}{}{}:{}{}\n", sp1(r), sp1(r), tag(r), sp0(r), sp0(r), r.pick(&["value", "値"])) },
        4 => format!("end{}apply{}tag{}\n", sp1(r), sp1(r), sp0(r)),
        _ => format!("include{}{}\n", sp1(r), r.pick(&["other.ledger", "sub/*.ledger", "../x y.ledger"])),
    }
}
/// one random ledger file: vertical-space* (directive vertical-space*)*
fn random_file(r: &mut Rng) -> String {
    let mut s = String::new();
    for _ in 0..r.below(2) { s.push('\n'); }
    for _ in 0..(1 + r.below(3)) {
        s.push_str(&if r.chance(65) { transaction(r) } else { directive(r) });
        for _ in 0..(1 + r.below(2)) { s.push_str(&sp0(r)); s.push('\n'); }
    }
    match r.below(4) { 0 => {
            // drop trailing empty / whitespace-only lines and the final line ending, but no space that belongs to the last line
            let mut lines: Vec<&str> = s.split('\n').collect();
            while lines.last().map(|l| l.trim().is_empty()).unwrap_or(false) { lines.pop(); }
            lines.join("\n")
        } 1 => s.replace('\n', "\r\n"), _ => s }
}

pub fn run(args: &[String]) -> i32 {
    let thorough = args.first().map(|x| x == "thorough").unwrap_or(false);
    if args.first().map(|x| x == "--only").unwrap_or(false) {
        let text = args.get(1).cloned().unwrap_or_default();
        println!("{}", serde_json::json!({"input": text, "observed": format!("{:?}", laws(&text))}));
        println!("{}", serde_json::json!({"family": "c05", "evaluated": 1, "contradictions": 0, "note": "observation only"}));
        return 0;
    }
    let cat = catalogue();
    let mut bad: Vec<(String, String)> = Vec::new();
    let mut evaluated = 0u64;
    let mut texts: Vec<String> = Vec::new();
    for e in &cat {
        texts.push(e.clone());                                   // the entry alone
        texts.push(e.trim_end_matches('\n').to_owned());         // ... its last line ending at end of file
        texts.push(e.replace('\n', "\r\n"));                     // ... CRLF
        texts.push(format!("\n\n{}\n\n\n", e));                  // ... surrounded by blank lines
    }
    // pairs of entries separated by one blank line (every entry followed by a transaction, a directive and a comment)
    let followers = ["2024/04/01 next\n    A  1 JPY\n    B\n", "account Next\n    alias N\n", "; next comment\n"];
    for e in &cat {
        for f in followers {
            texts.push(format!("{}\n{}", e, f));
            if thorough {
                texts.push(format!("{}\n\n\n{}", e, f.trim_end_matches('\n')));
                texts.push(format!("{}\n{}", f, e));
            }
        }
    }
    // the whole catalogue as one file, and the bundled sample
    texts.push(cat.join("\n"));
    texts.push(include_str!("../data/sample.ledger").to_owned());
    // accounts of every display width around the amount column (ASCII and wide, with and without a clear mark): the
    // formatter must keep two spaces after the account or the amount reads back as part of the account name
    for w in 36..=56usize {
        for wide in [false, true] {
            let mut acct = String::from("A:");
            if wide { while acct.chars().map(|c| if c == 'あ' { 2 } else { 1 }).sum::<usize>() + 2 <= w { acct.push('あ'); } }
            while acct.chars().map(|c| if c == 'あ' { 2 } else { 1 }).sum::<usize>() < w { acct.push('b'); }
            for mark in ["", "* "] {
                for rest in ["5 CHF", "-1,234.50 CHF", "(1 + 2)", "= 0", "= 10 CHF", "5 CHF @ 2 JPY = 5 CHF"] {
                    texts.push(format!("2024/05/01 w\n    {}{}  {}\n    Z\n", mark, acct, rest));
                }
            }
        }
    }
    // random derivations of the documented grammar (seeded: VERIF_SEED)
    let seed: u64 = std::env::var("VERIF_SEED").ok().and_then(|x| x.parse().ok()).unwrap_or(1);
    let mut rng = Rng(seed.wrapping_mul(0x9E3779B97F4A7C15) ^ 0xC05);
    for _ in 0..(if thorough { 6000 } else { 800 }) {
        texts.push(random_file(&mut rng));
    }
    for t in &texts {
        evaluated += 1;
        if let Some(why) = laws(t) {
            if bad.len() < 12 && !bad.iter().any(|(_, w): &(String, String)| w.split(':').next() == why.split(':').next() && bad.len() >= 6) {
                bad.push((t.clone(), why));
            }
        }
    }
    for (s, why) in &bad {
        println!("{}", serde_json::json!({"input": s, "contradiction": why}));
    }
    println!("{}", serde_json::json!({"family": "c05", "evaluated": evaluated, "contradictions": bad.len()}));
    if bad.is_empty() { 0 } else { 1 }
}
