//! Witness family for C13 (bounded): the same input is processed REPEAT times inside one process, every time with freshly
//! built hash maps (std's RandomState hands every new map a different key), and every observable text must be
//! byte-identical: balance / register / eval renderings, error texts, imported ledgers.  A difference is a failing input in
//! its own right: two runs of the real code on the same input that disagree.
use std::collections::HashMap;
use std::path::{Path, PathBuf};

use bumpalo::Bump;
use okane::import::{self, Format};
use okane_core::syntax;
use okane_core::{load, report};

const REPEAT: usize = 24;

/// everything the report commands print for this ledger, as one text
fn observe_ledger(text: &str, evals: &[&str]) -> String {
    let arena = Bump::new();
    let mut ctx = report::ReportContext::new(&arena);
    let mut files: HashMap<PathBuf, Vec<u8>> = HashMap::new();
    files.insert(PathBuf::from("/main.ledger"), text.as_bytes().to_vec());
    let loader = load::Loader::new(PathBuf::from("/main.ledger"), load::FakeFileSystem::from(files)).with_error_renderer(annotate_snippets::Renderer::plain());
    let mut out = String::new();
    let mut ledger = match report::process(&mut ctx, loader, &report::ProcessOptions::default()) {
        Ok(l) => l,
        Err(e) => return format!("ERROR {}", e),
    };
    // `okane balance`: one line per account, the amount through as_inline_display
    match ledger.balance(&ctx, &report::query::BalanceQuery::default()) {
        Ok(b) => {
            for (a, am) in b.into_owned().into_vec() {
                out.push_str(&format!("{}: {}\n", a.as_str(), am.as_inline_display()));
            }
        }
        Err(e) => out.push_str(&format!("balance error {}\n", e)),
    }
    // `okane balance -X T` (up to date / historical): the converted report or the text of the error
    for target in ["T", "JPY"].iter().filter_map(|t| ctx.commodity(t)) {
        let now = chrono::NaiveDate::from_ymd_opt(2024, 12, 31).unwrap();
        for strategy in [report::query::ConversionStrategy::UpToDate { now }, report::query::ConversionStrategy::Historical] {
            let q = report::query::BalanceQuery { conversion: Some(report::query::Conversion { strategy, target }), date_range: Default::default() };
            match ledger.balance(&ctx, &q) {
                Ok(b) => {
                    for (a, am) in b.into_owned().into_vec() {
                        out.push_str(&format!("-X {} {}: {}\n", target.as_str(), a.as_str(), am.as_inline_display()));
                    }
                }
                Err(e) => out.push_str(&format!("-X {} error {}\n", target.as_str(), e)),
            }
        }
    }
    // `okane register`: posting amount and running balance
    let mut running: HashMap<String, report::Amount> = HashMap::new();
    for t in ledger.transactions() {
        for p in t.postings.iter() {
            let r = running.entry(p.account.as_str().to_owned()).or_default();
            *r += p.amount.clone();
            out.push_str(&format!("{} {} {} {}\n", t.date, p.account.as_str(), p.amount.as_inline_display(), r.as_inline_display()));
        }
    }
    // `okane primitive eval`
    let ectx = report::query::EvalContext { date: chrono::NaiveDate::from_ymd_opt(2024, 12, 31).unwrap(), exchange: None };
    for e in evals {
        match ledger.eval(&ctx, e, &ectx) {
            Ok(a) => out.push_str(&format!("eval {} = {}\n", e, a.as_inline_display())),
            Err(err) => out.push_str(&format!("eval {} ! {}\n", e, err)),
        }
    }
    out
}

fn observe_import(yaml: &str, file: &str, data: &[u8], fmt: Format) -> String {
    let set = match import::config::load_from_yaml(yaml.as_bytes()) { Ok(s) => s, Err(e) => return format!("config error {}", e) };
    let entry = match set.select(Path::new(file)) { Ok(Some(e)) => e, Ok(None) => return "no config".into(), Err(e) => return format!("select error {}", e) };
    let txns = match import::import(data, fmt, &entry) {
        Ok(t) => t,
        Err(e) => {
            // the whole error chain, as the CLI prints it ("Caused by ..")
            let mut s = format!("import error {}", e);
            let mut cur = std::error::Error::source(&e);
            while let Some(c) = cur { s.push_str(&format!(" / caused by {}", c)); cur = c.source(); }
            return s;
        }
    };
    let mut out = String::new();
    let ctx = syntax::display::DisplayContext::default();
    for t in &txns {
        match t.to_double_entry(&entry.account) {
            Ok(de) => out.push_str(&format!("{}\n", ctx.as_display(&de))),
            Err(e) => out.push_str(&format!("error {}\n", e)),
        }
    }
    out
}

fn first_difference(a: &str, b: &str) -> String {
    for (la, lb) in a.lines().zip(b.lines()) {
        if la != lb {
            return format!("one run prints `{}`, another run prints `{}`", la, lb);
        }
    }
    format!("outputs differ in length ({} vs {} bytes)", a.len(), b.len())
}

pub fn run(_args: &[String]) -> i32 {
    let mut bad: Vec<(String, String)> = Vec::new();
    let mut evaluated = 0u64;
    let ledgers: Vec<(&str, Vec<&str>)> = vec![
        // an account holding several commodities; multi-commodity postings through an omitted amount
        ("2024/01/01 buy\n    Assets:A    1 X\n    Assets:A    2 Y\n    Assets:A    3 Z\n    Assets:A    4 W\n    Assets:A    5 V\n    Equity\n\n2024/01/02 more\n    Assets:B    1 X\n    Assets:B    -2 Y\n    Equity\n\n",
         vec!["(1 X + 2 Y + 3 Z)", "(1 Q + 1 R - 2 S + 4 T)", "(1 X + 1 Y) / 2"]),
        // rejected: the error text lists the unbalanced remainder of three commodities
        ("2024/01/01 bad\n    Assets:A    1 X\n    Assets:A    2 Y\n    Assets:B    3 Z\n\n", vec![]),
        ("2024/01/01 bad\n    Assets:A    1 X\n    Assets:A    2 Y\n    Assets:A    3 Z\n    Assets:B    4 W\n\n", vec![]),
        // rejected: balance assertion on an account holding several commodities
        ("2024/01/01 ok\n    Assets:A    1 X\n    Assets:A    2 Y\n    Assets:A    3 Z\n    Equity\n\n2024/01/02 bad\n    Assets:A    1 X = 5 X\n    Equity\n\n2024/01/03 bad\n    Assets:A    0 X = 0\n    Equity\n\n", vec![]),
        // conversion into T: several accounts and commodities without a rate (which one is reported?), and a convertible one
        ("2024/01/01 x\n    A    1 X\n    A    1 Y\n    A    1 Z\n    A    1 W\n    B    -1 X\n    B    -1 Y\n    B    -1 Z\n    B    -1 W\n\n2024/01/02 t\n    C    1 T\n    D    -1 T\n\n", vec![]),
        ("2024/01/01 x\n    A    2 X @ 3 T\n    A    1 Y @ 5 T\n    B   -11 T\n\n2024/01/02 y\n    C    4 X\n    C    4 Y\n    D   -4 X\n    D   -4 Y\n\n", vec!["(1 X + 1 Y)"]),
        // two equally distant conversion chains that imply different rates (CCC -> AAA -> JPY and CCC -> BBB -> JPY)
        ("commodity JPY\n    format 1,000 JPY\n\n2024/01/01 a\n    A    1 AAA @ 100 JPY\n    B\n\n2024/01/01 b\n    A    1 BBB @ 200 JPY\n    B\n\n2024/01/01 c\n    A    1 CCC @ 2 AAA\n    B\n\n2024/01/01 d\n    A    1 CCC @ 2 BBB\n    B\n\n", vec![]),
        ("2024/01/01 a\n    A    1 P @ 3 JPY\n    B\n\n2024/01/01 b\n    A    1 Q @ 5 JPY\n    B\n\n2024/01/01 b\n    A    1 R @ 7 JPY\n    B\n\n2024/01/02 c\n    A    1 Z @ 2 P\n    B\n\n2024/01/02 d\n    A    1 Z @ 2 Q\n    B\n\n2024/01/02 e\n    A    1 Z @ 2 R\n    B\n\n", vec![]),
        // implied exchange between two commodities, then a declared precision
        ("commodity Y\n    format 1,000.00 Y\n\n2024/01/01 fx\n    Assets:A    10 X\n    Assets:A    -25.005 Y\n\n2024/01/02 fx\n    Assets:A    -4 X\n    Assets:B    10 Y\n\n2024/01/03 z\n    Assets:B    1 Z\n    Equity   -1 Z\n\n", vec!["(1 X + 1 Y)"]),
        // expressions mentioning several commodities that cancel (all of them, or all but one), in every position an expression can
        // stand: posting amount, balance assertion, assignment, cost, lot price, eval
        ("2024/03/05 back\n    Assets:Wallet    (100 USD - 100 USD + 92 EUR - 92 EUR)\n    Expenses:Fees\n\n", vec!["(1 X - 1 X + 2 Y - 2 Y)", "(0 X + 0 Y + 0 Z + 0 W)", "(5 X - 5 X + 2 Y - 2 Y + 1 Z)"]),
        ("2024/03/05 back\n    Assets:Wallet    (100 USD - 100 USD + 92 EUR - 92 EUR + 3 CHF - 3 CHF + 1 JPY)\n    Expenses:Fees\n\n", vec![]),
        ("2024/03/01 fund\n    Assets:Wallet    500 USD\n    Equity\n\n2024/03/05 chk\n    Assets:Wallet    0 USD = (100 USD - 100 USD + 92 EUR - 92 EUR)\n    Equity\n\n", vec![]),
        ("2024/03/01 fund\n    Assets:Wallet    500 USD\n    Assets:Wallet    7 EUR\n    Equity\n\n2024/03/05 set\n    Assets:Wallet    = (1 USD - 1 USD + 2 EUR - 2 EUR + 3 CHF - 3 CHF)\n    Equity\n\n", vec![]),
        ("2024/03/05 cost\n    Assets:A    1 X @ (1 Y - 1 Y + 2 Z - 2 Z + 4 W - 4 W)\n    Equity\n\n", vec![]),
        ("2024/03/05 lot\n    Assets:A    1 X {(1 Y - 1 Y + 2 Z - 2 Z + 4 W - 4 W)}\n    Equity\n\n", vec![]),
        ("2024/03/05 cost\n    Assets:A    1 X @ (1 Y - 1 Y + 2 Z - 2 Z + 4 W)\n    Equity\n\n", vec![]),
    ];
    for (text, evals) in &ledgers {
        evaluated += 1;
        let first = observe_ledger(text, evals);
        for _ in 1..REPEAT {
            let again = observe_ledger(text, evals);
            if again != first {
                bad.push((text.to_string(), format!("two runs over the same ledger differ: {}", first_difference(&first, &again))));
                break;
            }
        }
    }
    // import: rules whose matcher has several fields, two of which capture `payee` / one of which reads the payee captured by another
    let repo = std::env::var("VERIF_REPO").unwrap_or_else(|_| "/repo".to_owned());
    let camt = std::fs::read(format!("{}/cli/tests/testdata/import/iso_camt.xml", repo)).unwrap_or_default();
    let camt_head = "path: iso_camt.xml\nencoding: UTF-8\naccount: Assets:Okane Bank\naccount_type: asset\noperator: Okane Bank (fee)\ncommodity: CHF\nrewrite:\n";
    let camt_rules = [
        "  - matcher:\n      creditor_name: \"(?P<payee>.+)\"\n      additional_transaction_info: \"(?P<payee>.+)\"\n    account: Expenses:Two\n",
        "  - matcher:\n      additional_entry_info: \"(?P<payee>.+)\"\n      additional_transaction_info: \"(?P<payee>.+)\"\n      domain_code: PMNT\n",
        "  - matcher:\n      additional_transaction_info: \"(?P<payee>.+)\"\n      payee: \"(?P<code>[A-Za-z]+).*\"\n    account: Expenses:Chain\n",
        "  - matcher:\n      debtor_name: \"(?P<payee>.+)\"\n      ultimate_debtor_name: \"(?P<payee>.+)\"\n      additional_entry_info: \"(?P<code>[A-Za-z]+)\"\n      additional_transaction_info: \"(?P<code>[0-9]+)\"\n",
    ];
    if !camt.is_empty() {
        for r in camt_rules {
            evaluated += 1;
            let yaml = format!("{}{}", camt_head, r);
            let first = observe_import(&yaml, "iso_camt.xml", &camt, Format::IsoCamt053);
            for _ in 1..REPEAT {
                let again = observe_import(&yaml, "iso_camt.xml", &camt, Format::IsoCamt053);
                if again != first {
                    bad.push((format!("import of cli/tests/testdata/import/iso_camt.xml with config:\n{}", yaml), format!("two runs over the same statement differ: {}", first_difference(&first, &again))));
                    break;
                }
            }
        }
    }
    let csv = "Date,Text,Cat,Amount\n2024-05-01,card 12 MIGROS,shop,-10.00\n2024-05-02,Coop,shop,-20.00\n";
    let csv_yaml = "path: r.csv\nencoding: UTF-8\naccount: Acct:Main\naccount_type: asset\ncommodity: CHF\nformat:\n  date: \"%Y-%m-%d\"\n  fields:\n    date: Date\n    payee: Text\n    category: Cat\n    amount: Amount\nrewrite:\n  - matcher:\n      payee: \"card (?P<code>[0-9]+) (?P<payee>.+)\"\n      category: shop\n    account: Expenses:Shop\n";
    evaluated += 1;
    let first = observe_import(csv_yaml, "r.csv", csv.as_bytes(), Format::Csv);
    for _ in 1..REPEAT {
        let again = observe_import(csv_yaml, "r.csv", csv.as_bytes(), Format::Csv);
        if again != first {
            bad.push((format!("config:\n{}\ncsv:\n{}", csv_yaml, csv), format!("two runs differ: {}", first_difference(&first, &again))));
            break;
        }
    }
    // a config with several invalid fields: which one is reported must not depend on the hash seed
    let bad_cfg = "path: r.csv\nencoding: UTF-8\naccount: Acct:Main\naccount_type: asset\ncommodity: CHF\nformat:\n  date: \"%Y-%m-%d\"\n  fields:\n    date: Date\n    payee:\n      template: \"{unclosed\"\n    note:\n      template: \"{also {bad\"\n    category:\n      template: \"}}{\"\n    amount: Amount\n";
    evaluated += 1;
    let first = observe_import(bad_cfg, "r.csv", csv.as_bytes(), Format::Csv);
    for _ in 1..REPEAT {
        let again = observe_import(bad_cfg, "r.csv", csv.as_bytes(), Format::Csv);
        if again != first {
            bad.push((format!("config:\n{}\ncsv:\n{}", bad_cfg, csv), format!("two runs differ: {}", first_difference(&first, &again))));
            break;
        }
    }
    for (s, why) in bad.iter().take(8) {
        println!("{}", serde_json::json!({"input": s, "contradiction": why}));
    }
    println!("{}", serde_json::json!({"family": "c13", "evaluated": evaluated, "runs_per_input": REPEAT, "contradictions": bad.len()}));
    if bad.is_empty() { 0 } else { 1 }
}
