//! Witness family for C08: value expressions evaluated by the real `Ledger::eval` against an independent evaluator.
use std::collections::{BTreeMap, HashMap};
use std::panic::{catch_unwind, AssertUnwindSafe};
use std::path::PathBuf;

use bumpalo::Bump;
use okane_core::{load, report};
use rust_decimal::Decimal;

#[derive(Clone, Debug)]
pub enum E {
    Lit(Decimal, &'static str),
    Neg(Box<E>),
    Bin(char, Box<E>, Box<E>),
}

#[derive(Clone, Debug, PartialEq)]
pub enum V {
    Num(Decimal),
    Com(BTreeMap<&'static str, Decimal>),
}

pub fn eval(e: &E) -> Option<V> {
    Some(match e {
        E::Lit(v, "") => V::Num(*v),
        E::Lit(v, c) => V::Com(BTreeMap::from([(*c, *v)])),
        E::Neg(x) => match eval(x)? {
            V::Num(v) => V::Num(-v),
            V::Com(m) => V::Com(m.into_iter().map(|(c, v)| (c, -v)).collect()),
        },
        E::Bin(op, a, b) => {
            let (a, b) = (eval(a)?, eval(b)?);
            match (op, a, b) {
                ('+', V::Num(x), V::Num(y)) => V::Num(x + y),
                ('-', V::Num(x), V::Num(y)) => V::Num(x - y),
                ('+', V::Com(mut x), V::Com(y)) => {
                    for (c, v) in y {
                        *x.entry(c).or_default() += v;
                    }
                    V::Com(x)
                }
                ('-', V::Com(mut x), V::Com(y)) => {
                    for (c, v) in y {
                        *x.entry(c).or_default() -= v;
                    }
                    V::Com(x)
                }
                ('*', V::Num(x), V::Num(y)) => V::Num(x * y),
                ('*', V::Com(x), V::Num(y)) | ('*', V::Num(y), V::Com(x)) => V::Com(x.into_iter().map(|(c, v)| (c, v * y)).collect()),
                ('/', _, V::Num(y)) if y.is_zero() => return None,
                ('/', _, V::Com(ref y)) if y.values().all(|v| v.is_zero()) => return None,
                ('/', V::Num(x), V::Num(y)) => V::Num(x / y),
                ('/', V::Com(x), V::Num(y)) => V::Com(x.into_iter().map(|(c, v)| (c, v / y)).collect()),
                ('/', V::Num(x), V::Com(y)) if y.len() == 1 => {
                    let (c, v) = y.into_iter().next().unwrap();
                    V::Com(BTreeMap::from([(c, x / v)]))
                }
                _ => return None,
            }
        }
    })
}

fn show(e: &E, paren_all: bool) -> String {
    match e {
        E::Lit(v, "") => format!("{}", v),
        E::Lit(v, c) => format!("{} {}", v, c),
        E::Neg(x) => format!("-{}", show_atom(x)),
        E::Bin(op, a, b) => {
            if paren_all {
                format!("{} {} {}", show_atom(a), op, show_atom(b))
            } else {
                format!("{} {} {}", show(a, false), op, show(b, false))
            }
        }
    }
}
fn show_atom(e: &E) -> String {
    match e {
        E::Lit(..) => show(e, true),
        _ => format!("({})", show(e, true)),
    }
}

/// final value as the `eval` command sees it: an Amount (number 0 -> empty; other numbers rejected); zero entries dropped for comparison
fn expected_amount(v: Option<V>) -> Option<BTreeMap<&'static str, Decimal>> {
    match v? {
        V::Num(x) if x.is_zero() => Some(BTreeMap::new()),
        V::Num(_) => None,
        V::Com(m) => Some(m.into_iter().filter(|(_, v)| !v.is_zero()).collect()),
    }
}

fn real_eval(exprs: &[String]) -> Vec<Result<BTreeMap<String, Decimal>, String>> {
    let arena = Bump::new();
    let mut ctx = report::ReportContext::new(&arena);
    let mut files: HashMap<PathBuf, Vec<u8>> = HashMap::new();
    files.insert(PathBuf::from("/main.ledger"), b"commodity X\n\ncommodity Y\n\n".to_vec());
    let loader = load::Loader::new(PathBuf::from("/main.ledger"), load::FakeFileSystem::from(files));
    let mut ledger = report::process(&mut ctx, loader, &report::ProcessOptions::default()).expect("trivial ledger");
    let ectx = report::query::EvalContext { date: chrono::NaiveDate::from_ymd_opt(2024, 1, 1).unwrap(), exchange: None };
    let mut out = Vec::new();
    for ex in exprs {
        let r = catch_unwind(AssertUnwindSafe(|| ledger.eval(&ctx, ex, &ectx)));
        out.push(match r {
            Err(_) => Err("PANIC".to_owned()),
            Ok(Err(e)) => Err(format!("{}", e)),
            Ok(Ok(a)) => {
                let mut m = BTreeMap::new();
                for sa in a.iter() {
                    let s = format!("{}", sa);
                    let mut it = s.splitn(2, ' ');
                    let v: Decimal = it.next().unwrap().parse().unwrap();
                    if !v.is_zero() {
                        m.insert(it.next().unwrap_or("").to_owned(), v);
                    }
                }
                Ok(m)
            }
        });
    }
    out
}

pub fn run(args: &[String]) -> i32 {
    let only = args.first().map(|x| x == "--only").unwrap_or(false);
    let thorough = args.first().map(|x| x == "thorough").unwrap_or(false);
    let d = |s: &str| -> Decimal { s.parse().unwrap() };
    let lits = vec![E::Lit(d("6"), ""), E::Lit(d("2"), ""), E::Lit(d("0"), ""), E::Lit(d("6"), "X"), E::Lit(d("3"), "X"), E::Lit(d("0"), "X"), E::Lit(d("4"), "Y"), E::Lit(d("-5"), "X"), E::Lit(d("-2"), "")];
    let ops = ['+', '-', '*', '/'];
    let mut trees: Vec<(E, bool)> = Vec::new();
    // depth 1 and 2, fully parenthesised (evaluation half) and flat chains (precedence / associativity, parser half)
    let mut d1: Vec<E> = Vec::new();
    for a in &lits {
        d1.push(E::Neg(Box::new(a.clone())));
        for b in &lits {
            for op in ops {
                d1.push(E::Bin(op, Box::new(a.clone()), Box::new(b.clone())));
            }
        }
    }
    for e in &d1 {
        trees.push((e.clone(), true));
    }
    let step = if thorough { 1 } else { 5 };
    for (i, l) in d1.iter().enumerate() {
        if i % step != 0 {
            continue;
        }
        for c in &lits {
            for op in ops {
                trees.push((E::Bin(op, Box::new(l.clone()), Box::new(c.clone())), true));
                trees.push((E::Bin(op, Box::new(c.clone()), Box::new(l.clone())), true));
            }
        }
    }
    // flat chains a op1 b op2 c printed WITHOUT parentheses: oracle applies ordinary precedence, left associativity
    for a in &lits {
        for b in &lits {
            for c in lits.iter().step_by(if thorough { 1 } else { 2 }) {
                for o1 in ops {
                    for o2 in ops {
                        let hi = |o: char| o == '*' || o == '/';
                        let tree = if !hi(o1) && hi(o2) {
                            E::Bin(o1, Box::new(a.clone()), Box::new(E::Bin(o2, Box::new(b.clone()), Box::new(c.clone()))))
                        } else {
                            E::Bin(o2, Box::new(E::Bin(o1, Box::new(a.clone()), Box::new(b.clone()))), Box::new(c.clone()))
                        };
                        trees.push((tree, false));
                    }
                }
            }
        }
    }
    let mut texts: Vec<String> = Vec::new();
    for (t, paren) in &trees {
        let s = match (t, paren) {
            (E::Bin(o2, l, c), false) => match (&**l, &**c) {
                // flat printing of both shapes
                (E::Bin(o1, a, b), _) if matches!(**c, E::Lit(..)) => format!("({} {} {} {} {})", show(a, true), o1, show(b, true), o2, show(c, true)),
                (_, E::Bin(o3, b, cc)) => format!("({} {} {} {} {})", show(l, true), o2, show(b, true), o3, show(cc, true)),
                _ => format!("({})", show(t, true)),
            },
            _ => format!("({})", show(t, true)),
        };
        texts.push(s);
    }
    // unary minus written directly in operand position, also in front of literals that carry their own sign (`--5 X` is the
    // negation of the literal -5 X), and doubled through parentheses
    for a in &lits {
        trees.push((E::Neg(Box::new(E::Neg(Box::new(a.clone())))), true));
        texts.push(format!("(-(-{}))", show(a, true)));
        for b in &lits {
            for op in ops {
                trees.push((E::Bin(op, Box::new(a.clone()), Box::new(E::Neg(Box::new(b.clone())))), true));
                texts.push(format!("({} {} -{})", show(a, true), op, show(b, true)));
                trees.push((E::Bin(op, Box::new(E::Neg(Box::new(a.clone()))), Box::new(b.clone())), true));
                texts.push(format!("(-{} {} {})", show(a, true), op, show(b, true)));
            }
        }
    }
    if only {
        let ex = args.get(1).cloned().unwrap_or_default();
        let r = real_eval(&[ex.clone()]);
        println!("{}", serde_json::json!({"input": ex, "observed": format!("{:?}", r[0])}));
        println!("{}", serde_json::json!({"family": "c08", "evaluated": 1, "contradictions": 0, "note": "observation only"}));
        return 0;
    }
    let real = real_eval(&texts);
    let mut bad = Vec::new();
    for (((t, _), s), r) in trees.iter().zip(texts.iter()).zip(real.iter()) {
        let want = expected_amount(eval(t));
        let contradiction = match (&want, r) {
            (_, Err(e)) if e == "PANIC" => Some("evaluation panicked".to_owned()),
            (None, Err(_)) => None,
            (None, Ok(m)) => Some(format!("ill-typed / undefined expression produced {:?}", m)),
            (Some(w), Err(e)) => Some(format!("well-typed expression = {:?} was rejected: {}", w, e)),
            (Some(w), Ok(m)) => {
                let same = w.len() == m.len() && w.iter().all(|(c, v)| m.get(*c) == Some(v));
                if same { None } else { Some(format!("evaluates to {:?}, ordinary arithmetic gives {:?}", m, w)) }
            }
        };
        if let Some(c) = contradiction {
            if bad.len() < 12 {
                bad.push((s.clone(), c));
            }
        }
    }
    // the same typing rules in the other positions a value expression can be written in: posting amount, cost `@` / `@@`, lot price
    // `{}` / `{{}}`, balance assertion.  A cost / lot must be a single amount (a bare number - also a plain literal - or a
    // multi-commodity sum is rejected); a posting amount / assertion is at most one commodity, a bare number only if it is zero.
    let mut positional = 0usize;
    {
        use crate::ledger::{run_real, Real};
        // (text, is a single-commodity non-zero amount, is at most one commodity with bare numbers only zero)
        let exprs: [(&str, bool, bool); 10] = [
            ("150 USD", true, true), ("(3 * 50 USD)", true, true), ("(100 USD + 50 USD)", true, true),
            ("150", false, false), ("(150)", false, false), ("(3 * 50)", false, false), ("0", false, true),
            ("(1 USD + 1 EUR)", false, false), ("(1 USD - 1 USD)", false, true), ("-150 USD", true, true),
        ];
        for (e, single, atmost) in exprs {
            let cases = [
                (format!("2024/01/01 cost\n    A    10 AAPL @ {}\n    B\n\n", e), single, "cost"),
                (format!("2024/01/01 total cost\n    A    10 AAPL @@ {}\n    B\n\n", e), single, "total cost"),
                (format!("2024/01/01 lot\n    A    10 AAPL {{{}}}\n    B\n\n", e), single, "lot price"),
                (format!("2024/01/01 total lot\n    A    10 AAPL {{{{{}}}}}\n    B\n\n", e), single, "total lot price"),
                (format!("2024/01/01 amount\n    A    {}\n    B\n\n", e), atmost, "posting amount"),
            ];
            for (text, ok, what) in cases {
                positional += 1;
                let verdict = match run_real(&text) {
                    Real::Panic => Some("book-keeping panicked".to_owned()),
                    Real::Ok(b) => if ok { None } else { Some(format!("`{}` was accepted as {} (report {:?}): a single amount is required there", e, what, b)) },
                    Real::Err(m) => if ok { Some(format!("`{}` is a well-typed {} but the ledger was rejected: {}", e, what, m.lines().next().unwrap_or(""))) } else { None },
                };
                if let Some(v) = verdict { if bad.len() < 12 { bad.push((text, v)); } }
            }
        }
    }
    for (s, why) in &bad {
        println!("{}", serde_json::json!({"input": s, "contradiction": why}));
    }
    println!("{}", serde_json::json!({"family": "c08", "evaluated": texts.len() + positional, "contradictions": bad.len()}));
    if bad.is_empty() { 0 } else { 1 }
}
