//! Witness family for C14 (bounded): files in which exactly one entry is invalid - by syntax, balance, assertion or
//! inference - placed after several kinds of valid content (nothing, comments, blank lines, other entries, CRLF line ends,
//! multi-byte text), in the root file, an included file or a file included from an included file.  The rendered
//! diagnostic must name the file that contains the entry, and every line number it shows must lie within the entry.
use std::collections::HashMap;
use std::error::Error;
use std::path::PathBuf;

use bumpalo::Bump;
use okane_core::{load, report};

fn render(e: &dyn Error) -> String {
    let mut s = format!("{}\n", e);
    let mut cur = e.source();
    while let Some(c) = cur {
        s.push_str(&format!("{}\n", c));
        cur = c.source();
    }
    s
}

/// (file named after `-->`, its line, the gutter line numbers)
fn locate(text: &str) -> (Option<String>, Option<usize>, Vec<usize>) {
    let mut file = None;
    let mut line = None;
    let mut gutter = Vec::new();
    for l in text.lines() {
        let t = l.trim_start();
        if let Some(rest) = t.strip_prefix("--> ") {
            let parts: Vec<&str> = rest.rsplitn(3, ':').collect();
            if parts.len() == 3 {
                file = Some(parts[2].to_owned());
                line = parts[1].parse().ok();
            }
        } else if let Some((n, _)) = t.split_once(" |") {
            if let Ok(n) = n.trim().parse::<usize>() {
                gutter.push(n);
            }
        }
    }
    (file, line, gutter)
}

pub fn run(_args: &[String]) -> i32 {
    let (evaluated, bad) = sweep(false);
    for (s, why) in bad.iter().take(10) {
        println!("{}", serde_json::json!({"input": s, "contradiction": why}));
    }
    println!("{}", serde_json::json!({"family": "c14", "evaluated": evaluated, "contradictions": bad.len()}));
    if bad.is_empty() { 0 } else { 1 }
}

/// with `panic_only` only a panic while building / rendering the diagnostic counts (used by the C06 family)
pub fn sweep(panic_only: bool) -> (u64, Vec<(String, String)>) {
    let mut bad: Vec<(String, String)> = Vec::new();
    let mut evaluated = 0u64;
    let valid = "2024/01/05 ok\n    Assets:Bank    100 JPY\n    Equity\n\n";
    let prefixes: Vec<(&str, String)> = vec![
        ("nothing", String::new()),
        ("comments and blank lines", "; a comment\n; second line\n\n\n\n".to_owned()),
        ("two entries", format!("{}{}", valid, valid)),
        ("multi-byte text", format!("; 日本語のコメントです、とても長いコメント\n\n2024/01/04 支払い先 日本語の店\n    Assets:銀行    5 JPY\n    Equity\n\n{}", valid)),
        ("account and commodity declarations", "account Assets:Bank\n    alias Bank\n    note 口座\n\ncommodity JPY\n    format 1,000 JPY\n\n".to_owned()),
    ];
    // (kind, entry text (3 lines), is a syntax error)
    let invalid: Vec<(&str, &str, bool)> = vec![
        ("syntax error on the second line", "2024/02/01 bad\n    Assets:Bank    (1 JPY\n    Equity\n", true),
        ("syntax error on the first line", "2024/02/31 bad\n    Assets:Bank    1 JPY\n    Equity\n", true),
        ("syntax error at the end of the last line", "2024/02/01 bad\n    Assets:Bank    1 JPY\n    Equity  ]\n", true),
        ("syntax error in the last posting's amount", "2024/02/01 bad\n    Assets:Bank    1 JPY\n    Equity    -1 JPY @\n", true),
        ("unbalanced", "2024/02/01 bad\n    Assets:Bank    1 JPY\n    Equity    -2 JPY\n", false),
        ("false assertion", "2024/02/01 bad\n    Assets:Bank    1 JPY = 5 JPY\n    Equity\n", false),
        ("two omitted amounts", "2024/02/01 bad\n    Assets:Bank\n    Equity\n", false),
        ("zero cost", "2024/02/01 bad\n    Assets:Bank    1 USD @ 0 JPY\n    Equity\n", false),
    ];
    for (pname, prefix) in &prefixes {
        for crlf in [false, true] {
            for (kind, entry, _syntax) in &invalid {
                for with_suffix in [false, true] {
                    for placement in 0..5 {
                        evaluated += 1;
                        let mut body = format!("{}{}", prefix, entry);
                        if with_suffix { body.push('\n'); body.push_str(valid); }
                        if crlf { body = body.replace('\n', "\r\n"); }
                        // placements 3 and 4 put two include lines (of an empty and of a blank-only file) in front of the body
                        let shift = if placement >= 3 { 4 } else { 0 };
                        let first = prefix.matches('\n').count() + 1 + shift;
                        let last = first + 2;
                        let mut files: HashMap<PathBuf, Vec<u8>> = HashMap::new();
                        let (containing, desc_files) = match placement {
                            0 => { files.insert(PathBuf::from("/root/main.ledger"), body.clone().into_bytes()); ("/root/main.ledger", format!("/root/main.ledger = {:?}", body)) }
                            1 => {
                                let root = format!("{}include sub/inc.ledger\n\n{}", valid, valid);
                                files.insert(PathBuf::from("/root/main.ledger"), root.clone().into_bytes());
                                files.insert(PathBuf::from("/root/sub/inc.ledger"), body.clone().into_bytes());
                                ("/root/sub/inc.ledger", format!("/root/main.ledger = {:?}; /root/sub/inc.ledger = {:?}", root, body))
                            }
                            3 => {
                                // the invalid entry follows includes of an empty and of a blank-only file (seed C14-j: the diagnostic named the empty child)
                                let nl = if crlf { "\r\n" } else { "\n" };
                                let root = format!("include empty.ledger{nl}{nl}include sub/blank.ledger{nl}{nl}{}", body, nl = nl);
                                files.insert(PathBuf::from("/root/main.ledger"), root.clone().into_bytes());
                                files.insert(PathBuf::from("/root/empty.ledger"), Vec::new());
                                files.insert(PathBuf::from("/root/sub/blank.ledger"), b"\n\n".to_vec());
                                ("/root/main.ledger", format!("/root/main.ledger = {:?}; /root/empty.ledger = \"\"; /root/sub/blank.ledger = \"\\n\\n\"", root))
                            }
                            4 => {
                                // the same inside an included file, the empty files reached through `..`
                                let nl = if crlf { "\r\n" } else { "\n" };
                                let root = format!("{}include sub/inc.ledger\n", valid);
                                let inc = format!("include ../empty.ledger{nl}{nl}include blank.ledger{nl}{nl}{}", body, nl = nl);
                                files.insert(PathBuf::from("/root/main.ledger"), root.clone().into_bytes());
                                files.insert(PathBuf::from("/root/sub/inc.ledger"), inc.clone().into_bytes());
                                files.insert(PathBuf::from("/root/empty.ledger"), Vec::new());
                                files.insert(PathBuf::from("/root/sub/blank.ledger"), b"\n\n".to_vec());
                                ("/root/sub/inc.ledger", format!("/root/main.ledger = {:?}; /root/sub/inc.ledger = {:?}; /root/empty.ledger = \"\"; /root/sub/blank.ledger = \"\\n\\n\"", root, inc))
                            }
                            _ => {
                                let root = format!("; root\n\ninclude a.ledger\n\n{}", valid);
                                let a = format!("{}{}include deep/b.ledger\n", valid, valid);
                                files.insert(PathBuf::from("/root/main.ledger"), root.clone().into_bytes());
                                files.insert(PathBuf::from("/root/a.ledger"), a.clone().into_bytes());
                                files.insert(PathBuf::from("/root/deep/b.ledger"), body.clone().into_bytes());
                                ("/root/deep/b.ledger", format!("/root/main.ledger = {:?}; /root/a.ledger = {:?}; /root/deep/b.ledger = {:?}", root, a, body))
                            }
                        };
                        let desc = format!("{} after {} ({}), entry occupies lines {}..{} of {}: {}", kind, pname, if crlf { "CRLF" } else { "LF" }, first, last, containing, desc_files);
                        let arena = Bump::new();
                        let mut ctx = report::ReportContext::new(&arena);
                        let loader = load::Loader::new(PathBuf::from("/root/main.ledger"), load::FakeFileSystem::from(files)).with_error_renderer(annotate_snippets::Renderer::plain());
                        let processed = std::panic::catch_unwind(std::panic::AssertUnwindSafe(|| report::process(&mut ctx, loader, &report::ProcessOptions::default()).map(|_| ()).map_err(|e| render(&e))));
                        let outcome = match processed {
                            Err(_) => Some("building or rendering the diagnostic panicked".to_owned()),
                            Ok(Ok(())) => Some("the ledger was accepted".to_owned()),
                            Ok(Err(text)) => {
                                let (file, line, gutter) = locate(&text);
                                // the file is named either after `-->` or in the "failed to parse file .." line
                                let names_file = file.as_deref() == Some(containing) || text.contains(&format!("file {}", containing));
                                let names_other = ["/root/main.ledger", "/root/sub/inc.ledger", "/root/a.ledger", "/root/deep/b.ledger", "/root/empty.ledger", "/root/sub/blank.ledger"].iter().any(|f| *f != containing && (file.as_deref() == Some(*f) || text.contains(&format!("file {}", f))));
                                if !names_file || names_other {
                                    Some(format!("the diagnostic does not name {} (and only it): {}", containing, text.lines().take(3).collect::<Vec<_>>().join(" / ")))
                                } else if let Some(l) = line.filter(|l| *l < first || *l > last) {
                                    Some(format!("the diagnostic points at line {}, the entry occupies lines {}..{}", l, first, last))
                                } else if let Some(g) = gutter.iter().find(|g| **g < first || **g > last) {
                                    Some(format!("the diagnostic shows line {}, the entry occupies lines {}..{}", g, first, last))
                                } else if gutter.is_empty() {
                                    Some(format!("the diagnostic shows no source lines: {}", text.lines().take(3).collect::<Vec<_>>().join(" / ")))
                                } else {
                                    None
                                }
                            }
                        };
                        if let Some(p) = outcome.filter(|p| !panic_only || p.contains("panicked")) {
                            if bad.len() < 10 { bad.push((desc, p)); }
                        }
                    }
                }
            }
        }
    }
    (evaluated, bad)
}
