//! C07 witness family: PrettyDecimal::from_str / Display against an executable twin of the
//! Verus spec (vx/prelude/literal_spec.rs).  Enumerates every string over [0-9,.-] up to
//! a length bound, plus long-literal probes; reports inputs whose observed behaviour
//! contradicts the property statement.
use okane_core::syntax::pretty_decimal::{Format, PrettyDecimal};
use rust_decimal::Decimal;
use std::panic::catch_unwind;

const ALPHA: &[u8] = b"0123456789,.-";

#[derive(Debug, PartialEq, Clone, Copy)]
pub enum Style {
    None,
    Plain,
    Comma,
}

/// executable twin of wellformed/representable/value/style
pub fn spec(b: &[u8]) -> Option<(i128, u32, Style)> {
    let n = b.len();
    let p = if n > 0 && b[0] == b'-' { 1 } else { 0 };
    let d = b.iter().position(|c| *c == b'.').unwrap_or(n);
    let c0 = b.iter().position(|c| *c == b',').unwrap_or(n);
    for j in p..n {
        if !(b[j].is_ascii_digit() || b[j] == b',' || b[j] == b'.') {
            return None;
        }
    }
    for j in d + 1..n {
        if !b[j].is_ascii_digit() {
            return None;
        }
    }
    if !b.iter().any(|c| c.is_ascii_digit()) {
        return None;
    }
    if c0 < n {
        if !(p < c0 && c0 <= p + 3 && c0 < d && (d - c0) % 4 == 0) {
            return None;
        }
        for j in c0..d {
            if (b[j] == b',') != ((j - c0) % 4 == 0) {
                return None;
            }
        }
    }
    let mut m: i128 = 0;
    for c in b {
        if c.is_ascii_digit() {
            m = m.checked_mul(10)?.checked_add((*c - b'0') as i128)?;
        }
    }
    let frac = if d < n { (n - d - 1) as u32 } else { 0 };
    if m > 0xFFFF_FFFF_FFFF_FFFF_FFFF_FFFF || frac > 28 {
        return None;
    }
    let style = if c0 < n {
        Style::Comma
    } else if d - p >= 4 {
        Style::Plain
    } else {
        Style::None
    };
    Some((if p == 1 { -m } else { m }, frac, style))
}

fn style_of(f: Option<Format>) -> Style {
    match f {
        None => Style::None,
        Some(Format::Plain) => Style::Plain,
        Some(Format::Comma3Dot) => Style::Comma,
        Some(_) => Style::None,
    }
}

/// returns a description of the contradiction, if any
pub fn check_one(s: &str) -> Option<String> {
    let want = spec(s.as_bytes());
    let s2 = s.to_owned();
    let got = catch_unwind(move || s2.parse::<PrettyDecimal>());
    let got = match got {
        Err(_) => return Some(format!("from_str({s:?}) panicked")),
        Ok(g) => g,
    };
    match (want, got) {
        (None, Err(_)) => None,
        (None, Ok(pd)) => Some(format!(
            "from_str({s:?}) accepted a literal that is not well-formed/representable: value {} format {:?}",
            pd.value, pd.format
        )),
        (Some(_), Err(e)) => Some(format!("from_str({s:?}) rejected a well-formed literal: {e}")),
        (Some((m, sc, st)), Ok(pd)) => {
            if pd.value.mantissa() != m || pd.value.scale() != sc {
                return Some(format!(
                    "from_str({s:?}) = mantissa {} scale {}, written value is mantissa {m} scale {sc}",
                    pd.value.mantissa(),
                    pd.value.scale()
                ));
            }
            if style_of(pd.format) != st {
                return Some(format!("from_str({s:?}) format {:?}, expected {st:?}", pd.format));
            }
            // print . parse round trip: value, decimal places kept; grouping kept where there are thousands to group
            let pd2 = pd.clone();
            let printed = match catch_unwind(move || pd2.to_string()) {
                Err(_) => return Some(format!("to_string() of parsed {s:?} panicked")),
                Ok(p) => p,
            };
            match printed.parse::<PrettyDecimal>() {
                Err(e) => Some(format!("{s:?} prints as {printed:?} which does not parse back: {e}")),
                Ok(back) => {
                    if back.value != pd.value || back.value.scale() != pd.value.scale() {
                        Some(format!("{s:?} prints as {printed:?} = {} (scale {}), value was {} (scale {})",
                            back.value, back.value.scale(), pd.value, pd.value.scale()))
                    } else if m.abs() >= 1000 * 10i128.pow(sc) && style_of(back.format) != st {
                        Some(format!("{s:?} prints as {printed:?} with grouping style {:?}, was {st:?}", back.format))
                    } else {
                        None
                    }
                }
            }
        }
    }
}

pub fn run(args: &[String]) -> i32 {
    // args: max_len [explicit strings...]   |   --only <string>
    if args.first().map(|x| x == "--only").unwrap_or(false) {
        let s = args.get(1).cloned().unwrap_or_default();
        return match check_one(&s) {
            Some(why) => {
                println!("{}", serde_json::json!({"input": s, "contradiction": why}));
                println!("{}", serde_json::json!({"family": "c07", "evaluated": 1, "contradictions": 1}));
                1
            }
            None => {
                println!("{}", serde_json::json!({"family": "c07", "evaluated": 1, "contradictions": 0, "note": "input behaves as the property demands"}));
                0
            }
        };
    }
    let max_len: usize = args.first().and_then(|x| x.parse().ok()).unwrap_or(5);
    let mut evaluated = 0u64;
    let mut bad: Vec<(String, String)> = Vec::new();
    let mut probe = |s: &str, evaluated: &mut u64, bad: &mut Vec<(String, String)>| {
        *evaluated += 1;
        if let Some(why) = check_one(s) {
            if bad.len() < 20 {
                bad.push((s.to_owned(), why));
            }
        }
    };
    for s in &args[1.min(args.len())..] {
        probe(s, &mut evaluated, &mut bad);
    }
    let mut buf: Vec<u8> = Vec::new();
    fn rec(buf: &mut Vec<u8>, left: usize, f: &mut dyn FnMut(&str)) {
        f(std::str::from_utf8(buf).unwrap());
        if left == 0 {
            return;
        }
        for c in ALPHA {
            buf.push(*c);
            rec(buf, left - 1, f);
            buf.pop();
        }
    }
    rec(&mut buf, max_len, &mut |s| probe(s, &mut evaluated, &mut bad));
    // long literals: digit runs around the i128 / 96-bit / scale limits, with and without grouping
    for nd in [28usize, 29, 30, 38, 39, 40, 41, 45, 60] {
        let digits: String = "9".repeat(nd);
        let ones: String = "1".repeat(nd);
        for body in [digits.clone(), ones.clone(), format!("0.{digits}"), format!("0.{}", "0".repeat(nd)), format!("{ones}.5")] {
            for sign in ["", "-"] {
                probe(&format!("{sign}{body}"), &mut evaluated, &mut bad);
            }
        }
    }
    // boundaries of the accumulator and of the 96-bit mantissa
    for s in ["340282366920938463463374607431768211455", "340282366920938463463374607431768211456", "-340282366920938463463374607431768211455",
              "170141183460469231731687303715884105727", "170141183460469231731687303715884105728", "-170141183460469231731687303715884105728",
              "340,282,366,920,938,463,463,374,607,431,768,211,356", "3402823669209384634633746074317682114.55",
              "79228162514264337593543950335", "79228162514264337593543950336", "-79228162514264337593543950335", "7922816251426433759354395033.5",
              "0.0000000000000000000000000001", "0.00000000000000000000000000001"] {
        probe(s, &mut evaluated, &mut bad);
    }
    for s in ["1,234", "12,345.678", "0,000.05", "-0,000.05", "1,234,567.000001", "999,999,999,999,999,999,999,999,999",
              "79,228,162,514,264,337,593,543,950,335", "79,228,162,514,264,337,593,543,950,336", "1.2.3", "1.5,000", "12,50", "1,234,", "", "-", ".", "-.", ".5", "5.", "-.5"] {
        probe(s, &mut evaluated, &mut bad);
    }
    let _ = Decimal::ZERO;
    for (s, why) in &bad {
        println!("{}", serde_json::json!({"input": s, "contradiction": why}));
    }
    println!("{}", serde_json::json!({"family": "c07", "evaluated": evaluated, "contradictions": bad.len(), "max_len": max_len}));
    if bad.is_empty() { 0 } else { 1 }
}
