//! Witness family for C17 (bounded stand-in for the code between the contracted functions): layered configuration
//! documents through the real `load_from_yaml` + `ConfigSet::select`, and rewrite-rule lists through the real CSV import
//! (`Extractor`, `CsvMatcher`, `to_double_entry`), each against a twin written from the property statement.
use std::path::Path;

use okane::import::{self, Format};
use okane_core::syntax::{self, decoration::AsUndecorated};

// ---------------------------------------------------------------- part 1: layering
#[derive(Clone)]
struct Doc {
    path: &'static str,
    account: Option<&'static str>,
    operator: Option<&'static str>,
    rule_account: Option<&'static str>,
    /// `format` block: Some(None) = a block that leaves row_order to its default, Some(Some(x)) = a block that says `row_order: x`
    format: Option<Option<&'static str>>,
}

fn doc_yaml(d: &Doc) -> String {
    let mut s = format!("path: \"{}\"\n", d.path);
    if let Some(a) = d.account {
        s.push_str(&format!("account: {}\n", a));
    }
    if let Some(o) = d.operator {
        s.push_str(&format!("operator: {}\n", o));
    }
    if let Some(ro) = d.format {
        s.push_str("format:\n  date: \"%Y-%m-%d\"\n  fields:\n    date: Date\n    payee: Text\n    amount: Amount\n");
        if let Some(x) = ro { s.push_str(&format!("  row_order: {}\n", x)); }
    }
    if let Some(r) = d.rule_account {
        s.push_str(&format!("rewrite:\n  - matcher:\n      payee: x\n    account: {}\n", r));
    }
    s
}

fn layering(bad: &mut Vec<(String, String)>, evaluated: &mut u64) {
    // the base document carries the mandatory settings and matches every file used below (shortest path)
    let base = "path: \"/\"\nencoding: UTF-8\naccount: Base\naccount_type: asset\ncommodity: CHF\nrewrite:\n  - matcher:\n      payee: x\n    account: R:base\n";
    let pool = [
        Doc { path: "bank/", account: Some("A:bank"), operator: Some("O:bank"), rule_account: Some("R:bank"), format: None },
        Doc { path: "okane/", account: Some("A:okane"), operator: None, rule_account: Some("R:okane"), format: None },
        Doc { path: "checking/", account: Some("A:checking"), operator: Some("O:checking"), rule_account: None, format: None },
        Doc { path: "bank/okane/", account: None, operator: Some("O:bank-okane"), rule_account: Some("R:bank-okane"), format: None },
        Doc { path: "zz/", account: Some("A:zz"), operator: Some("O:zz"), rule_account: Some("R:zz"), format: None },
        Doc { path: "2024", account: Some("A:2024"), operator: None, rule_account: Some("R:2024"), format: None },
        Doc { path: "savings/", account: Some("A:savings"), operator: None, rule_account: Some("R:savings"), format: None },
        // ties: the same length as "okane/" (document order decides), and the very same path twice
        Doc { path: "/2024.", account: Some("A:tie"), operator: Some("O:tie"), rule_account: Some("R:tie"), format: None },
        Doc { path: "okane/", account: Some("A:okane2"), operator: None, rule_account: Some("R:okane2"), format: None },
        // a longer-path document that restates, verbatim, a rule it inherits from a shorter-path one: rule lists are
        // concatenated, never merged as sets (seed C17-j)
        Doc { path: "checking/", account: None, operator: None, rule_account: Some("R:base"), format: None },
        Doc { path: "bank/okane/", account: None, operator: None, rule_account: Some("R:bank"), format: None },
        // `format` is a scalar setting: the block of the longest matching path replaces an inherited one WHOLESALE - also when it spells out a
        // value that happens to be the default (seed C16-l: `row_order: old_to_new` in a sub-path was taken for "not given")
        Doc { path: "bank/", account: None, operator: None, rule_account: None, format: Some(Some("new_to_old")) },
        Doc { path: "bank/okane/", account: None, operator: None, rule_account: None, format: Some(Some("old_to_new")) },
        Doc { path: "checking/", account: None, operator: None, rule_account: None, format: Some(None) },
    ];
    let files = ["/bank/okane/checking/2024.csv", "/okane/checking/202109.csv", "/bank/savings/x.csv", "/zz/bank/2024/okane/f.csv", "/other/file.csv"];
    // every ordered selection of up to 3 pool documents, written after the base document
    let n = pool.len();
    let mut selections: Vec<Vec<usize>> = vec![vec![]];
    for a in 0..n {
        selections.push(vec![a]);
        for b in 0..n {
            if b == a { continue; }
            selections.push(vec![a, b]);
            for c in 0..n {
                if c == a || c == b { continue; }
                selections.push(vec![a, b, c]);
            }
        }
    }
    for sel in &selections {
        let mut yaml = String::from(base);
        for i in sel {
            yaml.push_str("---\n");
            yaml.push_str(&doc_yaml(&pool[*i]));
        }
        let set = match import::config::load_from_yaml(yaml.as_bytes()) {
            Ok(s) => s,
            Err(e) => { bad.push((yaml, format!("config rejected: {}", e))); continue; }
        };
        for f in files {
            *evaluated += 1;
            // twin: documents whose path occurs in the file path, shortest path first (equal lengths: document order);
            // scalars: the last document that sets one wins; rules: concatenated in that order
            let mut matching: Vec<(usize, usize)> = vec![(1, 0)];   // (path length, position); base is position 0
            for (pos, i) in sel.iter().enumerate() {
                if f.contains(pool[*i].path) {
                    matching.push((pool[*i].path.len(), pos + 1));
                }
            }
            matching.sort();
            let mut account = "Base";
            let mut operator: Option<&str> = None;
            let mut rules: Vec<&str> = Vec::new();
            let mut row_order: Option<&str> = None;   // None: no matching document has a format block (the base document has none)
            for (_, pos) in &matching {
                if *pos == 0 { rules.push("R:base"); continue; }
                let d = &pool[sel[*pos - 1]];
                if let Some(a) = d.account { account = a; }
                if let Some(o) = d.operator { operator = Some(o); }
                if let Some(r) = d.rule_account { rules.push(r); }
                if let Some(ro) = d.format { row_order = Some(ro.unwrap_or("old_to_new")); }
            }
            let desc = format!("documents:\n{}\nfile: {}", yaml, f);
            match set.select(Path::new(f)) {
                Ok(Some(e)) => {
                    let got_rules: Vec<&str> = e.rewrite.iter().map(|r| r.account.as_deref().unwrap_or("-")).collect();
                    let got_order = match format!("{:?}", e.format.row_order).as_str() { "NewToOld" => "new_to_old", _ => "old_to_new" };
                    if let Some(want_order) = row_order.filter(|w| *w != got_order) {
                        if bad.len() < 8 {
                            bad.push((desc.clone(), format!("selected format.row_order = {}; the format block of the longest matching path says {}", got_order, want_order)));
                        }
                    }
                    if e.account != account || e.operator.as_deref() != operator || got_rules != rules {
                        if bad.len() < 8 {
                            bad.push((desc, format!("selected account={} operator={:?} rules={:?}; merging the matching documents shortest path first gives account={} operator={:?} rules={:?}", e.account, e.operator, got_rules, account, operator, rules)));
                        }
                    }
                }
                Ok(None) => bad.push((desc, "no configuration selected although the base document matches".into())),
                Err(e) => bad.push((desc, format!("select failed: {}", e))),
            }
        }
    }
}

// ---------------------------------------------------------------- part 2: rewrite rules
#[derive(Clone, Copy, Debug)]
enum Pat {
    /// case-insensitive substring
    Lit(&'static str),
    /// `^card (?P<code>[0-9]+) (?P<payee>.+)$`
    CardCodePayee,
    /// `^(?P<payee>[a-z]+) ag$`
    StripAg,
    /// `^ref(?P<code>[0-9]*):(?P<payee>.*)$` - both groups can match the EMPTY string: a group that took part in the match sets payee / code
    /// even when it matched nothing (seed C17-l)
    RefMaybeEmpty,
    /// `^$` - matches only an empty payee (as left by the pattern above)
    EmptyPayee,
}

impl Pat {
    fn regex(&self) -> String {
        match self {
            Pat::Lit(s) => s.to_string(),
            Pat::CardCodePayee => "^card (?P<code>[0-9]+) (?P<payee>.+)$".into(),
            Pat::StripAg => "^(?P<payee>[a-z]+) ag$".into(),
            Pat::RefMaybeEmpty => "^ref(?P<code>[0-9]*):(?P<payee>.*)$".into(),
            Pat::EmptyPayee => "^$".into(),
        }
    }
    /// Some((payee capture, code capture)) when the pattern matches `text`
    fn captures(&self, text: &str) -> Option<(Option<String>, Option<String>)> {
        let lower = text.to_lowercase();
        match self {
            Pat::Lit(s) => if lower.contains(&s.to_lowercase()) { Some((None, None)) } else { None },
            Pat::CardCodePayee => {
                if !lower.starts_with("card ") { return None; }
                let rest = &text[5..];
                let digits: String = rest.chars().take_while(|c| c.is_ascii_digit()).collect();
                if digits.is_empty() { return None; }
                let after = &rest[digits.len()..];
                if !after.starts_with(' ') || after.len() < 2 { return None; }
                Some((Some(after[1..].to_owned()), Some(digits)))
            }
            Pat::RefMaybeEmpty => {
                if !lower.starts_with("ref") { return None; }
                let rest = &text[3..];
                let digits: String = rest.chars().take_while(|c| c.is_ascii_digit()).collect();
                let after = &rest[digits.len()..];
                if !after.starts_with(':') { return None; }
                Some((Some(after[1..].to_owned()), Some(digits)))
            }
            Pat::EmptyPayee => if text.is_empty() { Some((None, None)) } else { None },
            Pat::StripAg => {
                if lower.len() < 4 || !lower.ends_with(" ag") { return None; }
                let head = &text[..text.len() - 3];
                if head.is_empty() || !head.chars().all(|c| c.is_ascii_alphabetic()) { return None; }
                Some((Some(head.to_owned()), None))
            }
        }
    }
}

#[derive(Clone, Debug)]
struct And { payee: Option<Pat>, category: Option<Pat> }
#[derive(Clone, Debug)]
struct Rule { or: Vec<And>, pending: bool, payee: Option<&'static str>, account: Option<&'static str> }

fn rule_yaml(r: &Rule) -> String {
    let mut s = String::from("  - matcher:\n");
    let field = |a: &And, indent: &str, first: &str| {
        let mut out = String::new();
        let mut lead = first.to_owned();
        if let Some(p) = a.payee { out.push_str(&format!("{}payee: \"{}\"\n", lead, p.regex())); lead = indent.to_owned(); }
        if let Some(p) = a.category { out.push_str(&format!("{}category: \"{}\"\n", lead, p.regex())); }
        out
    };
    if r.or.len() == 1 {
        s.push_str(&field(&r.or[0], "      ", "      "));
    } else {
        for a in &r.or {
            s.push_str(&field(a, "        ", "      - "));
        }
    }
    if r.pending { s.push_str("    pending: true\n"); }
    if let Some(p) = r.payee { s.push_str(&format!("    payee: {}\n", p)); }
    if let Some(a) = r.account { s.push_str(&format!("    account: {}\n", a)); }
    s
}

fn rules_part(bad: &mut Vec<(String, String)>, evaluated: &mut u64, thorough: bool) {
    let lit = |s: &'static str| And { payee: Some(Pat::Lit(s)), category: None };
    let pool: Vec<Rule> = vec![
        Rule { or: vec![And { payee: Some(Pat::CardCodePayee), category: None }], pending: false, payee: None, account: None },
        Rule { or: vec![And { payee: Some(Pat::StripAg), category: None }], pending: false, payee: None, account: None },
        Rule { or: vec![lit("migros")], pending: false, payee: Some("Migros"), account: Some("Expenses:Grocery") },
        Rule { or: vec![lit("migros")], pending: true, payee: None, account: Some("Expenses:Food") },
        Rule { or: vec![lit("nomatch"), And { payee: Some(Pat::Lit("coop")), category: Some(Pat::Lit("shop")) }], pending: false, payee: None, account: Some("Expenses:Coop") },
        Rule { or: vec![And { payee: None, category: Some(Pat::Lit("salary")) }], pending: true, payee: Some("Employer"), account: Some("Income:Salary") },
        Rule { or: vec![lit("Migros"), lit("Employer")], pending: false, payee: None, account: None },
        Rule { or: vec![And { payee: Some(Pat::Lit("coop")), category: Some(Pat::Lit("travel")) }], pending: false, payee: None, account: Some("Expenses:Travel") },
        Rule { or: vec![And { payee: Some(Pat::RefMaybeEmpty), category: None }], pending: false, payee: None, account: None },
        Rule { or: vec![And { payee: Some(Pat::EmptyPayee), category: None }], pending: false, payee: Some("Nameless"), account: Some("Expenses:Nameless") },
    ];
    // (payee, category, amount)
    let rows: [(&str, &str, &str); 8] = [
        ("ref77:", "misc", "-1.00"),
        ("ref:Kiosk", "misc", "-2.00"),
        ("card 1234 MIGROS AG", "shop", "-10.00"),
        ("Coop City", "shop", "-20.00"),
        ("ACME GmbH", "salary", "300.00"),
        ("Coop Pronto", "fuel", "-40.00"),
        ("Unknown Shop", "misc", "-5.00"),
        ("Refund X", "misc", "6.00"),
    ];
    let n = pool.len();
    let mut lists: Vec<Vec<usize>> = vec![vec![]];
    for a in 0..n {
        lists.push(vec![a]);
        for b in 0..n {
            lists.push(vec![a, b]);
            if thorough || (a + b) % 3 == 0 {
                for c in 0..n {
                    lists.push(vec![a, b, c]);
                }
            }
        }
    }
    for l in &lists {
        let mut yaml = String::from("path: r.csv\nencoding: UTF-8\naccount: Acct:Main\naccount_type: asset\ncommodity: CHF\nformat:\n  date: \"%Y-%m-%d\"\n  fields:\n    date: Date\n    payee: Text\n    category: Cat\n    amount: Amount\n");
        if !l.is_empty() {
            yaml.push_str("rewrite:\n");
            for i in l { yaml.push_str(&rule_yaml(&pool[*i])); }
        }
        let mut csv = String::from("Date,Text,Cat,Amount\n");
        for (i, r) in rows.iter().enumerate() {
            csv.push_str(&format!("2024-05-{:02},{},{},{}\n", i + 1, r.0, r.1, r.2));
        }
        let desc = format!("config:\n{}\ncsv:\n{}", yaml, csv);
        let set = match import::config::load_from_yaml(yaml.as_bytes()) { Ok(s) => s, Err(e) => { bad.push((desc, format!("config rejected: {}", e))); continue; } };
        let entry = match set.select(Path::new("r.csv")) { Ok(Some(e)) => e, _ => { bad.push((desc, "no config selected".into())); continue; } };
        let txns = match import::import(csv.as_bytes(), Format::Csv, &entry) { Ok(t) => t, Err(e) => { bad.push((desc, format!("import failed: {}", e))); continue; } };
        if txns.len() != rows.len() { bad.push((desc, format!("{} transactions for {} rows", txns.len(), rows.len()))); continue; }
        for (ri, row) in rows.iter().enumerate() {
            *evaluated += 1;
            // twin, straight from the statement
            let mut payee = row.0.to_owned();
            let mut code: Option<String> = None;
            let mut account: Option<&str> = None;
            let mut cleared_by_rule = false;
            for i in l {
                let r = &pool[*i];
                // OR-list: first element all of whose fields match; its captures apply
                let mut hit: Option<(Option<String>, Option<String>)> = None;
                for a in &r.or {
                    let mut caps: (Option<String>, Option<String>) = (None, None);
                    let mut ok = true;
                    if let Some(p) = a.payee {
                        match p.captures(&payee) { Some(c) => caps = c, None => ok = false }
                    }
                    if ok {
                        if let Some(p) = a.category {
                            if p.captures(row.1).is_none() { ok = false; }
                        }
                    }
                    if ok { hit = Some(caps); break; }
                }
                if let Some((cp, cc)) = hit {
                    if let Some(p) = cp { payee = p; }
                    if let Some(c) = cc { code = Some(c); }
                    if let Some(p) = r.payee { payee = p.to_owned(); }
                    if let Some(a) = r.account {
                        account = Some(a);
                        if !r.pending { cleared_by_rule = true; }
                    }
                }
            }
            let positive = !row.2.starts_with('-');
            let want_account = account.unwrap_or(if positive { "Income:Unknown" } else { "Expenses:Unknown" });
            let want_pending = !cleared_by_rule;
            let de = match txns[ri].to_double_entry(&entry.account) { Ok(x) => x, Err(e) => { bad.push((desc.clone(), format!("row {}: {}", ri, e))); continue; } };
            let other: Vec<&syntax::plain::Posting> = de.posts.iter().filter(|p| p.account.as_undecorated() != "Acct:Main").collect();
            let got_payee = de.payee.as_undecorated().to_string();
            let got_code = de.code.as_ref().map(|c| c.to_string());
            let got_account = other.first().map(|p| p.account.as_undecorated().to_string()).unwrap_or_default();
            let got_pending = other.first().map(|p| p.clear_state == syntax::ClearState::Pending).unwrap_or(false);
            if got_payee != payee || got_code != code || got_account != want_account || got_pending != want_pending {
                if bad.len() < 8 {
                    bad.push((format!("{}\nrow {}: {:?}", desc, ri, row), format!("imported payee={:?} code={:?} account={} pending={}; applying the rules in list order gives payee={:?} code={:?} account={} pending={}", got_payee, got_code, got_account, got_pending, payee, code, want_account, want_pending)));
                }
            }
        }
    }
}

pub fn run(args: &[String]) -> i32 {
    let thorough = args.first().map(|x| x == "thorough").unwrap_or(false);
    let mut bad: Vec<(String, String)> = Vec::new();
    let mut evaluated = 0u64;
    layering(&mut bad, &mut evaluated);
    rules_part(&mut bad, &mut evaluated, thorough);
    for (s, why) in bad.iter().take(8) {
        println!("{}", serde_json::json!({"input": s, "contradiction": why}));
    }
    println!("{}", serde_json::json!({"family": "c17", "evaluated": evaluated, "contradictions": bad.len()}));
    if bad.is_empty() { 0 } else { 1 }
}
