//! Witness family for C09 (bounded): conversion rates through the real `Ledger::eval("1 X", date, exchange: Y)` against a
//! brute-force reading of the statement over every subset (size <= 4) of a pool of price facts on four commodities:
//! only prices dated on or before the date, the most recent one per pair, a recorded price also serves the opposite
//! direction as its reciprocal, price-DB prices replace ledger-derived prices of the same pair, among all chains the one
//! with the fewest ledger-derived steps, then the fewest steps, then the least stale (maximum age of a step) price; X into
//! X is the identity; no chain = failure.  Chains that tie on all three criteria but imply different rates are left
//! undecided by the statement and are skipped.
use std::collections::HashMap;
use std::path::PathBuf;

use bumpalo::Bump;
use chrono::NaiveDate;
use okane_core::{load, report};
use rust_decimal::Decimal;

fn d(s: &str) -> Decimal { s.parse().unwrap() }
fn day(n: u32) -> NaiveDate { NaiveDate::from_ymd_opt(2024, 1, n).unwrap() }

#[derive(Clone, Copy, Debug, PartialEq)]
enum Src { Ledger, Db }
/// on `day`, 1 `from` = `rate` `to`
#[derive(Clone, Copy, Debug)]
/// `form` (ledger facts): 0 `1 A @ r B`, 1 `-2 A @@ 2r B`, 2 `1 A {r B}`, 3 `3 A {{3r B}}`, 4 implied exchange `2 A` / `-2r B`
struct Fact { src: Src, day: u32, from: usize, to: usize, rate: &'static str, form: u8 }

const NAMES: [&str; 4] = ["AAA", "BBB", "CCC", "DDD"];

fn render(facts: &[Fact]) -> (String, String) {
    let mut ledger = String::new();
    // make every commodity known without saying anything about prices
    for n in NAMES {
        ledger.push_str(&format!("2024/01/01 known\n    X    1 {}\n    Y    -1 {}\n\n", n, n));
    }
    let mut db = String::new();
    for f in facts {
        match f.src {
            Src::Ledger => {
                let r = d(f.rate);
                let (a, b) = (NAMES[f.from], NAMES[f.to]);
                match f.form {
                    0 => ledger.push_str(&format!("2024/01/{:02} cost\n    X    1 {} @ {} {}\n    Y\n\n", f.day, a, r, b)),
                    1 => ledger.push_str(&format!("2024/01/{:02} total cost\n    X    -2 {} @@ {} {}\n    Y\n\n", f.day, a, r * d("2"), b)),
                    2 => ledger.push_str(&format!("2024/01/{:02} lot\n    X    1 {} {{{} {}}}\n    Y\n\n", f.day, a, r, b)),
                    3 => ledger.push_str(&format!("2024/01/{:02} total lot\n    X    3 {} {{{{{} {}}}}}\n    Y\n\n", f.day, a, r * d("3"), b)),
                    _ => ledger.push_str(&format!("2024/01/{:02} implied\n    X    2 {}\n    Y    -{} {}\n\n", f.day, a, r * d("2"), b)),
                }
            }
            Src::Db => db.push_str(&format!("P 2024/01/{:02} {} {} {}\n", f.day, NAMES[f.from], f.rate, NAMES[f.to])),
        }
    }
    (ledger, db)
}

/// Some(Some(rate)): decided; Some(None): no chain; None: tie between chains implying different rates (undecided)
fn twin(facts: &[Fact], from: usize, to: usize, at: u32) -> Option<Option<Decimal>> {
    if from == to { return Some(Some(Decimal::ONE)); }
    // per unordered pair: the facts that count (DB replaces ledger), then the most recent one on or before `at`
    // edge[a][b] = Some((is_ledger, age, rate of 1 a in b))
    let mut edge: [[Option<(bool, u32, Decimal)>; 4]; 4] = [[None; 4]; 4];
    for a in 0..4 {
        for b in 0..4 {
            if a == b { continue; }
            let pair: Vec<&Fact> = facts.iter().filter(|f| (f.from == a && f.to == b) || (f.from == b && f.to == a)).collect();
            let has_db = pair.iter().any(|f| f.src == Src::Db);
            let usable: Vec<&&Fact> = pair.iter().filter(|f| (f.src == Src::Db) == has_db && f.day <= at).collect();
            let latest = usable.iter().max_by_key(|f| f.day);
            if let Some(f) = latest {
                let r = d(f.rate);
                let rate_ab = if f.from == a { r } else { Decimal::ONE / r };
                edge[a][b] = Some((!has_db, at - f.day, rate_ab));
            }
        }
    }
    // all simple paths from `from` to `to`
    let mut best: Option<((usize, usize, u32), Vec<Decimal>)> = None;
    let mut stack: Vec<(Vec<usize>, usize, u32, Decimal)> = vec![(vec![from], 0, 0, Decimal::ONE)];
    while let Some((path, ledger_steps, stale, rate)) = stack.pop() {
        let last = *path.last().unwrap();
        if last == to {
            let key = (ledger_steps, path.len() - 1, stale);
            match &mut best {
                None => best = Some((key, vec![rate])),
                Some((k, rates)) => {
                    if key < *k { *k = key; *rates = vec![rate]; } else if key == *k { rates.push(rate); }
                }
            }
            continue;
        }
        for n in 0..4 {
            if path.contains(&n) { continue; }
            if let Some((is_ledger, age, r)) = edge[last][n] {
                let mut p = path.clone();
                p.push(n);
                stack.push((p, ledger_steps + is_ledger as usize, stale.max(age), rate * r));
            }
        }
    }
    match best {
        None => Some(None),
        Some((_, rates)) => if rates.iter().all(|r| *r == rates[0]) { Some(Some(rates[0])) } else { None },
    }
}

pub fn run(args: &[String]) -> i32 {
    let thorough = args.first().map(|x| x == "thorough").unwrap_or(false);
    let mut bad: Vec<(String, String)> = Vec::new();
    let mut evaluated = 0u64;
    let mut undecided = 0u64;
    let f = |src, day, from, to, rate, form| Fact { src, day, from, to, rate, form };
    let pool = [
        f(Src::Ledger, 5, 0, 1, "2", 0),
        f(Src::Ledger, 10, 0, 1, "4", 1),
        f(Src::Ledger, 5, 1, 2, "5", 2),
        f(Src::Db, 7, 1, 2, "0.5", 0),
        f(Src::Ledger, 8, 2, 3, "2", 4),
        f(Src::Ledger, 3, 0, 3, "8", 3),
        f(Src::Db, 9, 0, 2, "10", 0),
        f(Src::Ledger, 20, 1, 0, "0.25", 0),
        f(Src::Db, 12, 3, 2, "0.8", 0),
    ];
    // a chain of three steps whose MIDDLE price changes (or first appears) after the latest price of both end commodities:
    // the rate table belongs to the query date, not to the date either end was last priced (seed C10-j)
    let pool2 = [
        f(Src::Ledger, 3, 0, 1, "2", 0),
        // (rates are powers of two so that reciprocals and products are exact in whatever order they are taken)
        f(Src::Ledger, 4, 1, 2, "4", 0),
        f(Src::Ledger, 15, 1, 2, "8", 0),
        f(Src::Ledger, 6, 2, 3, "0.5", 0),
        f(Src::Db, 18, 2, 3, "4", 0),
    ];
    let dir = tempfile::tempdir().expect("tempdir");
    for (pool_no, pool, dates) in [(1u32, &pool[..], [1u32, 5, 7, 9, 12, 25]), (2u32, &pool2[..], [2u32, 5, 10, 16, 17, 20])] {
    let n = pool.len();
    let max_size = if thorough { 5 } else { 4 };
    for mask in 1u32..(1 << n) {
        if mask.count_ones() > max_size { continue; }
        let mask_id = mask + (pool_no << 16);
        let facts: Vec<Fact> = (0..n).filter(|i| mask & (1 << i) != 0).map(|i| pool[i]).collect();
        let (ledger_text, db_text) = render(&facts);
        let db_path = dir.path().join(format!("p{}.db", mask_id));
        std::fs::write(&db_path, &db_text).unwrap();
        let arena = Bump::new();
        let mut ctx = report::ReportContext::new(&arena);
        let mut files: HashMap<PathBuf, Vec<u8>> = HashMap::new();
        files.insert(PathBuf::from("/main.ledger"), ledger_text.as_bytes().to_vec());
        let loader = load::Loader::new(PathBuf::from("/main.ledger"), load::FakeFileSystem::from(files));
        let opts = report::ProcessOptions { price_db_path: if db_text.is_empty() { None } else { Some(db_path.clone()) } };
        let mut ledger = match report::process(&mut ctx, loader, &opts) {
            Ok(l) => l,
            Err(e) => { bad.push((format!("{}\nprice db:\n{}", ledger_text, db_text), format!("ledger rejected: {}", e))); continue; }
        };
        for at in dates {
            for from in 0..4 {
                for to in 0..4 {
                    let want = match twin(&facts, from, to, at) { Some(w) => w, None => { undecided += 1; continue; } };
                    evaluated += 1;
                    let ectx = report::query::EvalContext { date: day(at), exchange: Some(NAMES[to].to_owned()) };
                    let got = ledger.eval(&ctx, &format!("1 {}", NAMES[from]), &ectx);
                    let got_rate: Result<Decimal, String> = match got {
                        Err(e) => Err(format!("{}", e)),
                        Ok(a) => {
                            let v: Vec<String> = a.iter().map(|s| format!("{}", s)).collect();
                            if v.len() == 1 && v[0].ends_with(&format!(" {}", NAMES[to])) {
                                Ok(v[0].split(' ').next().unwrap().parse().unwrap())
                            } else {
                                Err(format!("result is not a single amount in {}: {:?}", NAMES[to], v))
                            }
                        }
                    };
                    let problem = match (&want, &got_rate) {
                        (None, Err(_)) => None,
                        (None, Ok(r)) => Some(format!("no chain of prices dated on or before the date exists, but the conversion gave {}", r)),
                        (Some(w), Err(e)) => Some(format!("a chain exists (rate {}), but the conversion failed: {}", w, e)),
                        (Some(w), Ok(r)) => if w == r { None } else { Some(format!("1 {} = {} {}; the statement's chain (fewest ledger steps, fewest steps, least stale; latest price on or before the date per step; DB over ledger) gives {}", NAMES[from], r, NAMES[to], w)) },
                    };
                    if let Some(p) = problem {
                        if bad.len() < 10 {
                            bad.push((format!("{}price db:\n{}query: eval '1 {}' --date 2024-01-{:02} -X {}", ledger_text, db_text, NAMES[from], at, NAMES[to]), p));
                        }
                    }
                }
            }
        }
    }
    }
    for (s, why) in bad.iter().take(10) {
        println!("{}", serde_json::json!({"input": s, "contradiction": why}));
    }
    println!("{}", serde_json::json!({"family": "c09", "evaluated": evaluated, "undecided_ties_skipped": undecided, "contradictions": bad.len()}));
    if bad.is_empty() { 0 } else { 1 }
}
