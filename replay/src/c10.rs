//! Witness family for C10 (bounded): `balance -X T` (up to date at several report dates, and historical) through the real
//! `Ledger::balance` against a twin written from the statement: every holding of every account converted exactly once at
//! the latest price on or before the date (direct ledger prices only, so the price search has nothing to choose), amounts
//! already in T untouched, a missing rate fails the whole query, the result rounded only to T's declared precision.
use std::collections::{BTreeMap, HashMap};
use std::path::PathBuf;

use bumpalo::Bump;
use chrono::NaiveDate;
use okane_core::{load, report};
use rust_decimal::{Decimal, RoundingStrategy};

fn d(s: &str) -> Decimal { s.parse().unwrap() }
fn day(n: u32) -> NaiveDate { NaiveDate::from_ymd_opt(2024, 1, n).unwrap() }

/// one purchase: `account  qty commodity @ price T` against `Cash` (omitted amount) on `date`
#[derive(Clone)]
struct Buy { date: u32, account: &'static str, qty: Decimal, commodity: &'static str, price: Option<Decimal> }

fn render(buys: &[Buy], t_precision: bool) -> String {
    let mut s = String::new();
    if t_precision {
        s.push_str("commodity T\n    format 1,000.00 T\n\n");
    }
    for (i, b) in buys.iter().enumerate() {
        s.push_str(&format!("2024/01/{:02} buy{}\n", b.date, i));
        match b.price {
            Some(p) => s.push_str(&format!("    {}    {} {} @ {} T\n    Cash\n\n", b.account, b.qty, b.commodity, p)),
            None => s.push_str(&format!("    {}    {} {}\n    Equity    {} {}\n\n", b.account, b.qty, b.commodity, -b.qty, b.commodity)),
        }
    }
    s
}

type Bal = BTreeMap<String, Decimal>;

/// Some(per-account value in T) or None when some needed rate is missing
fn twin(all_buys: &[Buy], now: Option<NaiveDate>, t_precision: bool, range: (Option<u32>, Option<u32>)) -> Option<Bal> {
    // prices come from the whole ledger; only transactions dated in [start, end) are reported
    let in_range: Vec<Buy> = all_buys.iter().filter(|b| range.0.map(|s| s <= b.date).unwrap_or(true) && range.1.map(|e| b.date < e).unwrap_or(true)).cloned().collect();
    // direct prices commodity -> [(date, price in T)]
    let mut prices: HashMap<&str, Vec<(u32, Decimal)>> = HashMap::new();
    for b in all_buys {
        if let Some(p) = b.price {
            prices.entry(b.commodity).or_default().push((b.date, p));
        }
    }
    let rate = |c: &str, at: NaiveDate| -> Option<Decimal> {
        if c == "T" { return Some(Decimal::ONE); }
        // the most recent price dated on or before `at`; among prices of the same day the last written
        let mut best: Option<(u32, Decimal)> = None;
        for (dt, p) in prices.get(c)? {
            if day(*dt) <= at && best.map(|b| b.0 <= *dt).unwrap_or(true) {
                best = Some((*dt, *p));
            }
        }
        best.map(|b| b.1)
    };
    // postings: (date, account, qty, commodity)
    let mut postings: Vec<(u32, &str, Decimal, &str)> = Vec::new();
    for b in &in_range {
        postings.push((b.date, b.account, b.qty, b.commodity));
        match b.price {
            Some(p) => postings.push((b.date, "Cash", -(b.qty * p), "T")),
            None => postings.push((b.date, "Equity", -b.qty, b.commodity)),
        }
    }
    let mut out = Bal::new();
    match now {
        Some(at) => {
            // holdings per account and commodity, each converted once at the report date
            let mut hold: BTreeMap<(&str, &str), Decimal> = BTreeMap::new();
            for (_, a, q, c) in &postings {
                *hold.entry((a, c)).or_default() += *q;
            }
            for ((a, c), q) in hold {
                if q.is_zero() { continue; }
                let r = rate(c, at)?;
                *out.entry(a.to_owned()).or_default() += q * r;
            }
        }
        None => {
            for (dt, a, q, c) in &postings {
                let r = rate(c, day(*dt))?;
                *out.entry((*a).to_owned()).or_default() += *q * r;
            }
        }
    }
    if t_precision {
        for v in out.values_mut() {
            *v = v.round_dp_with_strategy(2, RoundingStrategy::MidpointNearestEven);
        }
    }
    out.retain(|_, v| !v.is_zero());
    Some(out)
}

fn real(text: &str, now: Option<NaiveDate>, range: (Option<u32>, Option<u32>)) -> Result<Bal, String> {
    let arena = Bump::new();
    let mut ctx = report::ReportContext::new(&arena);
    let mut files: HashMap<PathBuf, Vec<u8>> = HashMap::new();
    files.insert(PathBuf::from("/main.ledger"), text.as_bytes().to_vec());
    let loader = load::Loader::new(PathBuf::from("/main.ledger"), load::FakeFileSystem::from(files));
    let mut ledger = report::process(&mut ctx, loader, &report::ProcessOptions::default()).map_err(|e| format!("ledger rejected: {}", e))?;
    let target = ctx.commodity("T").ok_or("no commodity T")?;
    let strategy = match now { Some(now) => report::query::ConversionStrategy::UpToDate { now }, None => report::query::ConversionStrategy::Historical };
    let q = report::query::BalanceQuery { conversion: Some(report::query::Conversion { strategy, target }), date_range: report::query::DateRange { start: range.0.map(day), end: range.1.map(day) } };
    let b = ledger.balance(&ctx, &q).map_err(|e| format!("{}", e))?;
    let mut out = Bal::new();
    for (a, am) in b.into_owned().into_vec() {
        for sa in am.iter() {
            let s = format!("{}", sa);
            let mut it = s.splitn(2, ' ');
            let v: Decimal = it.next().unwrap().parse().unwrap();
            let c = it.next().unwrap_or("");
            if c != "T" {
                return Err(format!("UNCONVERTED {} {} left in account {}", v, c, a.as_str()));
            }
            if !v.is_zero() {
                *out.entry(a.as_str().to_owned()).or_default() += v;
            }
        }
    }
    Ok(out)
}

/// a holding that needs a chain of three rates (EUR -> CHF -> USD -> T, one chain only, so that C09 has nothing to choose), whose
/// middle rate changes after the latest price of both end commodities: every report date uses the rates as of THAT date (seed C10-j).
/// Expected values are written out by hand.
fn indirect(bad: &mut Vec<(String, String)>, evaluated: &mut u64) {
    let text = "2024/01/03 p1\n    X    1 EUR @ 2 CHF\n    Y\n\n2024/01/04 p2\n    X    1 CHF @ 5 USD\n    Y\n\n2024/01/06 p3\n    X    1 USD @ 3 T\n    Y\n\n\
2024/01/12 hold\n    H    10 EUR\n    Equity    -10 EUR\n\n2024/01/15 p4\n    X    1 CHF @ 7 USD\n    Y\n\n2024/01/17 hold more\n    H    1 EUR\n    Equity    -1 EUR\n\n";
    // (report date or historical, expected value of account H in T; None = a rate is missing)
    // --historical is asked for the transactions from the 12th on (the pricing transactions before that hold commodities that have no rate yet on their own dates)
    let cases: [(Option<u32>, Option<&str>); 5] = [(Some(5), None), (Some(10), Some("330")), (Some(14), Some("330")), (Some(16), Some("462")), (None, Some("342"))];
    for (now, want) in cases {
        *evaluated += 1;
        let got = real(text, now.map(day), if now.is_none() { (Some(12), None) } else { (None, None) });
        let desc = format!("{}query: balance -X T {}", text, match now { Some(x) => format!("--now 2024-01-{:02}", x), None => "--historical --start 2024-01-12".into() });
        let problem = match (want, &got) {
            (None, Err(e)) if !e.starts_with("ledger rejected") => None,
            (None, Ok(g)) => Some(format!("no rate for USD in T exists on that date but the query succeeded with {:?}", g)),
            (_, Err(e)) => Some(format!("every needed rate is available on the date but the query failed: {}", e)),
            (Some(w), Ok(g)) => if g.get("H") == Some(&d(w)) { None } else { Some(format!("account H is reported as {:?} T; 11 EUR through EUR -> CHF -> USD -> T at the rates of the date is {} T", g.get("H"), w)) },
        };
        if let Some(p) = problem { if bad.len() < 10 { bad.push((desc, p)); } }
    }
}

pub fn run(_args: &[String]) -> i32 {
    let mut bad: Vec<(String, String)> = Vec::new();
    let mut evaluated = 0u64;
    let b = |date, account, qty: &str, commodity, price: Option<&str>| Buy { date, account, qty: d(qty), commodity, price: price.map(d) };
    let scenarios: Vec<Vec<Buy>> = vec![
        // two prices of X over time, one of Y, holdings in T itself, two accounts
        vec![b(5, "A", "10", "X", Some("3")), b(10, "A", "4", "Y", Some("2.5")), b(15, "B", "5", "X", Some("4")), b(15, "A", "7", "T", None), b(20, "B", "-2", "Y", Some("2.75"))],
        // a commodity without any price (Z): every -X query over an account holding it must fail
        vec![b(5, "A", "10", "X", Some("3")), b(6, "B", "1", "Z", None), b(7, "A", "2", "Z", None)],
        // sub-precision products: rounded once, at the end, to T's precision only
        vec![b(5, "A", "3", "X", Some("3.3333")), b(6, "A", "7", "X", Some("3.3333")), b(7, "B", "0.5", "Y", Some("0.125")), b(8, "B", "0.25", "Y", Some("0.125"))],
        // every account holds some T next to another commodity: holding T already never excuses the rest of an account from conversion (seed C10-m)
        vec![b(5, "A", "10", "X", Some("3")), b(6, "A", "7", "T", None), b(7, "B", "4", "Y", Some("2.5")), b(8, "B", "5", "T", None)],
        vec![b(5, "A", "10", "X", Some("3")), b(6, "A", "7", "T", None), b(7, "A", "2", "Z", None), b(8, "B", "5", "T", None)],
        // a holding that cancels to zero in a priced commodity, and two prices on the same day (the later written one wins)
        vec![b(5, "A", "10", "X", Some("3")), b(6, "A", "-10", "X", Some("3")), b(9, "B", "1", "Y", Some("2")), b(9, "B", "1", "Y", Some("6"))],
    ];
    let dates: [Option<u32>; 7] = [None, Some(1), Some(5), Some(9), Some(12), Some(15), Some(28)];
    for sc in &scenarios {
        for scale in [d("1"), d("2"), d("-3")] {
            let buys: Vec<Buy> = sc.iter().map(|x| Buy { qty: x.qty * scale, ..x.clone() }).collect();
            for t_precision in [false, true] {
                let text = render(&buys, t_precision);
                for now in dates {
                  for range in [(None, None), (Some(6), None), (None, Some(15)), (Some(6), Some(16)), (Some(21), Some(25))] {
                    if range != (None, None) && scale != d("1") { continue; }
                    evaluated += 1;
                    let now_d = now.map(day);
                    let want = twin(&buys, now_d, t_precision, range);
                    let got = real(&text, now_d, range);
                    let desc = format!("{}query: balance -X T {} --start {:?} --end {:?}", text, match now_d { Some(x) => format!("--now {}", x), None => "--historical".into() }, range.0, range.1);
                    let problem = match (&want, &got) {
                        (_, Err(e)) if e.starts_with("ledger rejected") => Some(e.clone()),
                        (_, Err(e)) if e.starts_with("UNCONVERTED") => Some(format!("an amount was left unconverted: {}", e)),
                        (None, Ok(g)) => Some(format!("a needed rate is unavailable but the query succeeded with {:?}", g)),
                        (None, Err(_)) => None,
                        (Some(w), Err(e)) => Some(format!("every needed rate is available (expected {:?}) but the query failed: {}", w, e)),
                        (Some(w), Ok(g)) => if w == g { None } else { Some(format!("converted report {:?} differs from the sum of each holding converted once at the latest price on or before the date {:?}", g, w)) },
                    };
                    if let Some(p) = problem {
                        if bad.len() < 10 { bad.push((desc, p)); }
                    }
                  }
                }
            }
        }
    }
    indirect(&mut bad, &mut evaluated);
    for (s, why) in bad.iter().take(10) {
        println!("{}", serde_json::json!({"input": s, "contradiction": why}));
    }
    println!("{}", serde_json::json!({"family": "c10", "evaluated": evaluated, "contradictions": bad.len()}));
    if bad.is_empty() { 0 } else { 1 }
}
