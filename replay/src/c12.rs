//! Witness family for C12: ledgers with `account` / `commodity` declarations and aliases, in several orders of
//! declaration versus first use, with repeated declarations; the report of the alias-spelled ledger must equal the
//! report of the canonical-spelled one, show canonical names only, and conflicting declarations must be rejected.
use crate::ledger::{run_real, Real};

fn decl(kind: &str, name: &str, aliases: &[&str]) -> String {
    let mut s = format!("{} {}\n", kind, name);
    for a in aliases {
        s.push_str(&format!("    alias {}\n", a));
    }
    s.push('\n');
    s
}

pub fn run(_args: &[String]) -> i32 {
    let mut bad: Vec<(String, String)> = Vec::new();
    let mut evaluated = 0u64;
    // (account spelling, commodity spelling) used in the postings: canonical or alias
    let acct = ["Assets:Bank", "Bank", "B2"];
    let comm = ["JPY", "Yen", "¥"];
    let adecl = |n: usize| match n {
        0 => String::new(),
        // alias lines after / between other sub-directives of the block
        4 => "account Assets:Bank\n    note main account\n    alias Bank\n    ; a comment\n    alias B2\n\n".to_owned(),
        5 => "account Assets:Bank\n    alias Bank\n    note main account\n    alias B2\n\n".to_owned(),
        // declared twice: the second declaration adds the aliases
        6 => "account Assets:Bank\n    note first declaration\n\naccount Assets:Bank\n    alias Bank\n    alias B2\n\n".to_owned(),
        1 => decl("account", "Assets:Bank", &["Bank", "B2"]),
        2 => decl("account", "Assets:Bank", &["Bank", "B2"]) + &decl("account", "Assets:Bank", &["Bank"]),   // block repeated
        _ => decl("account", "Assets:Bank", &["Bank", "Bank", "B2"]),                                        // alias line repeated
    };
    let cdecl = |n: usize| match n {
        0 => String::new(),
        4 => "commodity JPY\n    note yen\n    alias Yen\n    format 1,000 JPY\n    alias ¥\n\n".to_owned(),
        5 => "commodity JPY\n    format 1,000 JPY\n    alias Yen\n    ; c\n    alias ¥\n\n".to_owned(),
        6 => "commodity JPY\n    format 1,000 JPY\n\ncommodity JPY\n    alias Yen\n    alias ¥\n\n".to_owned(),
        7 => "commodity JPY\n    alias Yen\n\ncommodity JPY\n    format 1,000 JPY\n    alias ¥\n\n".to_owned(),
        1 => decl("commodity", "JPY", &["Yen", "¥"]),
        2 => decl("commodity", "JPY", &["Yen", "¥"]) + &decl("commodity", "JPY", &["Yen"]),
        _ => decl("commodity", "JPY", &["Yen", "Yen", "¥"]),
    };
    let body = |a1: &str, c1: &str, a2: &str, c2: &str| {
        format!("2024/01/01 one\n    {}    1000 {}\n    Equity\n\n2024/01/02 two\n    {}    500 {} = 1500 {}\n    Equity\n\n", a1, c1, a2, c2, c2)
    };
    for ad in 1..7 {
        for cd in 1..8 {
            let canonical = adecl(ad) + &cdecl(cd) + &body("Assets:Bank", "JPY", "Assets:Bank", "JPY");
            let want = match run_real(&canonical) {
                Real::Ok(b) => b,
                _ => {
                    bad.push((canonical.clone(), "canonical-spelled ledger was not accepted".into()));
                    continue;
                }
            };
            for a1 in acct {
                for c1 in comm {
                    for a2 in acct {
                        for c2 in comm {
                            evaluated += 1;
                            let text = adecl(ad) + &cdecl(cd) + &body(a1, c1, a2, c2);
                            match run_real(&text) {
                                Real::Ok(b) => {
                                    if b != want && bad.len() < 8 {
                                        bad.push((text, format!("report with aliases {:?} differs from the report with canonical names {:?}", b, want)));
                                    }
                                }
                                Real::Err(e) => {
                                    if bad.len() < 8 {
                                        bad.push((text, format!("alias-spelled ledger rejected: {}", e.lines().next().unwrap_or(""))));
                                    }
                                }
                                Real::Panic => bad.push((text, "panicked".into())),
                            }
                        }
                    }
                }
            }
        }
    }
    // aliases that look like sub-accounts of another alias: a name is looked up as a whole, never segment by segment (seed C12-k)
    {
        let decls = "account Assets:Bank\n    alias Bank\n\naccount Expenses:Bank Fee\n    alias Bank:Fee\n\naccount Assets:Bank:Savings\n    alias Bank:S\n\n";
        let body = |fee: &str, sav: &str, bank: &str| format!("2024/01/01 fee\n    {}    3 JPY\n    {}    100 JPY\n    {}\n\n", fee, sav, bank);
        let want = run_real(&(decls.to_owned() + &body("Expenses:Bank Fee", "Assets:Bank:Savings", "Assets:Bank")));
        for (fee, sav, bank) in [("Bank:Fee", "Assets:Bank:Savings", "Assets:Bank"), ("Expenses:Bank Fee", "Bank:S", "Bank"), ("Bank:Fee", "Bank:S", "Bank")] {
            evaluated += 1;
            let text = decls.to_owned() + &body(fee, sav, bank);
            match (&want, run_real(&text)) {
                (Real::Ok(w), Real::Ok(b)) => if &b != w && bad.len() < 8 { bad.push((text, format!("report with aliases {:?} differs from the report with canonical names {:?}", b, w))); },
                (_, Real::Ok(_)) => bad.push((text, "canonical-spelled ledger was not accepted".into())),
                (_, Real::Err(e)) => bad.push((text, format!("alias-spelled ledger rejected: {}", e.lines().next().unwrap_or("")))),
                (_, Real::Panic) => bad.push((text, "panicked".into())),
            }
        }
    }
    // use before declaration: the name used first becomes canonical; declaring it later as an alias must be rejected
    let conflicts = [
        decl("account", "Assets:Bank", &[]) + &decl("account", "Other", &["Assets:Bank"]),
        decl("account", "Assets:Bank", &["Bank"]) + &decl("account", "Bank", &[]),
        decl("commodity", "JPY", &[]) + &decl("commodity", "USD", &["JPY"]),
        decl("commodity", "JPY", &["Yen"]) + &decl("commodity", "Yen", &["Y"]),
        "2024/01/01 x\n    Bank   1 JPY\n    Equity\n\n".to_owned() + &decl("account", "Assets:Bank", &["Bank"]),
        "2024/01/01 x\n    A   1 Yen\n    Equity\n\n".to_owned() + &decl("commodity", "JPY", &["Yen"]),
    ];
    for c in conflicts {
        evaluated += 1;
        let text = c + "2024/02/01 y\n    A   1 JPY\n    Equity\n\n";
        if let Real::Ok(_) = run_real(&text) {
            bad.push((text, "conflicting alias/canonical declaration was accepted".into()));
        }
    }
    // aliases in the other places a name can be written: cost, lot price, assignment, assertion on another posting,
    // `eval` argument, `-X` target, price-DB line
    {
        use bumpalo::Bump;
        use okane_core::{load, report};
        use std::collections::HashMap;
        use std::path::PathBuf;
        let decl = "account Assets:Bank\n    alias Bank\n\ncommodity JPY\n    alias Yen\n    format 1,000 JPY\n\ncommodity USD\n    alias Dollar\n\n";
        let body = |a: &str, j: &str, u: &str| format!(
            "2024/01/01 buy\n    {a}    10 {u} @ 150 {j}\n    Equity\n\n2024/01/02 lot\n    {a}    2 {u} {{140 {j}}}\n    Equity\n\n2024/01/03 set\n    {a}    = 20 {u}\n    Equity\n\n2024/01/04 check\n    Equity    -5 {j}\n    {a}    5 {j} = 5 {j}\n\n", a = a, j = j, u = u);
        let dir = tempfile::tempdir().expect("tempdir");
        let observe = |text: &str, db: &str, eval: &str, target: &str| -> String {
            let db_path = dir.path().join("p.db");
            std::fs::write(&db_path, db).unwrap();
            let arena = Bump::new();
            let mut ctx = report::ReportContext::new(&arena);
            let mut files: HashMap<PathBuf, Vec<u8>> = HashMap::new();
            files.insert(PathBuf::from("/main.ledger"), text.as_bytes().to_vec());
            let loader = load::Loader::new(PathBuf::from("/main.ledger"), load::FakeFileSystem::from(files));
            let opts = report::ProcessOptions { price_db_path: Some(db_path) };
            let mut out = String::new();
            let mut ledger = match report::process(&mut ctx, loader, &opts) { Ok(l) => l, Err(e) => return format!("rejected: {}", format!("{}", e).lines().next().unwrap_or("")) };
            match ledger.balance(&ctx, &report::query::BalanceQuery::default()) {
                Ok(b) => for (a, am) in b.into_owned().into_vec() { out.push_str(&format!("{}: {}\n", a.as_str(), am.as_inline_display())); },
                Err(e) => out.push_str(&format!("balance error {}\n", e)),
            }
            for t in ledger.transactions() { for p in t.postings.iter() { out.push_str(&format!("{} {} {}\n", t.date, p.account.as_str(), p.amount.as_inline_display())); } }
            let ectx = report::query::EvalContext { date: chrono::NaiveDate::from_ymd_opt(2024, 6, 1).unwrap(), exchange: Some(target.to_owned()) };
            match ledger.eval(&ctx, eval, &ectx) { Ok(a) => out.push_str(&format!("eval = {}\n", a.as_inline_display())), Err(e) => out.push_str(&format!("eval ! {}\n", e)) };
            out
        };
        let want = observe(&format!("{}{}", decl, body("Assets:Bank", "JPY", "USD")), "P 2024/02/01 USD 155 JPY\n", "(3 USD + 100 JPY)", "JPY");
        if want.starts_with("rejected") {
            bad.push((decl.to_owned(), format!("canonical-spelled ledger with cost / lot / assignment was not accepted: {}", want)));
        }
        for (a, j, u) in [("Bank", "JPY", "USD"), ("Assets:Bank", "Yen", "USD"), ("Assets:Bank", "JPY", "Dollar"), ("Bank", "Yen", "Dollar")] {
            for (db, ev, tg) in [("P 2024/02/01 USD 155 JPY\n", "(3 USD + 100 JPY)", "JPY"), ("P 2024/02/01 Dollar 155 Yen\n", "(3 Dollar + 100 Yen)", "Yen")] {
                evaluated += 1;
                let text = format!("{}{}", decl, body(a, j, u));
                let got = observe(&text, db, ev, tg);
                if got != want && bad.len() < 8 {
                    let (lw, lg) = want.lines().zip(got.lines()).find(|(x, y)| x != y).unwrap_or((&want, &got));
                    bad.push((format!("{}price db: {}eval '{}' -X {}", text, db, ev, tg), format!("with aliases the reports differ from the canonical spelling: `{}` instead of `{}`", lg, lw)));
                }
            }
        }
    }
    for (s, why) in bad.iter().take(10) {
        println!("{}", serde_json::json!({"input": s, "contradiction": why}));
    }
    println!("{}", serde_json::json!({"family": "c12", "evaluated": evaluated, "contradictions": bad.len()}));
    if bad.is_empty() { 0 } else { 1 }
}
