//! Witness family for C01/C02/C03: small ledgers run through the real `report::process` on a FakeFileSystem and
//! compared with an independent executable reading of the property statements (an executable twin of the Verus
//! contracts).  A contradiction is printed as {"input": <ledger text>, "contradiction": <what differs>}.
use std::collections::{BTreeMap, HashMap};
use std::panic::{catch_unwind, AssertUnwindSafe};
use std::path::PathBuf;

use bumpalo::Bump;
use okane_core::{load, report};
use rust_decimal::Decimal;

#[derive(Clone, Debug)]
pub struct Post {
    pub account: &'static str,
    pub amount: Option<(Decimal, &'static str)>,
    /// (is_total, value, commodity)
    pub cost: Option<(bool, Decimal, &'static str)>,
    /// lot price `{v c}` / `{{v c}}`: (is_total, value, commodity)
    pub lot: Option<(bool, Decimal, &'static str)>,
    /// `= v [c]`
    pub assertion: Option<(Decimal, Option<&'static str>)>,
}

pub type Txn = Vec<Post>;

pub fn render(txns: &[Txn], dp2: &[&'static str]) -> String {
    let mut s = String::new();
    // the declared precision is that of the `format` sample, however the sample spells the commodity: the commodity itself,
    // nothing at all, or a symbol that only becomes its alias on the next line (seed C01-k); the three spellings take turns
    static FORM: std::sync::atomic::AtomicUsize = std::sync::atomic::AtomicUsize::new(0);
    for c in dp2 {
        match FORM.fetch_add(1, std::sync::atomic::Ordering::Relaxed) % 3 {
            0 => s.push_str(&format!("commodity {}\n    format 1,000.00 {}\n\n", c, c)),
            1 => s.push_str(&format!("commodity {}\n    format 1,000.00\n\n", c)),
            _ => s.push_str(&format!("commodity {}\n    format 1,000.00 {}$\n    alias {}$\n\n", c, c, c)),
        }
    }
    for (i, t) in txns.iter().enumerate() {
        s.push_str(&format!("2024/01/{:02} t{}\n", i + 1, i));
        for p in t {
            s.push_str("    ");
            s.push_str(p.account);
            if let Some((v, c)) = p.amount {
                s.push_str(&format!("    {} {}", v, c));
                if let Some((total, lv, lc)) = p.lot {
                    if total {
                        s.push_str(&format!(" {{{{{} {}}}}}", lv, lc));
                    } else {
                        s.push_str(&format!(" {{{} {}}}", lv, lc));
                    }
                }
                if let Some((total, cv, cc)) = p.cost {
                    s.push_str(&format!(" {} {} {}", if total { "@@" } else { "@" }, cv, cc));
                }
            }
            if let Some((v, c)) = p.assertion {
                match c {
                    Some(c) => s.push_str(&format!("    = {} {}", v, c)),
                    None => s.push_str(&format!("    = {}", v)),
                }
            }
            s.push('\n');
        }
        s.push('\n');
    }
    s
}

type Bal = BTreeMap<&'static str, BTreeMap<&'static str, Decimal>>;

#[derive(Debug, PartialEq)]
pub enum Verdict {
    /// must be accepted with exactly this final balance (zero entries removed)
    Accept(Bal),
    /// must be rejected
    Reject(&'static str),
    /// the statement allows either outcome (e.g. residual with a zero-valued third commodity)
    Either,
}

fn nz(m: &mut BTreeMap<&'static str, Decimal>) {
    m.retain(|_, v| !v.is_zero());
}

/// Executable reading of C01-C03 (no declared precisions: rounding is the identity).
pub fn oracle(txns: &[Txn], dp2: &[&'static str]) -> Verdict {
    let mut bal: Bal = BTreeMap::new();
    for t in txns {
        let mut total: BTreeMap<&'static str, Decimal> = BTreeMap::new();
        let mut unfilled: Option<usize> = None;
        for (i, p) in t.iter().enumerate() {
            match (p.amount, p.assertion) {
                (None, None) => {
                    if unfilled.is_some() {
                        return Verdict::Reject("two unconstrained postings");
                    }
                    unfilled = Some(i);
                }
                (None, Some((x, c))) => {
                    let h = bal.entry(p.account).or_default();
                    let delta: Option<(Decimal, &'static str)> = match c {
                        Some(c) => {
                            let prev = h.get(c).copied().unwrap_or_default();
                            if x.is_zero() {
                                h.remove(c);
                            } else {
                                h.insert(c, x);
                            }
                            Some((x - prev, c))
                        }
                        None => {
                            if !x.is_zero() {
                                return Verdict::Reject("bare non-zero number as balance");
                            }
                            if h.len() > 1 {
                                return Verdict::Reject("= 0 on several commodities");
                            }
                            let r = h.iter().next().map(|(c, v)| (-*v, *c));
                            h.clear();
                            r
                        }
                    };
                    if let Some((d, c)) = delta {
                        *total.entry(c).or_default() += d;
                    }
                }
                (Some((v, c)), a) => {
                    let h = bal.entry(p.account).or_default();
                    *h.entry(c).or_default() += v;
                    nz(h);
                    if let Some((x, ac)) = a {
                        let ok = match ac {
                            Some(ac) => h.get(ac).copied().unwrap_or_default() == x,
                            None => {
                                if !x.is_zero() {
                                    return Verdict::Reject("bare non-zero number as balance");
                                }
                                h.is_empty()
                            }
                        };
                        if !ok {
                            return Verdict::Reject("false balance assertion");
                        }
                    }
                    // every written exchange is validated; the lot price, else the cost, values the posting
                    for (_, xv, xc) in [p.cost, p.lot].into_iter().flatten() {
                        if xv.is_zero() {
                            return Verdict::Reject("zero rate");
                        }
                        if xc == c {
                            return Verdict::Reject("exchange in own commodity");
                        }
                    }
                    match p.lot.or(p.cost) {
                        None => *total.entry(c).or_default() += v,
                        Some((is_total, cv, cc)) => {
                            if cv.is_zero() {
                                return Verdict::Reject("zero rate");
                            }
                            if cc == c {
                                return Verdict::Reject("cost in own commodity");
                            }
                            let val = if is_total {
                                let mut t = cv;
                                t.set_sign_positive(v.is_sign_positive());
                                t
                            } else {
                                cv * v
                            };
                            *total.entry(cc).or_default() += val;
                        }
                    }
                }
            }
        }
        if let Some(u) = unfilled {
            let h = bal.entry(t[u].account).or_default();
            for (c, v) in &total {
                *h.entry(c).or_default() -= *v;
            }
            nz(h);
        } else {
            // totals are rounded to the commodity's declared precision before the balance test
            let total: BTreeMap<&'static str, Decimal> = total
                .iter()
                .map(|(c, v)| (*c, if dp2.contains(c) { v.round_dp_with_strategy(2, rust_decimal::RoundingStrategy::MidpointNearestEven) } else { *v }))
                .collect();
            let nonzero: Vec<&Decimal> = total.values().filter(|v| !v.is_zero()).collect();
            if nonzero.is_empty() {
                // accepted
            } else if nonzero.len() == 2 && nonzero[0].is_sign_positive() != nonzero[1].is_sign_positive() {
                if total.len() != 2 {
                    // two non-zero totals of opposite sign plus zero-valued commodities: the statement allows rejection
                    return Verdict::Either;
                }
            } else {
                return Verdict::Reject("unbalanced");
            }
        }
    }
    for h in bal.values_mut() {
        nz(h);
    }
    bal.retain(|_, h| !h.is_empty());
    Verdict::Accept(bal)
}

pub enum Real {
    Ok(Bal),
    Err(String),
    Panic,
}

pub fn run_real(text: &str) -> Real {
    let text = text.to_owned();
    let r = catch_unwind(AssertUnwindSafe(move || {
        let arena = Bump::new();
        let mut ctx = report::ReportContext::new(&arena);
        let mut files: HashMap<PathBuf, Vec<u8>> = HashMap::new();
        files.insert(PathBuf::from("/main.ledger"), text.into_bytes());
        let loader = load::Loader::new(PathBuf::from("/main.ledger"), load::FakeFileSystem::from(files))
            .with_error_renderer(annotate_snippets::Renderer::plain());
        let res = match report::process(&mut ctx, loader, &report::ProcessOptions::default()) {
            Err(e) => Real::Err(format!("{}", e)),
            Ok(mut ledger) => {
                let q = report::query::BalanceQuery::default();
                match ledger.balance(&ctx, &q) {
                    Err(e) => Real::Err(format!("balance query failed: {}", e)),
                    Ok(b) => {
                        let mut out: BTreeMap<String, BTreeMap<String, Decimal>> = BTreeMap::new();
                        for (acct, amount) in b.into_owned().into_vec() {
                            let mut h = BTreeMap::new();
                            for sa in amount.iter() {
                                let s = format!("{}", sa);
                                let mut it = s.splitn(2, ' ');
                                let v: Decimal = it.next().unwrap().parse().unwrap();
                                h.insert(it.next().unwrap_or("").to_owned(), v);
                            }
                            out.insert(acct.as_str().to_owned(), h);
                        }
                        Real::Ok(leak(out))
                    }
                }
            }
        };
        res
    }));
    match r {
        Ok(x) => x,
        Err(_) => Real::Panic,
    }
}

fn leak(b: BTreeMap<String, BTreeMap<String, Decimal>>) -> Bal {
    let mut out: Bal = BTreeMap::new();
    for (a, h) in b {
        let a: &'static str = Box::leak(a.into_boxed_str());
        let mut hh = BTreeMap::new();
        for (c, v) in h {
            let c: &'static str = Box::leak(c.into_boxed_str());
            if !v.is_zero() {
                hh.insert(c, v);
            }
        }
        if !hh.is_empty() {
            out.insert(a, hh);
        }
    }
    out
}

pub fn check(txns: &[Txn], dp2: &[&'static str]) -> Option<(String, String)> {
    let text = render(txns, dp2);
    let want = oracle(txns, dp2);
    let got = run_real(&text);
    let bad = match (&want, &got) {
        (_, Real::Panic) => Some("the run panicked".to_owned()),
        (Verdict::Either, _) => None,
        (Verdict::Accept(b), Real::Ok(r)) => {
            if b == r {
                None
            } else {
                Some(format!("accepted, but final balances are {:?}; the statement gives {:?}", r, b))
            }
        }
        (Verdict::Accept(_), Real::Err(e)) => Some(format!("rejected a ledger the statement accepts: {}", e.lines().next().unwrap_or(""))),
        (Verdict::Reject(why), Real::Ok(_)) => Some(format!("accepted a ledger that must be rejected ({})", why)),
        (Verdict::Reject(_), Real::Err(_)) => None,
    };
    bad.map(|b| (text, b))
}

fn d(s: &str) -> Decimal {
    s.parse().unwrap()
}

/// Enumerates history + one transaction of 2..4 postings; with `panic_only` only crashes are contradictions (C06).
pub fn sweep(thorough: bool, panic_only: bool) -> (u64, Vec<(String, String)>) {
    let values: Vec<Decimal> = if thorough { vec![d("0"), d("1"), d("-1"), d("5"), d("-5"), d("0.5"), d("-2.5")] } else { vec![d("0"), d("1"), d("-1"), d("5"), d("-5")] };
    let comms = ["X", "Y"];
    let mut evaluated = 0u64;
    let mut bad: Vec<(String, String)> = Vec::new();
    // posting shapes for account A (first posting) and B (second), optional third posting C
    let mut shapes: Vec<Post> = Vec::new();
    for v in &values {
        for c in comms {
            shapes.push(Post { account: "", amount: Some((*v, c)), cost: None, lot: None, assertion: None });
        }
    }
    // costs
    for v in [d("2"), d("-2"), d("0")] {
        for (tot, cv) in [(false, d("3")), (true, d("6")), (false, d("0")), (true, d("-6")), (false, d("-3"))] {
            shapes.push(Post { account: "", amount: Some((v, "X")), cost: Some((tot, cv, "Y")), lot: None, assertion: None });
        }
    }
    shapes.push(Post { account: "", amount: Some((d("2"), "X")), cost: Some((false, d("3"), "X")), lot: None, assertion: None });
    // lot prices, alone and together with a cost (the lot price wins)
    for v in [d("2"), d("-2")] {
        for (tot, lv) in [(false, d("4")), (true, d("8")), (false, d("0"))] {
            shapes.push(Post { account: "", amount: Some((v, "X")), cost: None, lot: Some((tot, lv, "Y")), assertion: None });
            shapes.push(Post { account: "", amount: Some((v, "X")), cost: Some((false, d("3"), "Y")), lot: Some((tot, lv, "Y")), assertion: None });
        }
    }
    // omitted amount, assignments, assertions
    shapes.push(Post { account: "", amount: None, cost: None, lot: None, assertion: None });
    for (x, c) in [(d("7"), Some("X")), (d("0"), Some("X")), (d("0"), None), (d("3"), Some("Y")), (d("10"), Some("X"))] {
        shapes.push(Post { account: "", amount: None, cost: None, lot: None, assertion: Some((x, c)) });
        shapes.push(Post { account: "", amount: Some((d("5"), "X")), cost: None, lot: None, assertion: Some((x, c)) });
        shapes.push(Post { account: "", amount: Some((d("-5"), "X")), cost: None, lot: None, assertion: Some((x, c)) });
    }
    let histories: Vec<Vec<Txn>> = vec![
        vec![],
        vec![vec![
            Post { account: "A", amount: Some((d("5"), "X")), cost: None, lot: None, assertion: None },
            Post { account: "E", amount: Some((d("-5"), "X")), cost: None, lot: None, assertion: None },
        ]],
        vec![vec![
            Post { account: "A", amount: Some((d("5"), "X")), cost: None, lot: None, assertion: None },
            Post { account: "A", amount: Some((d("3"), "Y")), cost: None, lot: None, assertion: None },
            Post { account: "E", amount: None, cost: None, lot: None, assertion: None },
        ]],
    ];
    let third: Vec<Option<Post>> = if thorough {
        let mut v: Vec<Option<Post>> = vec![None];
        for s in shapes.iter().step_by(3) {
            v.push(Some(s.clone()));
        }
        v
    } else {
        vec![None, Some(Post { account: "", amount: None, cost: None, lot: None, assertion: None }), Some(Post { account: "", amount: Some((d("-1"), "Y")), cost: None, lot: None, assertion: None })]
    };
    for h in &histories {
        for p1 in &shapes {
            for p2 in &shapes {
                for p3 in &third {
                    let mut t: Txn = vec![Post { account: "A", ..p1.clone() }, Post { account: "B", ..p2.clone() }];
                    if let Some(p3) = p3 {
                        t.push(Post { account: "A", ..p3.clone() });
                    }
                    let mut txns = h.clone();
                    txns.push(t);
                    evaluated += 1;
                    if let Some(b) = check(&txns, &[]).filter(|b| !panic_only || b.1.contains("panicked")) {
                        if bad.len() < 12 {
                            bad.push(b);
                        }
                    }
                }
            }
        }
    }
    // declared precision: sub-precision residuals (commodity Y printed with two decimals)
    let pv: Vec<Decimal> = vec![d("0.004"), d("-0.004"), d("0.006"), d("10"), d("-10"), d("10.004"), d("-10.004"), d("0")];
    for v1 in &pv {
        for c1 in comms {
            for v2 in &pv {
                for c2 in comms {
                    for third in [None, Some((d("0.004"), "Y")), Some((d("-10"), "X"))] {
                        for omitted in [false, true] {
                            let mut t: Txn = vec![
                                Post { account: "A", amount: Some((*v1, c1)), cost: None, lot: None, assertion: None },
                                Post { account: "B", amount: Some((*v2, c2)), cost: None, lot: None, assertion: None },
                            ];
                            if let Some((v, c)) = third {
                                t.push(Post { account: "C", amount: Some((v, c)), cost: None, lot: None, assertion: None });
                            }
                            if omitted {
                                t.push(Post { account: "D", amount: None, cost: None, lot: None, assertion: None });
                            }
                            // several fresh contexts per ledger: the per-commodity totals live in a hash map whose
                            // iteration order differs from one context to the next
                            for _ in 0..4 {
                                evaluated += 1;
                                if let Some(b) = check(&[t.clone()], &["Y"]).filter(|b| !panic_only || b.1.contains("panicked")) {
                                    if bad.len() < 12 {
                                        bad.push(b);
                                    }
                                    break;
                                }
                            }
                        }
                    }
                }
            }
        }
    }
    // declared precision + balance assertions / assignments: an assertion is exact, never "true up to the display precision"
    for v in [d("100.004"), d("100"), d("99.996"), d("-0.004")] {
        for x in [d("110"), d("110.004"), d("109.996"), d("110.00"), d("9.996"), d("10")] {
            for with_amount in [true, false] {
                let t1: Txn = vec![
                    Post { account: "A", amount: Some((v, "Y")), cost: None, lot: None, assertion: None },
                    Post { account: "E", amount: None, cost: None, lot: None, assertion: None },
                ];
                let t2: Txn = vec![
                    Post { account: "A", amount: if with_amount { Some((d("10"), "Y")) } else { None }, cost: None, lot: None, assertion: Some((x, Some("Y"))) },
                    Post { account: "E", amount: None, cost: None, lot: None, assertion: None },
                ];
                evaluated += 1;
                if let Some(b) = check(&[t1, t2], &["Y"]).filter(|b| !panic_only || b.1.contains("panicked")) {
                    if bad.len() < 12 {
                        bad.push(b);
                    }
                }
            }
        }
    }
    // an assertion that names a commodity seen nowhere before (true: `= 0 Z`; false: `= 5 Z`), on a posting in another commodity
    for (x, must_hold) in [(d("0"), true), (d("5"), false), (d("-1"), false)] {
        for first in [true, false] {
            let mut txns: Vec<Txn> = Vec::new();
            if !first {
                txns.push(vec![
                    Post { account: "A", amount: Some((d("100"), "X")), cost: None, lot: None, assertion: None },
                    Post { account: "E", amount: None, cost: None, lot: None, assertion: None },
                ]);
            }
            txns.push(vec![
                Post { account: "A", amount: Some((d("10"), "X")), cost: None, lot: None, assertion: Some((x, Some("Z"))) },
                Post { account: "E", amount: None, cost: None, lot: None, assertion: None },
            ]);
            let _ = must_hold;
            evaluated += 1;
            if let Some(b) = check(&txns, &[]).filter(|b| !panic_only || b.1.contains("panicked")) {
                if bad.len() < 12 { bad.push(b); }
            }
        }
    }
    // an omitted posting on a NEW account next to a commodity that cancels among the others: the account must end up
    // holding only what it received (no zero-valued commodity), so that a later bare `= 0` assignment / assertion works
    for later in 0..3 {
        let mut txns: Vec<Txn> = vec![vec![
            Post { account: "A", amount: Some((d("100"), "X")), cost: None, lot: None, assertion: None },
            Post { account: "B", amount: Some((d("-100"), "X")), cost: None, lot: None, assertion: None },
            Post { account: "C", amount: Some((d("5"), "Y")), cost: None, lot: None, assertion: None },
            Post { account: "D", amount: None, cost: None, lot: None, assertion: None },
        ]];
        match later {
            0 => {}
            1 => txns.push(vec![
                Post { account: "D", amount: None, cost: None, lot: None, assertion: Some((d("0"), None)) },
                Post { account: "E", amount: None, cost: None, lot: None, assertion: None },
            ]),
            _ => txns.push(vec![
                Post { account: "D", amount: Some((d("5"), "Y")), cost: None, lot: None, assertion: Some((d("0"), None)) },
                Post { account: "E", amount: None, cost: None, lot: None, assertion: None },
            ]),
        }
        evaluated += 1;
        if let Some(b) = check(&txns, &[]).filter(|b| !panic_only || b.1.contains("panicked")) {
            if bad.len() < 12 { bad.push(b); }
        }
    }
    // three and four commodities with explicit amounts only: the residual is an implied exchange only if EXACTLY two commodities
    // remain (opposite signs); which names the commodities have, and in which order a hash map lists them, plays no part
    let names = ["AAA", "BBB", "CCC", "DDD"];
    let vals = [d("10"), d("-5"), d("7"), d("-7"), d("0")];
    for v1 in &vals {
        for v2 in &vals {
            for v3 in &vals {
                for v4 in [None, Some(d("-1")), Some(d("3"))] {
                    for perm in 0..2 {
                        let order: [usize; 4] = if perm == 0 { [0, 1, 2, 3] } else { [2, 3, 0, 1] };
                        let mut t: Txn = vec![
                            Post { account: "A", amount: Some((*v1, names[order[0]])), cost: None, lot: None, assertion: None },
                            Post { account: "B", amount: Some((*v2, names[order[1]])), cost: None, lot: None, assertion: None },
                            Post { account: "C", amount: Some((*v3, names[order[2]])), cost: None, lot: None, assertion: None },
                        ];
                        if let Some(v4) = v4 {
                            t.push(Post { account: "D", amount: Some((v4, names[order[3]])), cost: None, lot: None, assertion: None });
                        }
                        for _ in 0..2 {
                            evaluated += 1;
                            if let Some(b) = check(&[t.clone()], &[]).filter(|b| !panic_only || b.1.contains("panicked")) {
                                if bad.len() < 12 { bad.push(b); }
                                break;
                            }
                        }
                    }
                }
            }
        }
    }
    // a cost posting whose converted value leaves three / four commodities behind, with a declared precision
    for (a, b) in [(d("-2"), d("100")), (d("2"), d("-100")), (d("-2"), d("0"))] {
        let t: Txn = vec![
            Post { account: "A", amount: Some((d("3"), "ACME")), cost: Some((false, d("10.005"), "CHF")), lot: None, assertion: None },
            Post { account: "B", amount: Some((d("-20"), "CHF")), cost: None, lot: None, assertion: None },
            Post { account: "C", amount: Some((a, "EUR")), cost: None, lot: None, assertion: None },
            Post { account: "D", amount: Some((b, "JPY")), cost: None, lot: None, assertion: None },
            Post { account: "E", amount: Some((d("-1"), "USD")), cost: None, lot: None, assertion: None },
        ];
        evaluated += 1;
        if let Some(b) = check(&[t], &["CHF"]).filter(|b| !panic_only || b.1.contains("panicked")) {
            if bad.len() < 12 { bad.push(b); }
        }
    }
    // histories of assignments: `A = 0 X` (a commodity set to zero) followed by a bare `A = 0` / an assertion on what is left (seed C03-n:
    // a zero left behind in the running balance makes the account look multi-commodity)
    for held_x in [None, Some(d("3"))] {
        for last in [Post { account: "A", amount: None, cost: None, lot: None, assertion: Some((d("0"), None)) },
                     Post { account: "A", amount: Some((d("-5"), "Y")), cost: None, lot: None, assertion: Some((d("0"), None)) },
                     Post { account: "A", amount: None, cost: None, lot: None, assertion: Some((d("2"), Some("Y"))) }] {
            let mut h: Vec<Txn> = vec![vec![
                Post { account: "A", amount: Some((d("5"), "Y")), cost: None, lot: None, assertion: None },
                Post { account: "E", amount: None, cost: None, lot: None, assertion: None }]];
            if let Some(x) = held_x {
                h.push(vec![Post { account: "A", amount: Some((x, "X")), cost: None, lot: None, assertion: None },
                            Post { account: "E", amount: None, cost: None, lot: None, assertion: None }]);
            }
            h.push(vec![Post { account: "A", amount: None, cost: None, lot: None, assertion: Some((d("0"), Some("X"))) },
                        Post { account: "E", amount: None, cost: None, lot: None, assertion: None }]);
            h.push(vec![last.clone(), Post { account: "E", amount: None, cost: None, lot: None, assertion: None }]);
            evaluated += 1;
            if let Some(b) = check(&h, &[]).filter(|b| !panic_only || b.1.contains("panicked")) {
                if bad.len() < 12 { bad.push(b); }
            }
        }
    }
    // accounts reached through aliases: a ledger that spells an account by an alias declared in an `account` directive - wherever
    // the alias line stands among the directive's notes and comments - must behave exactly as the ledger that spells the
    // canonical name (same verdict, same final balances); assertions through the alias see the canonical account's balance
    let directives = [
        "account Assets:Bank\n    alias Bank\n\n",
        "account Assets:Bank\n    note main checking account\n    alias Bank\n\n",
        "account Assets:Bank\n    ; a comment\n    alias Bank\n\n",
        "account Assets:Bank\n    alias Old\n    note n\n    ; c\n    alias Bank\n    note m\n\n",
        "account Assets:Bank\n    note n\n    alias Old\n    alias Bank\n\n",
        "account Assets:Other\n    alias Bank2\n\naccount Assets:Bank\n    note n\n    alias Bank\n\n",
    ];
    let bodies = [
        "2024/01/01 open\n    Assets:Bank    100 USD\n    Equity\n\n2024/01/02 dep\n    {A}    50 USD = 150 USD\n    Income\n\n",
        "2024/01/01 open\n    Assets:Bank    100 USD\n    Equity\n\n2024/01/02 dep\n    {A}    50 USD = 50 USD\n    Income\n\n",
        "2024/01/01 open\n    {A}    100 USD\n    Equity\n\n2024/01/02 set\n    Assets:Bank    = 30 USD\n    Income\n\n2024/01/03 chk\n    {A}    0 USD = 30 USD\n    Equity\n\n",
        "2024/01/01 open\n    {A}    100 USD\n    {A}    5 EUR\n    Equity\n\n2024/01/02 zero\n    {A}    = 0\n    Income\n\n",
        "2024/01/01 twice\n    {A}    10 USD = 10 USD\n    Assets:Bank    5 USD = 15 USD\n    {A}    -15 USD = 0\n\n",
    ];
    for dir in directives {
        for body in bodies {
            evaluated += 1;
            let aliased = format!("{}{}", dir, body.replace("{A}", "Bank"));
            let canonical = body.replace("{A}", "Assets:Bank");
            let (ra, rc) = (run_real(&aliased), run_real(&canonical));
            let verdict = match (&ra, &rc) {
                (Real::Panic, _) | (_, Real::Panic) => Some("the run panicked".to_owned()),
                (Real::Ok(x), Real::Ok(y)) => if x == y { None } else { Some(format!("through the alias the final balances are {:?}, with the canonical name {:?}", x, y)) },
                (Real::Err(_), Real::Err(_)) => None,
                (Real::Ok(x), Real::Err(e)) => Some(format!("accepted through the alias (balances {:?}) but rejected with the canonical name: {}", x, e.lines().next().unwrap_or(""))),
                (Real::Err(e), Real::Ok(_)) => Some(format!("rejected through the alias but accepted with the canonical name: {}", e.lines().next().unwrap_or(""))),
            };
            if let Some(v) = verdict.filter(|v| !panic_only || v.contains("panicked")) {
                if bad.len() < 12 { bad.push((aliased, v)); }
            }
        }
    }
    // a commodity-less `0` as the amount of a posting that carries an assertion: the assertion is checked like any other (seed C02-k)
    {
        let open = "2024/01/01 open\n    A    1000 X\n    W    20.00 Y\n    E\n\n";
        let cases: [(&str, bool); 6] = [
            ("2024/01/02 check\n    A    0 = 1000 X\n", true), ("2024/01/02 check\n    A    0 = 1500 X\n", false),
            ("2024/01/02 check\n    W    0 = 0\n", false), ("2024/01/02 check\n    N    0 = 0\n", true),
            ("2024/01/02 check\n    A    0 = 0 X\n", false), ("2024/01/02 check\n    A    0 = 0 Y\n", true),
        ];
        for (entry, holds) in cases {
            evaluated += 1;
            let text = format!("{}{}\n", open, entry);
            let verdict = match run_real(&text) {
                Real::Panic => Some("the run panicked".to_owned()),
                Real::Ok(b) => if holds { None } else { Some(format!("a false assertion on a posting with amount `0` was accepted (balances {:?})", b)) },
                Real::Err(e) => if holds { Some(format!("a true assertion on a posting with amount `0` was rejected: {}", e.lines().next().unwrap_or(""))) } else { None },
            };
            if let Some(v) = verdict.filter(|v| !panic_only || v.contains("panicked")) {
                if bad.len() < 12 { bad.push((text, v)); }
            }
        }
    }
    (evaluated, bad)
}

pub fn run(args: &[String]) -> i32 {
    if args.first().map(|x| x == "--only").unwrap_or(false) {
        let text = args.get(1).cloned().unwrap_or_default();
        let got = run_real(&text);
        let s = match got {
            Real::Ok(b) => format!("accepted; balances {:?}", b),
            Real::Err(e) => format!("rejected: {}", e.lines().next().unwrap_or("")),
            Real::Panic => "PANIC".to_owned(),
        };
        println!("{}", serde_json::json!({"input": text, "observed": s}));
        println!("{}", serde_json::json!({"family": "ledger", "evaluated": 1, "contradictions": 0, "note": "observation only; compare with the recorded contradiction"}));
        return 0;
    }
    let thorough = args.first().map(|x| x == "thorough").unwrap_or(false);
    let (evaluated, bad) = sweep(thorough, false);
    for (s, why) in &bad {
        println!("{}", serde_json::json!({"input": s, "contradiction": why}));
    }
    println!("{}", serde_json::json!({"family": "ledger", "evaluated": evaluated, "contradictions": bad.len(), "mode": if thorough {"thorough"} else {"quick"}}));
    if bad.is_empty() { 0 } else { 1 }
}
