//! Witness family for C04: Ledger::balance over every date window against the sum of the register's postings.
use std::collections::{BTreeMap, HashMap};
use std::path::PathBuf;

use bumpalo::Bump;
use chrono::NaiveDate;
use okane_core::{load, report};
use rust_decimal::Decimal;

type Bal = BTreeMap<String, BTreeMap<String, Decimal>>;

fn to_bal(b: report::Balance) -> Bal {
    let mut out = Bal::new();
    for (acct, amount) in b.into_vec() {
        let mut h = BTreeMap::new();
        for sa in amount.iter() {
            let s = format!("{}", sa);
            let mut it = s.splitn(2, ' ');
            let v: Decimal = it.next().unwrap().parse().unwrap();
            h.insert(it.next().unwrap_or("").to_owned(), v);
        }
        out.insert(acct.as_str().to_owned(), h);
    }
    out
}

pub fn run(_args: &[String]) -> i32 {
    // file order = date order; file order != date order (back-dated entries: the ledger keeps load order); declared precision
    let texts = [
        "2024/01/10 a\n    A    5 X\n    B   -5 X\n\n2024/01/20 b\n    A    -5 X\n    C    5 X\n\n2024/01/20 c\n    A    3 Y\n    B\n\n2024/02/01 d\n    C    -5 X\n    B    5 X\n\n",
        "2024/01/20 b\n    A    -5 X\n    C    5 X\n\n2024/02/01 d\n    C    -5 X\n    B    5 X\n\n2024/01/10 a\n    A    5 X\n    B   -5 X\n\n2024/03/01 e\n    A    7 X\n    B\n\n2024/01/20 c\n    A    3 Y\n    B\n\n",
        "commodity X\n    format 1,000.00 X\n\n2024/02/01 d\n    C    -5.005 X\n    B\n\n2024/01/10 a\n    A    5.005 X\n    B   -5.005 X\n\n2024/01/20 b\n    A    -5.005 X\n    C\n\n",
        // assignments (`= X` without an amount, incl. `= 0 X` and bare `= 0`) and deduced postings: what is booked into the
        // running balance must be what the register lists
        "2024/01/10 open\n    W    100 X\n    W    20 Y\n    E\n\n2024/01/15 count\n    W    = 0 X\n    E\n\n2024/01/20 refill\n    W    30 X\n    E\n\n2024/02/01 set\n    W    = 7 Y\n    V    = 5 X\n    E\n\n2024/02/05 clear\n    V    = 0\n    E\n\n",
        // account names that are textual prefixes of one another (a parent with its own postings, a sub-account, a sibling):
        // an account's register lists that account's postings only
        "2024/01/01 open\n    Assets:Bank    100.00 X\n    Assets:Bank2    40.00 X\n    Equity\n\n2024/01/20 move\n    Assets:Bank:Savings    25.00 X\n    Assets:Bank    -25.00 X\n\n2024/02/01 food\n    Expenses:Food    12.50 X\n    Assets:Bank2    -12.50 X\n\n2024/02/01 fx\n    Assets    3 Y\n    Assets:Bank:Savings    -1.00 X\n\n",
        // postings finer than the declared precision: a window report is the rounded SUM, not the sum of rounded postings (seed C04-m)
        "commodity JPY\n    format 1,000 JPY\n\n2024/01/05 i1\n    Assets:Bank    0.4 JPY\n    Income:Interest\n\n2024/01/12 i2\n    Assets:Bank    0.4 JPY\n    Income:Interest\n\n2024/01/19 i3\n    Assets:Bank    0.4 JPY\n    Income:Interest\n\n2024/01/26 i4\n    Assets:Bank    0.4 JPY\n    Income:Interest\n\n2024/02/01 i5\n    Assets:Bank    0.4 JPY\n    Income:Interest\n\n",
        // transactions written `DATE=EFFECTIVE_DATE`: the window is decided by the transaction's (primary) date, the one the register
        // lists it under, whichever side of a boundary the effective date falls on (seed C04-k)
        "2024/01/30=2024/02/02 card\n    Expenses:Food    45.50 X\n    Liabilities:Card\n\n2024/02/03=2024/01/28 back-valued\n    Expenses:Fees    2.00 X\n    Liabilities:Card\n\n2024/01/31 plain\n    Expenses:Food    4.50 X\n    Liabilities:Card\n\n",
    ];
    let mut bad: Vec<(String, String)> = Vec::new();
    let mut evaluated = 0u64;
    for text in texts {
        run_one(text, &mut bad, &mut evaluated);
    }
    for (s, why) in bad.iter().take(10) {
        println!("{}", serde_json::json!({"input": s, "contradiction": why}));
    }
    println!("{}", serde_json::json!({"family": "c04", "evaluated": evaluated, "contradictions": bad.len()}));
    if bad.is_empty() { 0 } else { 1 }
}

fn run_one(text: &str, bad: &mut Vec<(String, String)>, evaluated_out: &mut u64) {
    let arena = Bump::new();
    let mut ctx = report::ReportContext::new(&arena);
    let mut files: HashMap<PathBuf, Vec<u8>> = HashMap::new();
    files.insert(PathBuf::from("/main.ledger"), text.as_bytes().to_vec());
    let loader = load::Loader::new(PathBuf::from("/main.ledger"), load::FakeFileSystem::from(files));
    let mut ledger = report::process(&mut ctx, loader, &report::ProcessOptions::default()).expect("sample ledger");
    // register: (date, account, commodity, value)
    let mut reg: Vec<(NaiveDate, String, String, Decimal)> = Vec::new();
    for t in ledger.transactions() {
        for p in t.postings.iter() {
            for sa in p.amount.iter() {
                let s = format!("{}", sa);
                let mut it = s.splitn(2, ' ');
                let v: Decimal = it.next().unwrap().parse().unwrap();
                reg.push((t.date, p.account.as_str().to_owned(), it.next().unwrap_or("").to_owned(), v));
            }
        }
    }
    // the register proper: `Ledger::postings` per account (what `okane register FILE ACCOUNT` lists) against the whole-history report
    {
        let whole = match ledger.balance(&ctx, &report::query::BalanceQuery::default()) { Ok(b) => to_bal(b.into_owned()), Err(e) => { bad.push((text.to_owned(), format!("balance failed: {}", e))); Bal::new() } };
        let mut names: std::collections::BTreeSet<String> = reg.iter().map(|r| r.1.clone()).collect();
        names.insert("No:Such:Account".to_owned());
        let mut listed_total = 0usize;
        for name in &names {
            *evaluated_out += 1;
            let listed = ledger.postings(&ctx, &report::query::PostingQuery { account: Some(name.clone()) });
            let mut sum: BTreeMap<String, Decimal> = BTreeMap::new();
            let mut foreign = None;
            for p in &listed {
                if p.account.as_str() != name { foreign = Some(p.account.as_str().to_owned()); }
                for sa in p.amount.iter() {
                    let s = format!("{}", sa);
                    let mut it = s.splitn(2, ' ');
                    let v: Decimal = it.next().unwrap().parse().unwrap();
                    *sum.entry(it.next().unwrap_or("").to_owned()).or_default() += v;
                }
            }
            listed_total += listed.len();
            sum.retain(|_, v| !v.is_zero());
            let mut want = whole.get(name).cloned().unwrap_or_default();
            want.retain(|_, v| !v.is_zero());
            let tol: Decimal = if text.contains("format 1,000.00 X") { "0.005".parse().unwrap() } else if text.contains("format 1,000 JPY") { "0.5".parse().unwrap() } else { Decimal::ZERO };
            let keys: std::collections::BTreeSet<&String> = sum.keys().chain(want.keys()).collect();
            let same = keys.into_iter().all(|c| (sum.get(c).copied().unwrap_or_default() - want.get(c).copied().unwrap_or_default()).abs() <= tol);
            if let Some(f) = foreign {
                bad.push((format!("ledger:\n{}register of account {}", text, name), format!("the register of {} lists a posting of account {}", name, f)));
            } else if !same {
                bad.push((format!("ledger:\n{}register of account {}", text, name), format!("balance reports {:?} but the register sums up to {:?}", want, sum)));
            }
        }
        let all = ledger.postings(&ctx, &report::query::PostingQuery { account: None }).len();
        let n_postings: usize = ledger.transactions().map(|t| t.postings.len()).sum();
        if all != n_postings || listed_total != n_postings {
            bad.push((format!("ledger:\n{}", text), format!("{} postings in the ledger, the unfiltered register lists {}, the per-account registers together {}", n_postings, all, listed_total)));
        }
    }
    let d = |m: u32, dd: u32| NaiveDate::from_ymd_opt(2024, m, dd).unwrap();
    let points = [None, Some(d(1, 1)), Some(d(1, 10)), Some(d(1, 11)), Some(d(1, 20)), Some(d(1, 21)), Some(d(2, 1)), Some(d(2, 2)), Some(d(3, 1)), Some(d(3, 2))];
    let mut evaluated = 0u64;
    for start in points {
        for end in points {
            evaluated += 1;
            let q = report::query::BalanceQuery { conversion: None, date_range: report::query::DateRange { start, end } };
            let got = match ledger.balance(&ctx, &q) {
                Ok(b) => to_bal(b.into_owned()),
                Err(e) => {
                    bad.push((format!("start={:?} end={:?}", start, end), format!("balance failed: {}", e)));
                    continue;
                }
            };
            // expected: sum of the register's postings dated in [start, end); no zero-valued commodity, no empty account
            let mut want = Bal::new();
            for (date, a, c, v) in &reg {
                if start.map(|s| s <= *date).unwrap_or(true) && end.map(|e| *date < e).unwrap_or(true) {
                    *want.entry(a.clone()).or_default().entry(c.clone()).or_default() += *v;
                }
            }
            for h in want.values_mut() {
                h.retain(|_, v| !v.is_zero());
            }
            let mut got_nz = got.clone();
            for (a, h) in &got {
                for (c, v) in h {
                    // "never shows a commodity whose TOTAL is zero": a total that is not zero may still be displayed as 0 after rounding to the declared precision
                    let true_total_is_zero = want.get(a).and_then(|w| w.get(c)).map(|x| x.is_zero()).unwrap_or(true);
                    if v.is_zero() && true_total_is_zero {
                        bad.push((format!("start={:?} end={:?}", start, end), format!("account {} shows commodity {} with a zero total", a, c)));
                    }
                }
            }
            got_nz.retain(|_, h| !h.is_empty());
            want.retain(|_, h| !h.is_empty());
            // "up to rounding to declared precision": X is declared with 2 decimal places in the third ledger
            let tol: Decimal = if text.contains("format 1,000.00 X") { "0.005".parse().unwrap() } else if text.contains("format 1,000 JPY") { "0.5".parse().unwrap() } else { Decimal::ZERO };
            let close = |a: &Bal, b: &Bal| {
                let keys: std::collections::BTreeSet<(&String, &String)> = a.iter().chain(b.iter()).flat_map(|(k, h)| h.keys().map(move |c| (k, c))).collect();
                keys.into_iter().all(|(k, c)| {
                    let x = a.get(k).and_then(|h| h.get(c)).copied().unwrap_or_default();
                    let y = b.get(k).and_then(|h| h.get(c)).copied().unwrap_or_default();
                    (x - y).abs() <= tol
                })
            };
            if !close(&got_nz, &want) && bad.len() < 10 {
                bad.push((format!("ledger:\n{}window: start={:?} end={:?}", text, start, end), format!("balance report {:?} != sum of register postings in [start, end) {:?}", got_nz, want)));
            }
        }
    }
    *evaluated_out += evaluated;
}
