//! Witness family for C04: Ledger::balance over every date window against the sum of the register's postings.
use std::collections::{BTreeMap, HashMap};
use std::path::PathBuf;

use bumpalo::Bump;
use chrono::NaiveDate;
use okane_core::{load, report};
use rust_decimal::Decimal;

type Bal = BTreeMap<String, BTreeMap<String, Decimal>>;

fn to_bal(b: report::Balance) -> Bal {
    let mut out = Bal::new();
    for (acct, amount) in b.into_vec() {
        let mut h = BTreeMap::new();
        for sa in amount.iter() {
            let s = format!("{}", sa);
            let mut it = s.splitn(2, ' ');
            let v: Decimal = it.next().unwrap().parse().unwrap();
            h.insert(it.next().unwrap_or("").to_owned(), v);
        }
        out.insert(acct.as_str().to_owned(), h);
    }
    out
}

pub fn run(_args: &[String]) -> i32 {
    // file order = date order; file order != date order (back-dated entries: the ledger keeps load order); declared precision
    let texts = [
        "2024/01/10 a\n    A    5 X\n    B   -5 X\n\n2024/01/20 b\n    A    -5 X\n    C    5 X\n\n2024/01/20 c\n    A    3 Y\n    B\n\n2024/02/01 d\n    C    -5 X\n    B    5 X\n\n",
        "2024/01/20 b\n    A    -5 X\n    C    5 X\n\n2024/02/01 d\n    C    -5 X\n    B    5 X\n\n2024/01/10 a\n    A    5 X\n    B   -5 X\n\n2024/03/01 e\n    A    7 X\n    B\n\n2024/01/20 c\n    A    3 Y\n    B\n\n",
        "commodity X\n    format 1,000.00 X\n\n2024/02/01 d\n    C    -5.005 X\n    B\n\n2024/01/10 a\n    A    5.005 X\n    B   -5.005 X\n\n2024/01/20 b\n    A    -5.005 X\n    C\n\n",
        // assignments (`= X` without an amount, incl. `= 0 X` and bare `= 0`) and deduced postings: what is booked into the
        // running balance must be what the register lists
        "2024/01/10 open\n    W    100 X\n    W    20 Y\n    E\n\n2024/01/15 count\n    W    = 0 X\n    E\n\n2024/01/20 refill\n    W    30 X\n    E\n\n2024/02/01 set\n    W    = 7 Y\n    V    = 5 X\n    E\n\n2024/02/05 clear\n    V    = 0\n    E\n\n",
    ];
    let mut bad: Vec<(String, String)> = Vec::new();
    let mut evaluated = 0u64;
    for text in texts {
        run_one(text, &mut bad, &mut evaluated);
    }
    for (s, why) in bad.iter().take(10) {
        println!("{}", serde_json::json!({"input": s, "contradiction": why}));
    }
    println!("{}", serde_json::json!({"family": "c04", "evaluated": evaluated, "contradictions": bad.len()}));
    if bad.is_empty() { 0 } else { 1 }
}

fn run_one(text: &str, bad: &mut Vec<(String, String)>, evaluated_out: &mut u64) {
    let arena = Bump::new();
    let mut ctx = report::ReportContext::new(&arena);
    let mut files: HashMap<PathBuf, Vec<u8>> = HashMap::new();
    files.insert(PathBuf::from("/main.ledger"), text.as_bytes().to_vec());
    let loader = load::Loader::new(PathBuf::from("/main.ledger"), load::FakeFileSystem::from(files));
    let mut ledger = report::process(&mut ctx, loader, &report::ProcessOptions::default()).expect("sample ledger");
    // register: (date, account, commodity, value)
    let mut reg: Vec<(NaiveDate, String, String, Decimal)> = Vec::new();
    for t in ledger.transactions() {
        for p in t.postings.iter() {
            for sa in p.amount.iter() {
                let s = format!("{}", sa);
                let mut it = s.splitn(2, ' ');
                let v: Decimal = it.next().unwrap().parse().unwrap();
                reg.push((t.date, p.account.as_str().to_owned(), it.next().unwrap_or("").to_owned(), v));
            }
        }
    }
    let d = |m: u32, dd: u32| NaiveDate::from_ymd_opt(2024, m, dd).unwrap();
    let points = [None, Some(d(1, 1)), Some(d(1, 10)), Some(d(1, 11)), Some(d(1, 20)), Some(d(1, 21)), Some(d(2, 1)), Some(d(2, 2)), Some(d(3, 1)), Some(d(3, 2))];
    let mut evaluated = 0u64;
    for start in points {
        for end in points {
            evaluated += 1;
            let q = report::query::BalanceQuery { conversion: None, date_range: report::query::DateRange { start, end } };
            let got = match ledger.balance(&ctx, &q) {
                Ok(b) => to_bal(b.into_owned()),
                Err(e) => {
                    bad.push((format!("start={:?} end={:?}", start, end), format!("balance failed: {}", e)));
                    continue;
                }
            };
            // expected: sum of the register's postings dated in [start, end); no zero-valued commodity, no empty account
            let mut want = Bal::new();
            for (date, a, c, v) in &reg {
                if start.map(|s| s <= *date).unwrap_or(true) && end.map(|e| *date < e).unwrap_or(true) {
                    *want.entry(a.clone()).or_default().entry(c.clone()).or_default() += *v;
                }
            }
            for h in want.values_mut() {
                h.retain(|_, v| !v.is_zero());
            }
            let mut got_nz = got.clone();
            for (a, h) in &got {
                for (c, v) in h {
                    if v.is_zero() {
                        bad.push((format!("start={:?} end={:?}", start, end), format!("account {} shows commodity {} with a zero total", a, c)));
                    }
                }
            }
            got_nz.retain(|_, h| !h.is_empty());
            want.retain(|_, h| !h.is_empty());
            // "up to rounding to declared precision": X is declared with 2 decimal places in the third ledger
            let tol: Decimal = if text.contains("format 1,000.00 X") { "0.005".parse().unwrap() } else { Decimal::ZERO };
            let close = |a: &Bal, b: &Bal| {
                let keys: std::collections::BTreeSet<(&String, &String)> = a.iter().chain(b.iter()).flat_map(|(k, h)| h.keys().map(move |c| (k, c))).collect();
                keys.into_iter().all(|(k, c)| {
                    let x = a.get(k).and_then(|h| h.get(c)).copied().unwrap_or_default();
                    let y = b.get(k).and_then(|h| h.get(c)).copied().unwrap_or_default();
                    (x - y).abs() <= tol
                })
            };
            if !close(&got_nz, &want) && bad.len() < 10 {
                bad.push((format!("ledger:\n{}window: start={:?} end={:?}", text, start, end), format!("balance report {:?} != sum of register postings in [start, end) {:?}", got_nz, want)));
            }
        }
    }
    *evaluated_out += evaluated;
}
