//! Witness family for C15 (bounded): statements are imported through the real `okane::cmd::ImportCmd` (exactly what
//! `okane import` prints) and, in parallel, through `import::import` + `to_double_entry` (what the importer built); the
//! printed text is parsed with okane's own parser and must give back exactly the built transactions: one per statement
//! record, same date, effective date, state, code, payee, accounts, amounts, rates, assertions and comments; numbers with
//! the same value (only padded).  Inputs: the repository's sample statements and generated CSV statements whose text
//! fields contain characters that mean something in the ledger syntax.
use std::path::{Path, PathBuf};

use okane::import::{self, Format};
use okane_core::parse::{parse_ledger, ParseOptions};
use okane_core::syntax::{self, decoration::AsUndecorated, plain};
use rust_decimal::Decimal;

fn value_of(e: &syntax::expr::ValueExpr) -> Option<(Decimal, String)> {
    // the same VALUE: printing may pad with zeros up to the configured precision
    match e { syntax::expr::ValueExpr::Amount(a) => Some((a.value.value.normalize(), a.commodity.to_string())), _ => None }
}

/// everything the statement lists, as comparable data
fn digest(t: &plain::Transaction) -> Vec<String> {
    let mut v = vec![
        format!("date {}", t.date),
        format!("effective {:?}", t.effective_date),
        format!("state {:?}", t.clear_state),
        format!("code {:?}", t.code.as_ref().map(|c| c.to_string())),
        format!("payee {:?}", t.payee.as_undecorated().to_string()),
    ];
    for m in &t.metadata {
        v.push(format!("meta {:?}", m));
    }
    for p in &t.posts {
        v.push(format!("posting {:?} state {:?}", p.account.as_undecorated().to_string(), p.clear_state));
        if let Some(a) = &p.amount {
            v.push(format!("  amount {:?}", value_of(&a.amount)));
            v.push(format!("  cost {:?}", a.cost.as_ref().map(|c| match c { syntax::Exchange::Rate(e) => ("rate", value_of(e)), syntax::Exchange::Total(e) => ("total", value_of(e)) })));
            v.push(format!("  lot {:?} {:?} {:?}", a.lot.price.as_ref().map(|c| match c { syntax::Exchange::Rate(e) => ("rate", value_of(e)), syntax::Exchange::Total(e) => ("total", value_of(e)) }), a.lot.date, a.lot.note));
        } else {
            v.push("  no amount".into());
        }
        v.push(format!("  assertion {:?}", p.balance.as_ref().map(value_of)));
        for m in &p.metadata {
            v.push(format!("  meta {:?}", m));
        }
    }
    v
}

fn one(dir: &Path, name: &str, config: &str, source_name: &str, data: &[u8], fmt: Format) -> Option<(String, String)> {
    let cfg_path = dir.join(format!("{}.yml", name));
    let src_dir = dir.join(name);
    std::fs::create_dir_all(&src_dir).ok()?;
    let src_path = src_dir.join(source_name);
    std::fs::write(&cfg_path, config).ok()?;
    std::fs::write(&src_path, data).ok()?;
    let desc = format!("config:\n{}\nstatement {}:\n{}", config, source_name, String::from_utf8_lossy(data));
    // what `okane import` prints
    let mut printed: Vec<u8> = Vec::new();
    if let Err(e) = (okane::cmd::ImportCmd { config: cfg_path.clone(), source: src_path.clone() }).run(&mut printed) {
        // a statement the importer refuses is not a read-back failure
        let _ = e;
        return None;
    }
    let printed = String::from_utf8_lossy(&printed).to_string();
    // what the importer built
    let set = import::config::load_from_yaml(config.as_bytes()).ok()?;
    let entry = set.select(&src_path).ok()??;
    let txns = import::import(data, fmt, &entry).ok()?;
    let mut built: Vec<Vec<String>> = Vec::new();
    for t in &txns {
        match t.to_double_entry(&entry.account) { Ok(de) => built.push(digest(&de)), Err(_) => return None }
    }
    // read back with okane's own parser
    let mut parsed: Vec<Vec<String>> = Vec::new();
    for r in parse_ledger::<plain::Ident>(&ParseOptions::default(), &printed) {
        match r {
            Ok((_, syntax::LedgerEntry::Txn(t))) => parsed.push(digest(&t)),
            Ok((_, other)) => return Some((desc, format!("the printed ledger contains an entry that is not a transaction: {:?}\nprinted:\n{}", other, printed))),
            Err(e) => return Some((desc, format!("the printed ledger does not parse: {}\nprinted:\n{}", format!("{}", e).lines().next().unwrap_or(""), printed))),
        }
    }
    if parsed.len() != built.len() {
        return Some((desc, format!("{} statement records were imported but the printed ledger reads back as {} transactions\nprinted:\n{}", built.len(), parsed.len(), printed)));
    }
    for (i, (b, p)) in built.iter().zip(parsed.iter()).enumerate() {
        if b != p {
            let k = b.iter().zip(p.iter()).position(|(x, y)| x != y).unwrap_or(b.len().min(p.len()));
            return Some((desc, format!("transaction {} reads back differently: built `{}`, read back `{}`\nprinted:\n{}", i, b.get(k).cloned().unwrap_or_default(), p.get(k).cloned().unwrap_or_default(), printed)));
        }
    }
    None
}

pub fn run(_args: &[String]) -> i32 {
    let mut bad: Vec<(String, String)> = Vec::new();
    let mut keys: Vec<String> = Vec::new();
    let mut evaluated = 0u64;
    let tmp = tempfile::tempdir().expect("tempdir");
    let repo = std::env::var("VERIF_REPO").unwrap_or_else(|_| "/repo".to_owned());
    let td = PathBuf::from(&repo).join("cli/tests/testdata/import");
    // the repository's own sample statements with its own config
    if let Ok(cfg) = std::fs::read_to_string(td.join("test_config.yml")) {
        for (f, fmt) in [("iso_camt.xml", Format::IsoCamt053), ("viseca.txt", Format::Viseca), ("csv_multi_currency.csv", Format::Csv), ("csv_template.csv", Format::Csv), ("index_amount.csv", Format::Csv), ("label_credit_debit.csv", Format::Csv)] {
            if let Ok(data) = std::fs::read(td.join(f)) {
                evaluated += 1;
                if let Some(b) = one(tmp.path(), &format!("repo{}", evaluated), &cfg, f, &data, fmt) { keys.push(format!("repository sample {}", f)); bad.push(b); }
            }
        }
    }
    // generated CSV statements: text fields carrying ledger syntax
    let texts = [
        "Migros", "Coop  City", " leading and trailing ", "semi;colon", "paren (x) paren", "(all in parens)", "equals = sign", "at @ sign", "star * mark", "* starts with star", "! bang",
        "tab\there", "2024/01/01 looks like a date", "日本語 の 店", "quote \"q\"", "colon: value", ":tag:", "two\nlines", "ends with backslash\\", "  ", "#hash", "%percent", "a\r\nb",
        "A  1000 CHF", "x\n    Expenses:Evil  1,000,000 CHF", "old\rmac", "cr\r", "\rlead", "form\u{c}feed", "nbsp\u{a0}x", "line\u{2028}sep",
    ];
    let cfg = "path: gen\nencoding: UTF-8\naccount: Assets:Bank\naccount_type: asset\noperator: The Bank\ncommodity: CHF\nformat:\n  date: \"%Y-%m-%d\"\n  commodity:\n    CHF:\n      precision: 2\n  fields:\n    date: Date\n    payee: Text\n    note: Note\n    amount: Amount\n    balance: Balance\n    charge: Charge\nrewrite:\n  - matcher:\n      payee: \"(?P<code>[0-9]+) (?P<payee>.*)\"\n    account: Expenses:Coded\n";
    for (i, t) in texts.iter().enumerate() {
        for (as_payee, as_note) in [(true, false), (false, true)] {
            evaluated += 1;
            let q = |s: &str| format!("\"{}\"", s.replace('"', "\"\""));
            let payee = if as_payee { t.to_string() } else { "Shop".to_string() };
            let note = if as_note { t.to_string() } else { "".to_string() };
            let csv = format!("Date,Text,Note,Amount,Balance,Charge\n2024-05-01,{},{},-12.5,987.5,\n2024-05-02,{},{},100,1087.50,0.30\n", q(&payee), q(&note), q(&format!("77 {}", payee)), q(&note));
            if let Some((desc, why)) = one(tmp.path(), &format!("gen{}_{}", i, as_payee as u8), cfg, "gen.csv", csv.as_bytes(), Format::Csv) {
                let key = format!("csv {} field = {:?}: {}", if as_payee { "payee" } else { "note" }, t, why.split("\nprinted:").next().unwrap_or(""));
                if bad.len() < 12 { bad.push((desc, why)); keys.push(key); }
            }
        }
    }
    // a rewrite rule whose `code` group captures the empty string (and a code with spaces / parentheses-free punctuation)
    {
        let cfg3 = cfg.replace("payee: \"(?P<code>[0-9]+) (?P<payee>.*)\"", "payee: \"(?P<code>[0-9 #/.-]*)\\\\|(?P<payee>.*)\"");
        for (i, text) in ["|Shop", "12 34|Shop", "#7/8.9-0|Shop", " |Shop"].iter().enumerate() {
            evaluated += 1;
            let csv = format!("Date,Text,Note,Amount,Balance,Charge\n2024-05-01,\"{}\",,-12.5,987.5,\n", text);
            if let Some((desc, why)) = one(tmp.path(), &format!("code{}", i), &cfg3, "gen.csv", csv.as_bytes(), Format::Csv) {
                let key = format!("csv payee field = {:?} with a code-capturing rule: {}", text, why.split("\nprinted:").next().unwrap_or(""));
                if bad.len() < 12 { bad.push((desc, why)); keys.push(key); }
            }
        }
    }
    // a computed counter amount whose quotient does not terminate: it is printed with every digit rust_decimal keeps (28 places) and must read
    // back as that very number (seed C15-l: the number reader rejected exactly 28 fraction digits)
    {
        let cfg4 = cfg.replace("    charge: Charge\n", "    charge: Charge\n    rate: Rate\n").replace("rewrite:\n", "rewrite:\n  - matcher:\n      payee: \"Wire\"\n    account: Assets:Wire\n    conversion:\n      amount: compute\n      commodity: EUR\n      rate: price_of_secondary\n");
        for (i, (amount, rate)) in [("-5.00", "1.1767"), ("1", "3"), ("-2353.40", "1.1767"), ("100", "7")].iter().enumerate() {
            evaluated += 1;
            let csv = format!("Date,Text,Note,Amount,Balance,Charge,Rate\n2024-05-01,Wire,,{},987.5,,{}\n", amount, rate);
            if let Some((desc, why)) = one(tmp.path(), &format!("conv{}", i), &cfg4, "gen.csv", csv.as_bytes(), Format::Csv) {
                let key = format!("csv amount {} at rate {} with a computed counter amount: {}", amount, rate, why.split("\nprinted:").next().unwrap_or(""));
                if bad.len() < 12 { bad.push((desc, why)); keys.push(key); }
            }
        }
    }
    // long counter accounts: the printed amount must stay separated from the account by two spaces
    for l in 34..=48usize {
        evaluated += 1;
        let mut acct = String::from("Expenses:");
        while acct.len() < l { acct.push(if acct.len() % 9 == 8 { ':' } else { 'x' }); }
        if acct.ends_with(':') { acct.push('y'); }
        let cfg2 = cfg.replace("account: Expenses:Coded", &format!("account: {}", acct)).replace("payee: \"(?P<code>[0-9]+) (?P<payee>.*)\"", "payee: \"Shop\"");
        let csv = "Date,Text,Note,Amount,Balance,Charge\n2024-05-01,Shop,,-1234.56,987.5,\n2024-05-02,Shop,,-12345.6,1087.50,\n2024-05-03,Shop,,-5,1.5,\n";
        if let Some((desc, why)) = one(tmp.path(), &format!("long{}", l), &cfg2, "gen.csv", csv.as_bytes(), Format::Csv) {
            let key = format!("counter account of {} columns: {}", l, why.split("\nprinted:").next().unwrap_or(""));
            if bad.len() < 12 { bad.push((desc, why)); keys.push(key); }
        }
    }
    for ((s, why), key) in bad.iter().zip(keys.iter()).take(12) {
        println!("{}", serde_json::json!({"input": s, "contradiction": why, "key": key}));
    }
    println!("{}", serde_json::json!({"family": "c15", "evaluated": evaluated, "contradictions": bad.len()}));
    if bad.is_empty() { 0 } else { 1 }
}
