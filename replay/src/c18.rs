//! Witness family for C18 (bounded): consistent camt.053 statements generated here, imported through the real
//! `okane::import::import(Format::IsoCamt053)` + `to_double_entry`, compared with the statement of the property, and then
//! booked by okane's own `report::process` after a funding transaction that gives the account its opening balance.
use std::collections::HashMap;
use std::path::{Path, PathBuf};

use bumpalo::Bump;
use chrono::NaiveDate;
use okane::import::{self, Format};
use okane_core::syntax::{self, decoration::AsUndecorated};
use okane_core::{load, report};
use rust_decimal::Decimal;

fn d(s: &str) -> Decimal { s.parse().unwrap() }

/// one statement entry: credit?, amount, booking day, value day, amounts of its batched details (empty: no TxDtls)
#[derive(Clone)]
struct Entry { credit: bool, amount: Decimal, booking: u32, value: Option<u32>, details: Vec<Decimal> }
// a detail amount is signed relative to its entry: a negative value is a detail with the OPPOSITE indicator (a returned
// payment netted in the same batch); the details still sum to the entry

fn ind(credit: bool) -> &'static str { if credit { "CRDT" } else { "DBIT" } }

fn xml(opening: Decimal, opening_credit: bool, closing: Decimal, closing_credit: bool, entries: &[Entry], closing_first: bool, dttm: bool) -> String {
    let mut s = String::from("<?xml version=\"1.0\" encoding=\"UTF-8\"?>\n<Document xmlns=\"urn:iso:std:iso:20022:tech:xsd:camt.053.001.04\">\n<BkToCstmrStmt>\n<Stmt>\n");
    let bal = |code: &str, v: Decimal, credit: bool| format!("<Bal><Tp><CdOrPrtry><Cd>{}</Cd></CdOrPrtry></Tp><Amt Ccy=\"CHF\">{}</Amt><CdtDbtInd>{}</CdtDbtInd><Dt><Dt>2024-03-01</Dt></Dt></Bal>\n", code, v, ind(credit));
    // the order of the balance records carries no meaning
    if closing_first {
        s.push_str(&bal("CLBD", closing, closing_credit));
        s.push_str(&bal("OPBD", opening, opening_credit));
    } else {
        s.push_str(&bal("OPBD", opening, opening_credit));
        s.push_str(&bal("CLBD", closing, closing_credit));
    }
    for (i, e) in entries.iter().enumerate() {
        // dates as `<Dt>` or as `<DtTm>` with a UTC offset, minutes away from midnight: the date meant is the LOCAL one that is written (seed C18-l)
        if dttm {
            s.push_str(&format!("<Ntry><Amt Ccy=\"CHF\">{}</Amt><CdtDbtInd>{}</CdtDbtInd><Sts>BOOK</Sts><BookgDt><DtTm>2024-03-{:02}T00:30:00+01:00</DtTm></BookgDt>", e.amount, ind(e.credit), e.booking));
            if let Some(v) = e.value {
                s.push_str(&format!("<ValDt><DtTm>2024-03-{:02}T23:45:00-05:00</DtTm></ValDt>", v));
            }
        } else {
        s.push_str(&format!("<Ntry><Amt Ccy=\"CHF\">{}</Amt><CdtDbtInd>{}</CdtDbtInd><Sts>BOOK</Sts><BookgDt><Dt>2024-03-{:02}</Dt></BookgDt>", e.amount, ind(e.credit), e.booking));
        if let Some(v) = e.value {
            s.push_str(&format!("<ValDt><Dt>2024-03-{:02}</Dt></ValDt>", v));
        }
        }
        s.push_str("<BkTxCd><Domn><Cd>PMNT</Cd><Fmly><Cd>RCDT</Cd><SubFmlyCd>OTHR</SubFmlyCd></Fmly></Domn></BkTxCd>");
        if !e.details.is_empty() {
            s.push_str(&format!("<NtryDtls><Btch><NbOfTxs>{}</NbOfTxs></Btch>", e.details.len()));
            for (j, a) in e.details.iter().enumerate() {
                let same = !a.is_sign_negative();
                s.push_str(&format!("<TxDtls><Refs><AcctSvcrRef>R{}/{}</AcctSvcrRef></Refs><Amt Ccy=\"CHF\">{}</Amt><CdtDbtInd>{}</CdtDbtInd><AddtlTxInf>detail {} {}</AddtlTxInf></TxDtls>", i, j, a.abs(), ind(if same { e.credit } else { !e.credit }), i, j));
            }
            s.push_str("</NtryDtls>");
        }
        s.push_str(&format!("<AddtlNtryInf>entry {}</AddtlNtryInf></Ntry>\n", i));
    }
    s.push_str("</Stmt>\n</BkToCstmrStmt>\n</Document>\n");
    s
}

fn amount_of(p: &syntax::plain::Posting) -> Option<Decimal> {
    match &p.amount.as_ref()?.amount { syntax::expr::ValueExpr::Amount(a) => Some(a.value.value), _ => None }
}
fn balance_of(p: &syntax::plain::Posting) -> Option<Decimal> {
    match p.balance.as_ref()? { syntax::expr::ValueExpr::Amount(a) => Some(a.value.value), _ => None }
}

pub fn run(_args: &[String]) -> i32 {
    let mut bad: Vec<(String, String)> = Vec::new();
    let mut evaluated = 0u64;
    let e = |credit, amount: &str, booking, value, details: &[&str]| Entry { credit, amount: d(amount), booking, value, details: details.iter().map(|x| d(x)).collect() };
    let scenarios: Vec<(Decimal, Vec<Entry>)> = vec![
        (d("100"), vec![e(true, "1000", 1, Some(1), &[]), e(false, "250.50", 3, Some(4), &[]), e(false, "49.50", 5, None, &[])]),
        (d("0"), vec![e(true, "10", 2, Some(1), &["10"]), e(false, "6", 2, Some(2), &["1", "2", "3"]), e(true, "0.05", 9, Some(10), &["0.02", "0.03"])]),
        (d("-50"), vec![e(true, "80", 1, Some(1), &[]), e(false, "80", 2, Some(2), &["30", "50"])]),
        (d("1234.56"), vec![e(false, "1234.56", 7, Some(8), &[])]),
        (d("5"), vec![e(false, "20", 1, Some(1), &[]), e(true, "7", 2, Some(3), &["7"])]),
        // a batched debit of 170 made of a 200 debit and a 30 credit (opposite indicator inside the batch)
        (d("1000"), vec![e(false, "170", 4, Some(4), &["200", "-30"]), e(true, "50", 6, Some(5), &[])]),
        (d("10"), vec![e(true, "5", 2, None, &["-1", "6"])]),
    ];
    for (opening, entries) in &scenarios {
        for (new_to_old, closing_first, dttm) in [(false, false, false), (true, false, false), (false, true, false), (true, true, false), (false, false, true), (true, true, true)] {
            evaluated += 1;
            let mut closing = *opening;
            for en in entries { closing += if en.credit { en.amount } else { -en.amount }; }
            let xml_entries: Vec<Entry> = if new_to_old { entries.iter().rev().cloned().collect() } else { entries.clone() };
            let doc = xml(opening.abs(), !opening.is_sign_negative(), closing.abs(), !closing.is_sign_negative(), &xml_entries, closing_first, dttm);
            let mut yaml = String::from("path: s.xml\nencoding: UTF-8\naccount: Assets:Bank\naccount_type: asset\noperator: The Bank\ncommodity: CHF\n");
            if new_to_old { yaml.push_str("format:\n  row_order: new_to_old\n"); }
            yaml.push_str("rewrite:\n  - matcher:\n      additional_entry_info: \"entry (?P<payee>.*)\"\n    account: Income:Other\n");
            let desc = format!("config:\n{}\nstatement:\n{}", yaml, doc);
            let set = match import::config::load_from_yaml(yaml.as_bytes()) { Ok(s) => s, Err(er) => { bad.push((desc, format!("config rejected: {}", er))); continue; } };
            let entry = match set.select(Path::new("s.xml")) { Ok(Some(x)) => x, _ => { bad.push((desc, "no config selected".into())); continue; } };
            let txns = match import::import(doc.as_bytes(), Format::IsoCamt053, &entry) { Ok(t) => t, Err(er) => { bad.push((desc, format!("import failed: {}", er))); continue; } };
            // expected transactions oldest first: opening balance, then one per entry or per detail of a batched entry
            let mut want: Vec<(NaiveDate, Option<NaiveDate>, Decimal)> = Vec::new();
            for en in entries {
                let booking = NaiveDate::from_ymd_opt(2024, 3, en.booking).unwrap();
                let date = en.value.map(|v| NaiveDate::from_ymd_opt(2024, 3, v).unwrap()).unwrap_or(booking);
                let eff = if booking != date { Some(booking) } else { None };
                let sign = if en.credit { Decimal::ONE } else { -Decimal::ONE };
                if en.details.is_empty() { want.push((date, eff, sign * en.amount)); } else { for a in &en.details { want.push((date, eff, sign * *a)); } }
            }
            if txns.len() != want.len() + 1 {
                bad.push((desc, format!("{} transactions, expected the opening-balance transaction + {}", txns.len(), want.len())));
                continue;
            }
            let mut ledger_text = format!("2024/01/01 funding\n    Assets:Bank    {} CHF\n    Equity:Opening\n\n", opening);
            let mut problem: Option<String> = None;
            for (i, t) in txns.iter().enumerate() {
                let de = match t.to_double_entry(&entry.account) { Ok(x) => x, Err(er) => { problem = Some(format!("transaction {} could not be converted: {}", i, er)); break; } };
                let acct: Vec<&syntax::plain::Posting> = de.posts.iter().filter(|p| p.account.as_undecorated() == "Assets:Bank").collect();
                if acct.len() != 1 { problem = Some(format!("transaction {}: {} postings on the account", i, acct.len())); break; }
                if i == 0 {
                    if balance_of(acct[0]) != Some(*opening) || amount_of(acct[0]).map(|v| v.is_zero()) != Some(true) {
                        problem = Some(format!("first transaction must assert the opening balance {} with a zero amount: amount {:?}, assertion {:?}", opening, amount_of(acct[0]), balance_of(acct[0])));
                        break;
                    }
                } else {
                    let (date, eff, amount) = want[i - 1];
                    if de.date != date || de.effective_date != eff {
                        problem = Some(format!("transaction {}: dated {} (effective {:?}); the entry has value date {} and booking date {:?}", i, de.date, de.effective_date, date, eff));
                        break;
                    }
                    if amount_of(acct[0]) != Some(amount) {
                        problem = Some(format!("transaction {}: account posting {:?}, the statement says {} (credit positive, debit negative)", i, amount_of(acct[0]), amount));
                        break;
                    }
                    let last = i == txns.len() - 1;
                    if last && balance_of(acct[0]) != Some(closing) { problem = Some(format!("last transaction asserts {:?}, closing balance is {}", balance_of(acct[0]), closing)); break; }
                    if !last && balance_of(acct[0]).is_some() { problem = Some(format!("transaction {} carries an unexpected balance assertion", i)); break; }
                }
                ledger_text.push_str(&format!("{}\n", syntax::display::DisplayContext::default().as_display(&de)));
            }
            if let Some(p) = problem { bad.push((desc, p)); continue; }
            let arena = Bump::new();
            let mut rctx = report::ReportContext::new(&arena);
            let mut files: HashMap<PathBuf, Vec<u8>> = HashMap::new();
            files.insert(PathBuf::from("/m.ledger"), ledger_text.clone().into_bytes());
            let loader = load::Loader::new(PathBuf::from("/m.ledger"), load::FakeFileSystem::from(files));
            let verdict = match report::process(&mut rctx, loader, &report::ProcessOptions::default()) {
                Err(er) => Some(format!("okane's book-keeping rejects the imported ledger: {}", format!("{}", er).lines().next().unwrap_or(""))),
                Ok(mut l) => match l.balance(&rctx, &report::query::BalanceQuery::default()).map(|b| b.into_owned().into_vec()) {
                    Err(er) => Some(format!("balance failed: {}", er)),
                    Ok(v) => {
                        let got: Decimal = v.iter().filter(|(a, _)| a.as_str() == "Assets:Bank").flat_map(|(_, am)| am.iter().map(|s| format!("{}", s)).collect::<Vec<_>>())
                            .map(|s| s.split(' ').next().unwrap().parse::<Decimal>().unwrap()).sum();
                        if got == closing { None } else { Some(format!("the account ends at {}, the statement closes at {}", got, closing)) }
                    }
                },
            };
            if let Some(v) = verdict { bad.push((format!("{}\nimported ledger:\n{}", desc, ledger_text), v)); }
        }
    }
    for (s, why) in bad.iter().take(8) {
        println!("{}", serde_json::json!({"input": s, "contradiction": why}));
    }
    println!("{}", serde_json::json!({"family": "c18", "evaluated": evaluated, "contradictions": bad.len()}));
    if bad.is_empty() { 0 } else { 1 }
}
