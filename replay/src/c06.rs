//! Witness family for C06: every prefix (cut at each char boundary) of sample ledgers, plus short strings over the
//! ledger alphabet, is fed to parse/format and to report::process; a panic or a hang (> 3 s for one input) is a contradiction.
use std::collections::HashMap;
use std::io::Cursor;
use std::panic::{catch_unwind, AssertUnwindSafe};
use std::path::PathBuf;
use std::sync::mpsc;
use std::time::Duration;

use bumpalo::Bump;
use okane_core::{format, load, report};

fn run_one(text: &str) -> Option<String> {
    let t = text.to_owned();
    let r = catch_unwind(AssertUnwindSafe(move || {
        let mut out = Vec::new();
        let _ = format::FormatOptions::new().format(&mut Cursor::new(t.as_bytes()), &mut out);
        let arena = Bump::new();
        let mut ctx = report::ReportContext::new(&arena);
        let mut files: HashMap<PathBuf, Vec<u8>> = HashMap::new();
        files.insert(PathBuf::from("/main.ledger"), t.clone().into_bytes());
        files.insert(PathBuf::from("/other.ledger"), b"2024/02/01 x\n    A  1 JPY\n    B\n".to_vec());
        let loader = load::Loader::new(PathBuf::from("/main.ledger"), load::FakeFileSystem::from(files));
        let res = match report::process(&mut ctx, loader, &report::ProcessOptions::default()) {
            Ok(mut l) => {
                let _ = l.balance(&ctx, &report::query::BalanceQuery::default()).map(|_| ());
            }
            Err(e) => {
                let _ = format!("{}", e);
            }
        };
        res
    }));
    match r {
        Ok(()) => None,
        Err(_) => Some("panicked".to_owned()),
    }
}

/// include graphs: (name, files, must be accepted)
fn include_scenarios() -> Vec<(&'static str, Vec<(&'static str, &'static str)>, bool)> {
    let txn = "2024/01/01 x\n    A  1 JPY\n    B\n\n";
    vec![
        ("a file that includes itself", vec![("/main.ledger", "include main.ledger\n")], false),
        ("two files that include each other", vec![("/main.ledger", "include b.ledger\n"), ("/b.ledger", "2024/01/01 x\n    A  1 JPY\n    B\n\ninclude main.ledger\n")], false),
        ("a cycle through a sub-directory and `..`", vec![("/main.ledger", "include sub/c.ledger\n"), ("/sub/c.ledger", "include ../main.ledger\n")], false),
        ("the same file included twice (no cycle)", vec![("/main.ledger", "include b.ledger\ninclude b.ledger\n"), ("/b.ledger", txn)], true),
        ("a diamond (no cycle)", vec![("/main.ledger", "include b.ledger\ninclude c.ledger\n"), ("/b.ledger", "include d.ledger\n"), ("/c.ledger", "include d.ledger\n"), ("/d.ledger", txn)], true),
    ]
}

/// child mode: load one include graph; a stack overflow kills this process (it cannot be caught), which the parent observes
fn include_child(idx: usize) -> i32 {
    let (_, files, _) = include_scenarios().into_iter().nth(idx).expect("scenario");
    let arena = Bump::new();
    let mut ctx = report::ReportContext::new(&arena);
    let mut fs: HashMap<PathBuf, Vec<u8>> = HashMap::new();
    for (p, c) in files {
        fs.insert(PathBuf::from(p), c.as_bytes().to_vec());
    }
    let loader = load::Loader::new(PathBuf::from("/main.ledger"), load::FakeFileSystem::from(fs));
    let rc = match report::process(&mut ctx, loader, &report::ProcessOptions::default()) {
        Ok(_) => { println!("accepted"); 0 }
        Err(e) => { println!("rejected: {}", format!("{}", e).lines().next().unwrap_or("")); 3 }
    };
    rc
}

fn include_sweep(bad: &mut Vec<(String, String)>) -> usize {
    let exe = match std::env::current_exe() { Ok(e) => e, Err(_) => return 0 };
    let mut n = 0;
    for (i, (name, files, ok)) in include_scenarios().into_iter().enumerate() {
        n += 1;
        let desc = format!("{}: {}", name, files.iter().map(|(p, c)| format!("{} = {:?}", p, c)).collect::<Vec<_>>().join("; "));
        let mut child = match std::process::Command::new(&exe).args(["c06", "--include-child", &i.to_string()]).stdout(std::process::Stdio::null()).stderr(std::process::Stdio::null()).spawn() {
            Ok(c) => c,
            Err(_) => continue,
        };
        let start = std::time::Instant::now();
        let status = loop {
            match child.try_wait() {
                Ok(Some(st)) => break Some(st),
                Ok(None) if start.elapsed() > Duration::from_secs(20) => { let _ = child.kill(); let _ = child.wait(); break None; }
                Ok(None) => std::thread::sleep(Duration::from_millis(20)),
                Err(_) => break None,
            }
        };
        match status {
            None => bad.push((desc, "loading did not terminate within 20 s".into())),
            Some(st) => match st.code() {
                Some(0) if ok => {}
                Some(3) if !ok => {}
                Some(0) => bad.push((desc, "an include cycle was accepted".into())),
                Some(3) => bad.push((desc, "a ledger without an include cycle was rejected".into())),
                Some(c) => bad.push((desc, format!("loader process exited with status {}", c))),
                None => bad.push((desc, "the process was killed by a signal while loading (stack overflow / abort): no diagnostic".into())),
            },
        }
    }
    n
}

pub fn run(args: &[String]) -> i32 {
    if args.first().map(|x| x == "--include-child").unwrap_or(false) {
        return include_child(args.get(1).and_then(|x| x.parse().ok()).unwrap_or(0));
    }
    let thorough = args.first().map(|x| x == "thorough").unwrap_or(false);
    let mut inputs: Vec<String> = Vec::new();
    if args.first().map(|x| x == "--only").unwrap_or(false) {
        inputs.push(args.get(1).cloned().unwrap_or_default());
    } else {
        let mut samples: Vec<String> = vec![include_str!("../data/sample.ledger").to_owned()];
        let repo = std::env::var("VERIF_REPO").unwrap_or_else(|_| "/repo".to_owned());
        for p in ["testdata/report/multi_commodity.ledger", "testdata/report/single_commodity.ledger"] {
            if let Ok(s) = std::fs::read_to_string(format!("{}/{}", repo, p)) {
                samples.push(s);
            }
        }
        for s in &samples {
            let step = if thorough { 1 } else { 3 };
            for (n, (i, _)) in s.char_indices().enumerate() {
                if n % step == 0 {
                    inputs.push(s[..i].to_owned());
                }
            }
            inputs.push(s.clone());
            inputs.push(s.replace('\n', "\r\n"));
        }
        // short strings over the ledger alphabet
        let alpha: Vec<&str> = vec!["a", " ", "\n", ";", "1", "=", "@", "(", "{", "-", ".", ",", "/", "あ", "\r"];
        let maxlen = if thorough { 4 } else { 3 };
        fn rec(buf: &mut String, left: usize, alpha: &[&str], out: &mut Vec<String>) {
            out.push(buf.clone());
            if left == 0 {
                return;
            }
            for a in alpha {
                let l = buf.len();
                buf.push_str(a);
                rec(buf, left - 1, alpha, out);
                buf.truncate(l);
            }
        }
        rec(&mut String::new(), maxlen, &alpha, &mut inputs);
        for kw in ["account", "commodity", "include", "apply tag", "end apply tag", "2024/01/01", "2024/01/01 x\n a  1 (", "P 2024/01/01 X 0 Y", "2024/01/01 x\n A  0 X @@ 5 Y\n B  -5 Y",
                   "2024/01/01 x\n A  0,000.05 USD\n B", "2024/01/01 x\n A  -00,000.0100 USD\n B", "2024/01/01 x\n A  1 USD @ 0,000.0075 EUR = 0,000.09 USD\n B", "commodity USD\n    format 0,000.00001 USD",
                   "2024/01/01 x\n A  000,000 USD\n B", "2024/01/01 x\n A  (0,000.5 USD * -0,000.001)\n B"] {
            inputs.push(kw.to_owned());
            inputs.push(format!("{}\n", kw));
        }
    }
    let total = inputs.len();
    let (tx, rx) = mpsc::channel::<(usize, Option<String>)>();
    let worker_inputs = inputs.clone();
    std::thread::spawn(move || {
        for (i, s) in worker_inputs.iter().enumerate() {
            let r = run_one(s);
            if tx.send((i, r)).is_err() {
                return;
            }
        }
    });
    let mut bad: Vec<(String, String)> = Vec::new();
    let mut done = 0usize;
    while done < total {
        match rx.recv_timeout(Duration::from_secs(3)) {
            Ok((i, r)) => {
                done = i + 1;
                if let Some(why) = r {
                    if bad.len() < 10 {
                        bad.push((inputs[i].clone(), why));
                    }
                }
            }
            Err(_) => {
                bad.push((inputs[done].clone(), "did not terminate within 3 s (hang)".to_owned()));
                break;
            }
        }
    }
    // include graphs, each loaded in a child process (a stack overflow cannot be caught in-process)
    if !args.first().map(|x| x == "--only").unwrap_or(false) {
        done += include_sweep(&mut bad);
    }
    // ledgers with exactly one invalid entry (LF and CRLF, root and included files): building and rendering the
    // diagnostic must not panic
    let (n3, bad3) = crate::c14::sweep(true);
    done += n3 as usize;
    for b in bad3.into_iter().take(5) {
        bad.push(b);
    }
    // small ledgers of every posting shape through book-keeping: only crashes count here
    let (n2, bad2) = crate::ledger::sweep(thorough, true);
    done += n2 as usize;
    for b in bad2.into_iter().take(5) {
        bad.push(b);
    }
    for (s, why) in &bad {
        println!("{}", serde_json::json!({"input": s, "contradiction": why}));
    }
    println!("{}", serde_json::json!({"family": "c06", "evaluated": done, "contradictions": bad.len()}));
    std::process::exit(if bad.is_empty() { 0 } else { 1 });
}
