//! Witness family for C06: every prefix (cut at each char boundary) of sample ledgers, plus short strings over the
//! ledger alphabet, is fed to parse/format and to report::process; a panic or a hang (> 3 s for one input) is a contradiction.
use std::collections::HashMap;
use std::io::Cursor;
use std::panic::{catch_unwind, AssertUnwindSafe};
use std::path::PathBuf;
use std::sync::mpsc;
use std::time::Duration;

use bumpalo::Bump;
use okane_core::{format, load, report};

fn run_one(text: &str) -> Option<String> {
    let t = text.to_owned();
    let r = catch_unwind(AssertUnwindSafe(move || {
        let mut out = Vec::new();
        let _ = format::FormatOptions::new().format(&mut Cursor::new(t.as_bytes()), &mut out);
        let arena = Bump::new();
        let mut ctx = report::ReportContext::new(&arena);
        let mut files: HashMap<PathBuf, Vec<u8>> = HashMap::new();
        files.insert(PathBuf::from("/main.ledger"), t.clone().into_bytes());
        files.insert(PathBuf::from("/other.ledger"), b"2024/02/01 x\n    A  1 JPY\n    B\n".to_vec());
        let loader = load::Loader::new(PathBuf::from("/main.ledger"), load::FakeFileSystem::from(files));
        let res = match report::process(&mut ctx, loader, &report::ProcessOptions::default()) {
            Ok(mut l) => {
                let _ = l.balance(&ctx, &report::query::BalanceQuery::default()).map(|_| ());
            }
            Err(e) => {
                let _ = format!("{}", e);
            }
        };
        res
    }));
    match r {
        Ok(()) => None,
        Err(_) => Some("panicked".to_owned()),
    }
}

pub fn run(args: &[String]) -> i32 {
    let thorough = args.first().map(|x| x == "thorough").unwrap_or(false);
    let mut inputs: Vec<String> = Vec::new();
    if args.first().map(|x| x == "--only").unwrap_or(false) {
        inputs.push(args.get(1).cloned().unwrap_or_default());
    } else {
        let mut samples: Vec<String> = vec![include_str!("../data/sample.ledger").to_owned()];
        for p in ["/repo/testdata/report/multi_commodity.ledger", "/repo/testdata/report/single_commodity.ledger"] {
            if let Ok(s) = std::fs::read_to_string(p) {
                samples.push(s);
            }
        }
        for s in &samples {
            let step = if thorough { 1 } else { 3 };
            for (n, (i, _)) in s.char_indices().enumerate() {
                if n % step == 0 {
                    inputs.push(s[..i].to_owned());
                }
            }
            inputs.push(s.clone());
            inputs.push(s.replace('\n', "\r\n"));
        }
        // short strings over the ledger alphabet
        let alpha: Vec<&str> = vec!["a", " ", "\n", ";", "1", "=", "@", "(", "{", "-", ".", ",", "/", "あ", "\r"];
        let maxlen = if thorough { 4 } else { 3 };
        fn rec(buf: &mut String, left: usize, alpha: &[&str], out: &mut Vec<String>) {
            out.push(buf.clone());
            if left == 0 {
                return;
            }
            for a in alpha {
                let l = buf.len();
                buf.push_str(a);
                rec(buf, left - 1, alpha, out);
                buf.truncate(l);
            }
        }
        rec(&mut String::new(), maxlen, &alpha, &mut inputs);
        for kw in ["account", "commodity", "include", "apply tag", "end apply tag", "2024/01/01", "2024/01/01 x\n a  1 (", "P 2024/01/01 X 0 Y", "2024/01/01 x\n A  0 X @@ 5 Y\n B  -5 Y"] {
            inputs.push(kw.to_owned());
            inputs.push(format!("{}\n", kw));
        }
    }
    let total = inputs.len();
    let (tx, rx) = mpsc::channel::<(usize, Option<String>)>();
    let worker_inputs = inputs.clone();
    std::thread::spawn(move || {
        for (i, s) in worker_inputs.iter().enumerate() {
            let r = run_one(s);
            if tx.send((i, r)).is_err() {
                return;
            }
        }
    });
    let mut bad: Vec<(String, String)> = Vec::new();
    let mut done = 0usize;
    while done < total {
        match rx.recv_timeout(Duration::from_secs(3)) {
            Ok((i, r)) => {
                done = i + 1;
                if let Some(why) = r {
                    if bad.len() < 10 {
                        bad.push((inputs[i].clone(), why));
                    }
                }
            }
            Err(_) => {
                bad.push((inputs[done].clone(), "did not terminate within 3 s (hang)".to_owned()));
                break;
            }
        }
    }
    // small ledgers of every posting shape through book-keeping: only crashes count here
    let (n2, bad2) = crate::ledger::sweep(thorough, true);
    done += n2 as usize;
    for b in bad2.into_iter().take(5) {
        bad.push(b);
    }
    for (s, why) in &bad {
        println!("{}", serde_json::json!({"input": s, "contradiction": why}));
    }
    println!("{}", serde_json::json!({"family": "c06", "evaluated": done, "contradictions": bad.len()}));
    std::process::exit(if bad.is_empty() { 0 } else { 1 });
}
