//! Witness family for C19: formatted postings against the column rules of the statement, through the real
//! `FormatOptions::format`.  Account names of every display width 1..=70 (ASCII and wide), with/without clear mark,
//! several amount shapes, amount-only / amount+assertion / assertion-only postings.
use okane_core::format::FormatOptions;
use std::io::Cursor;

fn fmt(text: &str) -> Result<String, String> {
    let mut out = Vec::new();
    FormatOptions::new().format(&mut Cursor::new(text.as_bytes()), &mut out).map_err(|e| format!("{}", e))?;
    String::from_utf8(out).map_err(|e| e.to_string())
}

fn width(s: &str) -> usize {
    // East-Asian wide characters count two columns (the test alphabet only has ASCII and あ)
    s.chars().map(|c| if c == 'あ' { 2 } else { 1 }).sum()
}

pub fn check_one(account: &str, mark: &str, rest: &str, numeric_len: Option<usize>) -> Option<(String, String)> {
    let input = format!("2024/01/01 x\n    {}{}  {}\n    B\n", mark, account, rest);
    let out = match fmt(&input) {
        Ok(o) => o,
        Err(e) => return Some((input, format!("does not format: {}", e))),
    };
    let line = out.lines().nth(1).unwrap_or("");
    let head = format!("    {}{}", mark, account);
    if !line.starts_with(&head) {
        return Some((input, format!("posting line does not start with four spaces + account: {:?}", line)));
    }
    let tail = &line[head.len()..];
    let spaces = tail.len() - tail.trim_start_matches(' ').len();
    if spaces < 2 {
        return Some((input, format!("only {} space(s) separate the account from what follows: {:?}", spaces, line)));
    }
    let aw = width(mark) + width(account);
    if let Some(nl) = numeric_len {
        // numeric part of the amount ends at display column 52 when the account is short enough
        if aw + nl + 2 < 48 {
            let end = 4 + aw + spaces + nl;
            if end != 52 {
                return Some((input, format!("numeric part ends at column {}, not 52: {:?}", end, line)));
            }
        }
    }
    // assertion-only posting: `=` falls where it would after an amount in that commodity
    // (numeric part ending at column 52, then " <commodity>", then " =")
    if numeric_len.is_none() && rest.starts_with("= ") {
        let value = &rest[2..];
        let commodity = value.split_once(' ').map(|x| x.1).unwrap_or("");
        let trailing = if commodity.is_empty() { 0 } else { 1 + width(commodity) };
        if aw + 3 <= 50 + trailing {
            let eq_col = 4 + aw + spaces + 1;
            if eq_col != 52 + trailing + 2 {
                return Some((input, format!("`=` is in column {}, after an amount it would be in column {}: {:?}", eq_col, 52 + trailing + 2, line)));
            }
        }
    }
    // formatting what was formatted changes nothing (and so re-parses to the same entries)
    match fmt(&out) {
        Ok(again) if again == out => None,
        Ok(again) => Some((input, format!("formatting the formatted text changed it: {:?} -> {:?}", line, again.lines().nth(1).unwrap_or("")))),
        Err(e) => Some((input, format!("formatted text does not parse: {}", e))),
    }
}

pub fn run(args: &[String]) -> i32 {
    let mut bad: Vec<(String, String)> = Vec::new();
    let mut evaluated = 0u64;
    if args.first().map(|x| x == "--only").unwrap_or(false) {
        let text = args.get(1).cloned().unwrap_or_default();
        println!("{}", serde_json::json!({"input": text, "observed": format!("{:?}", fmt(&text))}));
        println!("{}", serde_json::json!({"family": "c19", "evaluated": 1, "contradictions": 0, "note": "observation only"}));
        return 0;
    }
    let thorough = args.first().map(|x| x == "thorough").unwrap_or(false);
    let shapes: Vec<(&str, Option<usize>)> = vec![
        ("100 CHF", Some(3)),
        ("-123,456.789 CHF", Some(12)),
        ("1.5 USD @ 150 JPY", Some(3)),
        ("10 OKANE {80 JPY}", Some(2)),
        ("100 CHF = 1,000 CHF", Some(3)),
        ("= 0 JPY", None),
        ("= -1,234.50 CHF", None),
        ("= 0", None),
        // expressions: the numeric part ends after the first number that carries a commodity, counting parentheses and unary minus
        ("(-10 USD * 2.1)", Some(4)),
        ("(2 * -3.25 USD)", Some(10)),
        ("(-(1 USD + 2 USD) * 3)", Some(4)),
        ("(1,000.5 CHF + 2 CHF) @ 3 JPY", Some(8)),
        ("= (-10 USD * 2)", None),
        // wide-character commodities: measured in display columns, not bytes or chars
        ("= 1,000 あ", None),
        ("= 5 あああ", None),
        ("1,000 あ", Some(5)),
        ("12 あb = 30 あb", Some(2)),
    ];
    let maxw = if thorough { 90 } else { 70 };
    for w in 1..=maxw {
        for wide in [false, true] {
            let account: String = if wide {
                if w < 2 { continue; }
                let mut s = String::from("A:");
                while width(&s) + 2 <= w { s.push('あ'); }
                while width(&s) < w { s.push('b'); }
                s
            } else {
                let mut s = String::from("A");
                while s.len() < w { s.push(if s.len() % 7 == 3 { ':' } else { 'a' }); }
                s
            };
            if account.ends_with(':') || account.contains("::") { continue; }
            for mark in ["", "* ", "! "] {
                for (rest, nl) in &shapes {
                    evaluated += 1;
                    if let Some(b) = check_one(&account, mark, rest, *nl) {
                        if bad.len() < 10 { bad.push(b); }
                    }
                }
            }
        }
    }
    for (s, why) in &bad {
        println!("{}", serde_json::json!({"input": s, "contradiction": why}));
    }
    println!("{}", serde_json::json!({"family": "c19", "evaluated": evaluated, "contradictions": bad.len()}));
    if bad.is_empty() { 0 } else { 1 }
}
