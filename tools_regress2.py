#!/usr/bin/env python3
"""tools_regress2.py [repo-copy] : development-only regression against a COPY of the repository (VERIF_REPO), so that /repo stays free.
Every seeded change must be reported (exit 1; exit 2 is listed separately), no neutral refactoring may be (never exit 1).
Run through `vp run --with-repo -- python3 tools_regress2.py` (uses $VP_RUN_REPO) or with an explicit copy.  Patches are applied with patch(1)."""
import glob, json, os, re, subprocess, sys
here = os.path.dirname(os.path.abspath(__file__))
repo = sys.argv[1] if len(sys.argv) > 1 else os.environ.get("VP_RUN_REPO")
assert repo and os.path.isdir(repo), "no repository copy given"
only = sys.argv[2:]  # optional list of seed names
env = dict(os.environ, VERIF_REPO=repo)
def sh(*a, **k): return subprocess.run(*a, capture_output=True, text=True, **k)
def with_patch(diff, fn):
    r = sh(["patch", "-p1", "-s", "-i", diff], cwd=repo)
    if r.returncode != 0:
        print("PATCH DID NOT APPLY", diff, r.stdout[-300:]); sh(["patch", "-p1", "-R", "-s", "-i", diff], cwd=repo); return
    try:
        fn()
    finally:
        r = sh(["patch", "-p1", "-R", "-s", "-i", diff], cwd=repo)
        if r.returncode != 0: print("REVERT FAILED", diff, r.stdout[-300:]); sys.exit(3)
        for junk in glob.glob(repo + "/**/*.orig", recursive=True): os.remove(junk)
sh(["./setup.sh"], cwd=here)
res = {"caught": [], "inconclusive": [], "MISSED": [], "FALSE ALARM": []}
for d in sorted(os.listdir(here + "/seeded")):
    meta = f"{here}/seeded/{d}/meta.json"
    if not os.path.isfile(meta) or (only and d not in only): continue
    m = json.load(open(meta)); props = m["breaks"] if isinstance(m["breaks"], list) else [m["breaks"]]
    def run():
        for p in props:
            c = sh(["./check", p, "--tier", "quick"], cwd=here, env=env)
            tag = {0: "MISSED", 1: "caught", 2: "inconclusive"}.get(c.returncode, "MISSED")
            res[tag].append(f"{d}/{p}")
            v = [l for l in c.stdout.splitlines() if l.startswith(("VIOLATION", "failed obligation"))]
            print(f"seed {d} vs {p}: rc={c.returncode} {tag} {' | '.join(v)[:230]}", flush=True)
    with_patch(f"{here}/seeded/{d}/patch.diff", run)
MAP = [("pretty_decimal", ["C07", "C06"]), ("book_keeping", ["C01", "C02", "C03", "C04", "C06", "C12"]), ("balance.rs", ["C02", "C03", "C04", "C10", "C13"]), ("evaluated", ["C08", "C12"]),
       ("eval/amount", ["C01", "C02", "C03", "C08", "C13"]), ("intern", ["C12"]), ("golden", ["C20"]), ("query.rs", ["C04", "C10", "C13"]), ("price_db", ["C01", "C06", "C09", "C10", "C13"]),
       ("extract.rs", ["C17", "C13"]), ("display.rs", ["C19", "C07"]), ("adaptor.rs", ["C14"]), ("parse/error.rs", ["C14", "C06"]), ("config.rs", ["C17"]), ("csv.rs", ["C16"]), ("single_entry", ["C16"])]
if not only:
  for f in sorted(glob.glob(here + "/seeded/neutral*/*.diff")):
    t = open(f).read(); props = []
    for k, v in MAP:
        if re.search(r"^\+\+\+ b/.*" + re.escape(k), t, re.M): props += [p for p in v if p not in props]
    def run():
        for p in props:
            c = sh(["./check", p, "--tier", "quick"], cwd=here, env=env)
            tag = {0: "ok", 1: "FALSE ALARM", 2: "inconclusive-neutral"}.get(c.returncode, "?")
            if tag == "FALSE ALARM": res[tag].append(f"{os.path.basename(f)}/{p}")
            print(f"neutral {os.path.basename(os.path.dirname(f))}/{os.path.basename(f)} vs {p}: rc={c.returncode} {tag}", flush=True)
    with_patch(f, run)
print("SUMMARY", {k: len(v) for k, v in res.items()}); print("MISSED:", res["MISSED"]); print("FALSE ALARMS:", res["FALSE ALARM"]); print("inconclusive seeds:", res["inconclusive"])
