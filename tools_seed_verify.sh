#!/bin/bash
# tools_seed_verify.sh <ID> <srcdir> : confirm a seeded change in a scratch worktree:
#   base + demo passes; patched: whole suite passes, demo fails.  Copies into /verif/seeded/<ID>/.
set -u
ID=$1; SRC=$2; W=/tmp/seedcheck/$ID; T=/tmp/seedcheck/target
mkdir -p /tmp/seedcheck; rm -rf $W; git -C /repo worktree prune; git -C /repo worktree add -q --detach $W HEAD || exit 3
demo=$(cd $SRC && git status --porcelain | grep '^??' | grep -E 'tests/.*\.rs$' | awk '{print $2}' | head -1)
echo "demo file: $demo"
mkdir -p $(dirname $W/$demo); cp $SRC/$demo $W/$demo
crate=$(echo $demo | cut -d/ -f1); pkg=$( [ "$crate" = core ] && echo okane-core || ([ "$crate" = cli ] && echo okane || echo okane-golden) )
tname=$(basename $demo .rs)
cd $W
echo "--- base: demo must pass"; CARGO_TARGET_DIR=$T cargo test --offline -p $pkg --test $tname 2>&1 | grep -E "^test result" | head -5
git apply $SRC/patch.diff || { echo "PATCH FAILED"; exit 3; }
echo "--- patched: demo must fail"; CARGO_TARGET_DIR=$T cargo test --offline -p $pkg --test $tname 2>&1 | grep -E "^test result" | head -5
mv $W/$demo /tmp/seedcheck/demo.tmp
echo "--- patched: whole suite must pass"; CARGO_TARGET_DIR=$T cargo test --workspace --offline 2>&1 | grep -E "^test result|FAILED|failed|error\[" | sort | uniq -c | head -12
mkdir -p /verif/seeded/$ID; cp $SRC/patch.diff /verif/seeded/$ID/patch.diff; cp /tmp/seedcheck/demo.tmp /verif/seeded/$ID/$(basename $demo); cp $SRC/NOTES.md /verif/seeded/$ID/NOTES.md 2>/dev/null
cd /; git -C /repo worktree remove --force $W
