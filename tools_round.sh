#!/bin/bash
# tools_round.sh <round-letter> <Cxx> ... : for each /tmp/seed/<Cxx><letter>: confirm the seed in a scratch worktree, store it as
# seeded/<Cxx>-<letter>, remove the agent's worktree, run the property's quick check against it.  Development only.
r=$1; shift
cd /verif
for p in "$@"; do
  w=/tmp/seed/${p}${r}; id=${p}-${r}
  [ -f $w/patch.diff ] || { echo "== $id: no patch.diff"; continue; }
  echo "== $id verify"
  ./tools_seed_verify.sh $id $w 2>&1 | grep -A1 "demo must\|PATCH" | grep "test result\|PATCH" | tr '\n' ' '; echo
  cat > seeded/$id/meta.json <<EOF
{
 "breaks": "$p",
 "source": "sub-agent given only the property text and a scratch worktree (round $r)",
 "needs": "see NOTES.md",
 "confirmed": "scratch worktree: demo passes on base, fails with patch; whole suite passes with patch"
}
EOF
  git -C /repo worktree remove --force $w
  python3 tools_seed.py $id 2>&1 | grep -v "^reverted: True" | cut -c1-380
done
rm -rf /tmp/seedcheck/target
