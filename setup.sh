#!/bin/sh
# offline setup: build the replay crate (path deps on /repo) and warm the Kani dependency cache
set -e
cd /verif
mkdir -p .cache evidence replays
export CARGO_NET_OFFLINE=true
(cd replay && cp -f /repo/Cargo.lock Cargo.lock.repo 2>/dev/null || true; CARGO_TARGET_DIR=/verif/.cache/replay-target cargo build --offline -q) || echo "replay crate build failed (checks will report no-failing-input-found)"
exit 0
