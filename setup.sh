#!/bin/sh
# offline setup: build the replay crate (path deps on /repo) and warm the Kani dependency cache for okane-core
set -e
cd /verif
mkdir -p .cache evidence replays
export CARGO_NET_OFFLINE=true
(cd replay && CARGO_TARGET_DIR=/verif/.cache/replay-target cargo build --offline -q) || echo "replay crate build failed (checks will report no-failing-input-found)"
# first cargo-kani build of the dependencies takes about a minute; do it once here
python3 - <<'PY' || true
import sys
sys.path.insert(0, '/verif')
from kx import kani
r = kani.run_harnesses('/repo', ['get_column_complete'], 'quick')
print('kani warm-up:', [(x['harness'], x['status']) for x in r])
PY
exit 0
