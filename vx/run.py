"""Build a group's Verus file from /repo, run Verus, classify the outcome."""
import importlib
import json
import os
import re
import subprocess
import time

from . import extract as X

HERE = os.path.dirname(os.path.abspath(__file__))

# messages that mean "an obligation generated from the unit was not discharged"
OBLIGATION_MSGS = [
    "postcondition not satisfied",
    "precondition not satisfied",
    "invariant not satisfied at end of loop body",
    "invariant not satisfied before loop",
    "assertion failed",
    "possible arithmetic underflow/overflow",
    "possible division by zero",
    "decreases not satisfied",
    "Call to non-static function fails to satisfy",
    "could not prove termination",
    "unreachable",
    "loop invariant not satisfied",
    "possible bit shift underflow/overflow",
    "cannot show invariant",
    "failed to satisfy",
    "unable to prove post-condition of closure",
    "unable to prove",
    "not satisfied",
]
INCONCLUSIVE_MSGS = ["rlimit", "Resource limit", "timed out", "timeout", "canceled"]


def load_group(name):
    mod = importlib.import_module(f"vx.groups.{name}")
    importlib.reload(mod)
    return mod.GROUP


def build_group(repo, group, canary=False):
    """returns (text, parts[(first_line, last_line, kind, name)], log)"""
    log = []
    chunks = ["#![allow(unused)]\n" + "".join(f"#![feature({f})]\n" for f in group.get("features", []))
              + "use vstd::prelude::*;\n" + group.get("uses", "") + "\nverus! {\n"
              + ("broadcast use {" + ", ".join(group["broadcast"]) + "};\n" if group.get("broadcast") else "")]
    names = ["<header>"]
    kinds = ["text"]
    for kind, val in group["parts"]:
        if kind == "raw":
            chunks.append(val)
            names.append("<raw>")
            kinds.append("text")
        elif kind == "text":
            chunks.append(f"// ---- prelude/spec {val} ----\n" + open(os.path.join(HERE, "prelude", val)).read() + "\n")
            names.append(val)
            kinds.append("text")
        else:
            chunks.append(X.extract_unit(repo, val, log))
            names.append(val["name"])
            kinds.append("unit")
    if canary:
        for kind, val in group["parts"]:
            if kind == "unit" and val.get("contract") and not val.get("no_canary") and not val.get("opaque") and X.can_canary(repo, val):
                chunks.append(X.extract_unit(repo, val, log, canary=True))
                names.append(val["name"] + "__canary")
                kinds.append("canary")
    chunks.append("} // verus!\nfn main() {}\n")
    names.append("<footer>")
    kinds.append("text")
    parts, line = [], 1
    for c, nm, kd in zip(chunks, names, kinds):
        nl = c.count("\n")
        parts.append((line, line + nl - 1, kd, nm))
        line += nl
    return "".join(chunks), parts, log


def run_verus(path, rlimit=None, timeout=900, extra=(), max_errors=50):
    cmd = ["verus", path, "--output-json", "--time", "--multiple-errors", str(max_errors), "--error-format=json"]
    if rlimit:
        cmd += ["--rlimit", str(rlimit)]
    cmd += list(extra)
    t0 = time.time()
    import signal
    p = subprocess.Popen(cmd, stdout=subprocess.PIPE, stderr=subprocess.PIPE, text=True, cwd=os.path.dirname(path), start_new_session=True)
    try:
        out, err = p.communicate(timeout=timeout)
        rc = p.returncode
    except subprocess.TimeoutExpired:
        try:
            os.killpg(p.pid, signal.SIGKILL)   # verus leaves z3 running otherwise
        except Exception:
            pass
        return {"cmd": " ".join(cmd), "timeout": True, "wall_s": time.time() - t0, "diags": [], "json": None, "rc": -1, "stderr": ""}
    js = None
    try:
        js = json.loads(out[out.index("{"):])
    except Exception:
        pass
    diags = []
    for ln in err.splitlines():
        ln = ln.strip()
        if ln.startswith("{"):
            try:
                d = json.loads(ln)
                if d.get("$message_type") == "diagnostic" or "message" in d:
                    diags.append(d)
            except Exception:
                pass
    return {"cmd": " ".join(cmd), "timeout": False, "wall_s": time.time() - t0, "diags": diags, "json": js,
            "rc": rc, "stderr": err[-4000:]}


def part_of(parts, line):
    for a, b, kd, nm in parts:
        if a <= line <= b:
            return kd, nm
    return "text", "?"


LABEL_RE = re.compile(r"//\s*@(\w[\w.\-]*)")


def analyse(text, parts, res):
    """-> dict(status in ok|fail|inconclusive, failures[...], functions{name:{success,time_ms,rlimit}}, ...)"""
    lines = text.split("\n")
    out = {"status": "ok", "failures": [], "other_errors": [], "functions": {}, "verified": 0, "errors": 0,
           "smt_ms": 0, "wall_s": res["wall_s"], "cmd": res["cmd"]}
    if res["timeout"]:
        out["status"] = "inconclusive"
        out["other_errors"].append("verus timed out")
        return out
    js = res["json"]
    if js:
        vr = js.get("verification-results", {})
        out["verified"] = vr.get("verified", 0)
        out["errors"] = vr.get("errors", 0)
        try:
            smt = js["times-ms"]["smt"]
            out["smt_ms"] = smt.get("total", 0)
            for mod in smt.get("smt-run-module-times", []):
                for fb in mod.get("function-breakdown", []):
                    nm = fb["function"]
                    cur = out["functions"].setdefault(nm, {"success": True, "time_ms": 0, "rlimit": 0})
                    cur["success"] = cur["success"] and fb.get("success", False)
                    cur["time_ms"] += fb.get("time", 0)
                    cur["rlimit"] += fb.get("rlimit", 0)
        except Exception:
            pass
    for d in res["diags"]:
        if d.get("level") not in ("error",):
            continue
        msg = d.get("message", "")
        if msg.startswith("aborting due to"):
            continue
        allspans = d.get("spans", [])
        base = os.path.basename(res["cmd"].split()[1]) if res.get("cmd") else ""
        spans = [s for s in allspans if os.path.basename(s.get("file_name", "")) == base] or allspans
        foreign = [s for s in allspans if s not in spans]
        prim = [s for s in spans if s.get("is_primary")] or spans
        pline = prim[0]["line_start"] if prim else 0
        kd, nm = part_of(parts, pline)
        # a violated trait-level / callee-level clause is attributed to the function whose body failed it
        for sp in spans:
            lab = sp.get("label") or ""
            if "at the end of the function body" in lab or "at this exit" in lab:
                k2, n2 = part_of(parts, sp["line_start"])
                if k2 in ("unit", "canary"):
                    kd, nm = k2, n2
        labels = []
        for s in spans:
            for ln in range(s["line_start"], s["line_end"] + 1):
                if 1 <= ln <= len(lines):
                    labels += LABEL_RE.findall(lines[ln - 1])
        for ch in d.get("children", []):
            for s in ch.get("spans", []):
                for ln in range(s["line_start"], s["line_end"] + 1):
                    if 1 <= ln <= len(lines):
                        labels += LABEL_RE.findall(lines[ln - 1])
        span_txt = [{"line": s["line_start"], "label": s.get("label"),
                     "text": (s.get("text") or [{}])[0].get("text", "").strip()} for s in spans]
        if foreign:
            msg = msg + " [" + "; ".join(f'{os.path.basename(s.get("file_name",""))}:{s["line_start"]}' for s in foreign[:2]) + "]"
        rec = {"message": msg, "part": nm, "kind": kd, "line": pline, "labels": sorted(set(labels)),
               "spans": span_txt, "rendered": d.get("rendered", "")[:3000]}
        if d.get("code"):
            # a rustc diagnostic (E0277 "the trait bound .. is not satisfied", ...): the emitted text does not type-check, which is
            # a construct outside the rule catalogue - inconclusive, never a failed obligation
            out["other_errors"].append(rec)
        elif any(k in msg for k in INCONCLUSIVE_MSGS):
            out.setdefault("rlimit_hits", []).append(rec)
        elif any(k in msg for k in OBLIGATION_MSGS):
            out["failures"].append(rec)
        else:
            out["other_errors"].append(rec)
    if out.get("rlimit_hits") and not out["failures"]:
        # solver gave up without refuting anything: undecided, never an alarm
        out["other_errors"] += out["rlimit_hits"]
    if out["other_errors"] or js is None:
        out["status"] = "inconclusive"
        if js is None and not out["other_errors"]:
            out["other_errors"].append({"message": "no JSON from verus", "rendered": res["stderr"][-1500:]})
    elif out["failures"] or out["errors"]:
        out["status"] = "fail"
    elif out["verified"] == 0:
        out["status"] = "inconclusive"
        out["other_errors"].append({"message": "zero functions verified (vacuous run)"})
    return out


def check_group(repo, gname, builddir, rlimit=None, canary=True):
    """Build + verify a group (and its canary file, in parallel).  Never raises for Lost: returns status=inconclusive."""
    group = load_group(gname)
    os.makedirs(builddir, exist_ok=True)
    try:
        text, parts, log = build_group(repo, group)
        ctext, cparts, _ = build_group(repo, group, canary=True) if canary else (None, None, None)
    except X.Lost as e:
        return {"group": gname, "status": "inconclusive", "lost": str(e), "failures": [], "other_errors": [{"message": f"lost anchor: {e}"}],
                "functions": {}, "verified": 0, "errors": 0, "smt_ms": 0, "wall_s": 0, "cmd": "", "rules": [], "canary": None, "units": []}
    path = os.path.join(builddir, f"{gname}.rs")
    open(path, "w").write(text)
    import concurrent.futures as cf
    with cf.ThreadPoolExecutor(2) as ex:
        f1 = ex.submit(run_verus, path, rlimit or group.get("rlimit"))
        f2 = None
        if canary:
            cpath = os.path.join(builddir, f"{gname}__canary.rs")
            open(cpath, "w").write(ctext)
            f2 = ex.submit(run_verus, cpath, rlimit or group.get("rlimit"), 900, (), 1)   # a canary needs one failure per function, not fifty
        res = f1.result()
        cres = f2.result() if f2 else None
    out = analyse(text, parts, res)
    out["group"] = gname
    out["file"] = path
    out["rules"] = log
    out["units"] = [nm for _, _, kd, nm in parts if kd == "unit"]
    out["assumption_scan"] = scan_assumptions(text)
    out["canary"] = None
    if cres is not None:
        ca = analyse(ctext, cparts, cres)
        expected = [nm for _, _, kd, nm in cparts if kd == "canary"]
        failed_parts = {f["part"] for f in ca["failures"]}
        # failures outside canary copies that also fail in main are not canary news
        vacuous = [nm for nm in expected if nm not in failed_parts]
        out["canary"] = {"expected_to_fail": expected, "failed": sorted(failed_parts & set(expected)), "vacuous": vacuous,
                         "status": ca["status"], "wall_s": ca["wall_s"]}
        if vacuous and out["status"] == "ok":
            if ca["status"] == "inconclusive" and ca["other_errors"]:
                out["status"] = "inconclusive"
                out["other_errors"].append({"message": "canary run inconclusive", "detail": ca["other_errors"][:2]})
            else:
                out["status"] = "inconclusive"
                out["other_errors"].append({"message": f"vacuity: canary `ensures false` verified for {vacuous}"})
    return out


def scan_assumptions(text):
    pats = {"assume(": r"\bassume\s*\(", "admit(": r"\badmit\s*\(", "external_body": r"external_body",
            "assume_specification": r"assume_specification", "axiom fn": r"\baxiom\s+fn|broadcast\s+axiom",
            "external_fn_specification": r"external_fn_specification", "external_type_specification": r"external_type_specification",
            "uninterp": r"\buninterp\b"}
    from . import rustlex
    m = rustlex.mask(text)
    return {k: len(re.findall(v, m)) for k, v in pats.items()}
