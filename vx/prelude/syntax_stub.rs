// Stand-ins for the syntax-tree types the book-keeping units read (the real ones are generic over a
// GAT `Decoration` and cannot be copied).  Exactly the fields that are read are declared; rustc type-checks
// the extracted bodies against them.  Tracked<T> / TrackedSpan mirror syntax/tracked.rs.
pub mod syntax {
    use super::*;
    pub enum Exchange { Total(expr::ValueExpr), Rate(expr::ValueExpr) }
    // top-level entries: the directive payloads are extracted from syntax.rs (units below); the enum itself is
    // generic over the decoration and is re-stated with the same variant names
    pub enum LedgerEntry {
        Txn(self::tracked::Transaction),
        Comment(String),
        ApplyTag(String),
        EndApplyTag,
        Include(String),
        Account(super::AccountDeclaration),
        Commodity(super::CommodityDeclaration),
    }
    pub mod tracked {
        use super::super::*;
        #[verifier::external_body]
        pub struct TrackedSpan { _r: usize }
        impl Clone for TrackedSpan { #[verifier::external_body] fn clone(&self) -> (r: Self) ensures r == *self { unimplemented!() } }
        pub struct Tracked<T> { pub value: T, pub span: TrackedSpan }
        impl<T> Tracked<T> {
            pub fn span(&self) -> (r: TrackedSpan) ensures r == self.span { self.span.clone() }
            pub fn new(value: T, span: TrackedSpan) -> (r: Self) ensures r.value == value, r.span == span { Tracked { value, span } }
            pub fn as_undecorated(&self) -> (r: &T) ensures *r == self.value { &self.value }
        }
        pub struct Lot { pub price: Option<Tracked<super::Exchange>> }
        pub struct PostingAmount { pub amount: Tracked<expr::ValueExpr>, pub cost: Option<Tracked<super::Exchange>>, pub lot: Lot }
        pub struct Posting { pub account: Tracked<String>, pub amount: Option<PostingAmount>, pub balance: Option<Tracked<expr::ValueExpr>> }
        pub struct Transaction { pub date: NaiveDate, pub posts: Vec<Tracked<Posting>> }
        pub type LedgerEntry = super::LedgerEntry;
    }
}

use syntax::tracked::{Tracked, TrackedSpan};

// Evaluable::eval_mut on a value expression (report/eval.rs; the recursion itself is verified in group `evalvisit`).
// Here: a deterministic function of the expression and the context, which only ever adds names to the stores.
pub open spec fn ctx_extends(a: ReportContext, b: ReportContext) -> bool {
    &&& forall|n: Seq<char>| a.commodities.resolved(n) is Some ==> b.commodities.resolved(n) == a.commodities.resolved(n)
    &&& forall|c: Commodity| b.commodities.dp(c) == a.commodities.dp(c)
    &&& b.accounts == a.accounts
}
impl expr::ValueExpr {
    pub uninterp spec fn eval_result(&self, ctx: ReportContext) -> Result<Evaluated, EvalError>;
    #[verifier::external_body]
    pub fn eval_mut(&self, ctx: &mut ReportContext) -> (r: Result<Evaluated, EvalError>)
        ensures r == self.eval_result(*old(ctx)), ctx_extends(*old(ctx), *final(ctx)),
    { unimplemented!() }
}

// PriceRepositoryBuilder: only insert_price is reached from book-keeping (price_db.rs; see group `pricedb`)
#[verifier::external_body]
pub struct PriceRepositoryBuilder { _p: usize }
// derive(Default) on PriceRepositoryBuilder (R13-style): no records
impl Default for PriceRepositoryBuilder { #[verifier::external_body] fn default() -> (r: Self) ensures r.log().len() == 0 { unimplemented!() } }
#[derive(Clone, Copy)]
pub enum PriceSource { Ledger, PriceDB }

// R4: format!(..) only builds message text
#[verifier::external_body]
pub fn opaque_string() -> (r: String) { unimplemented!() }
