// ---- C04 / C10: what a balance report is, stated over the stored postings ----
pub open spec fn round_b(ctx: &ReportContext, b: Map<Account, Map<Commodity, real>>) -> Map<Account, Map<Commodity, real>> {
    b.map_values(|m: Map<Commodity, real>| rounded(ctx, m))
}
/// booking one amount on one account: that account only, zero entries dropped (what Balance::add_amount is proved to do)
pub open spec fn book(b: Map<Account, Map<Commodity, real>>, a: Account, d: Map<Commodity, real>) -> Map<Account, Map<Commodity, real>> {
    b.insert(a, nz(madd(bget(b, a), d)))
}
/// C10: an amount converted into `target` as of `date`: every holding exactly once (those already in `target` as they are, the
/// others value x rate), summed; None when some holding has no rate
pub open spec fn conv_amount(repo: &NaivePriceRepository, a: Amount, target: Commodity, date: NaiveDate) -> Option<Map<Commodity, real>> {
    let items = a.iter_listing();
    if all_convertible(repo, items, items.len() as int, target, date) {
        Some(if items.len() == 0 { Map::<Commodity, real>::empty() }
             else { Map::<Commodity, real>::empty().insert(target, conv_sum(repo, items, items.len() as int, target, date)) })
    } else { None }
}
/// what one stored posting contributes: its own amount, or with --historical its amount converted at the transaction's date
pub open spec fn posting_delta(repo: &NaivePriceRepository, conv: Option<Conversion>, date: NaiveDate, p: Posting) -> Option<Map<Commodity, real>> {
    match conv {
        Some(c) => if c.strategy is Historical { conv_amount(repo, p.amount, c.target, date) } else { Some(p.amount@) },
        None => Some(p.amount@),
    }
}
pub open spec fn delta_at(repo: &NaivePriceRepository, q: &BalanceQuery, txns: Seq<Transaction>, ti: int, pi: int) -> Option<Map<Commodity, real>> {
    posting_delta(repo, q.conversion, txns[ti].date, txns[ti].postings@[pi])
}
/// the first j postings of one transaction booked on b, in order
pub open spec fn fold_postings(b: Map<Account, Map<Commodity, real>>, repo: &NaivePriceRepository, q: &BalanceQuery, txns: Seq<Transaction>, ti: int, j: int)
    -> Map<Account, Map<Commodity, real>>
    decreases j
{
    if j <= 0 { b } else {
        let b1 = fold_postings(b, repo, q, txns, ti, j - 1);
        book(b1, txns[ti].postings@[j - 1].account, delta_at(repo, q, txns, ti, j - 1).unwrap())
    }
}
/// C04: the register sum - every posting of every transaction dated in [start, end), in file order, nothing else
pub open spec fn fold_txns(repo: &NaivePriceRepository, q: &BalanceQuery, txns: Seq<Transaction>, i: int) -> Map<Account, Map<Commodity, real>>
    decreases i
{
    if i <= 0 { Map::empty() } else {
        let b = fold_txns(repo, q, txns, i - 1);
        if in_range(q.date_range.start, q.date_range.end, txns[i - 1].date) { fold_postings(b, repo, q, txns, i - 1, txns[i - 1].postings@.len() as int) } else { b }
    }
}
/// every posting in the window before position (i, j) has a contribution (with --historical: a rate for each of its holdings)
pub open spec fn deltas_ok(repo: &NaivePriceRepository, q: &BalanceQuery, txns: Seq<Transaction>, i: int, j: int) -> bool {
    forall|ti: int, pi: int| (0 <= ti < txns.len() && 0 <= pi < txns[ti].postings@.len() && (ti < i || (ti == i && pi < j))
        && in_range(q.date_range.start, q.date_range.end, txns[ti].date)) ==> (#[trigger] delta_at(repo, q, txns, ti, pi)) is Some
}
/// the balance the report starts from: the stored whole-history balance, or the re-fold over the window
pub open spec fn recompute(q: &BalanceQuery) -> bool {
    q.date_range.start is Some || q.date_range.end is Some || (q.conversion matches Some(c) && c.strategy is Historical)
}
/// C10 (report date): each account of `base` converted on its own - same accounts, every holding converted or failure
pub open spec fn accounts_convertible(repo: &NaivePriceRepository, base: Map<Account, Amount>, target: Commodity, now: NaiveDate) -> bool {
    forall|a: Account| base.contains_key(a) ==> (#[trigger] conv_amount(repo, base[a], target, now)) is Some
}
pub open spec fn is_conversion_of(ctx: &ReportContext, repo: &NaivePriceRepository, base: Map<Account, Amount>, target: Commodity, now: NaiveDate,
    out: Map<Account, Map<Commodity, real>>) -> bool {
    &&& out.dom() == base.dom()
    &&& forall|a: Account| base.contains_key(a) ==> #[trigger] out[a] == rounded(ctx, nz(madd(Map::<Commodity, real>::empty(), conv_amount(repo, base[a], target, now).unwrap())))
}
/// the same, when the balance that was converted is a local of the function: SOME balance with the stated contents
pub open spec fn converts_a_balance_with_view(ctx: &ReportContext, repo: &NaivePriceRepository, view: Map<Account, Map<Commodity, real>>, target: Commodity, now: NaiveDate,
    out: Option<Map<Account, Map<Commodity, real>>>) -> bool {
    exists|base: Balance| base@ == view && (match out {
        Some(o) => accounts_convertible(repo, base.accounts@, target, now) && is_conversion_of(ctx, repo, base.accounts@, target, now, o),
        None => !accounts_convertible(repo, base.accounts@, target, now),
    })
}
