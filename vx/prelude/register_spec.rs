// C04 - the name of an account handle (report::context::Account::as_str: the interned canonical name; ASSUMED, proved for the
// intern store in the `intern` group)
impl Account {
    pub uninterp spec fn name(self) -> Seq<char>;
    #[verifier::external_body]
    pub fn as_str(&self) -> (r: &str) ensures r@ == self.name() { unimplemented!() }
}
