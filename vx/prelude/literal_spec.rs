// ---- C07 specification: what a well-formed numeric literal is and what it denotes ----
// Taken from the property statement: optional minus, at least one digit, digits either
// ungrouped or grouped by commas into complete groups of three after a leading group of
// one to three, at most one decimal point; value = exactly the number written, decimal
// places and grouping style kept; too large / too precise literals are rejected.
pub open spec fn is_digit(c: u8) -> bool { 48 <= c <= 57 }

pub open spec fn neg_prefix(b: Seq<u8>) -> int { if b.len() > 0 && b[0] == 45u8 { 1 } else { 0 } }

// index of the first '.' among b[0..n), or n if there is none
pub open spec fn dot_idx(b: Seq<u8>, n: int) -> int
    decreases n
{
    if n <= 0 { 0 } else {
        let d = dot_idx(b, n - 1);
        if d < n - 1 { d } else if b[n - 1] == 46u8 { n - 1 } else { n }
    }
}

// index of the first ',' among b[0..n), or n if there is none
pub open spec fn first_comma(b: Seq<u8>, n: int) -> int
    decreases n
{
    if n <= 0 { 0 } else {
        let d = first_comma(b, n - 1);
        if d < n - 1 { d } else if b[n - 1] == 44u8 { n - 1 } else { n }
    }
}

// index of the last ',' among b[0..n), or -1
pub open spec fn last_comma(b: Seq<u8>, n: int) -> int
    decreases n
{
    if n <= 0 { -1 } else if b[n - 1] == 44u8 { n - 1 } else { last_comma(b, n - 1) }
}

// the natural number spelled by the digits among b[0..n) (other bytes skipped)
pub open spec fn digits_val(b: Seq<u8>, n: int) -> int
    decreases n
{
    if n <= 0 { 0 } else if is_digit(b[n - 1]) { digits_val(b, n - 1) * 10 + (b[n - 1] - 48) } else { digits_val(b, n - 1) }
}

pub open spec fn ndigits(b: Seq<u8>, n: int) -> int
    decreases n
{
    if n <= 0 { 0 } else if is_digit(b[n - 1]) { ndigits(b, n - 1) + 1 } else { ndigits(b, n - 1) }
}

pub open spec fn wellformed(b: Seq<u8>) -> bool {
    let n = b.len() as int;
    let p = neg_prefix(b);
    let d = dot_idx(b, n);       // end of the integer part
    let c0 = first_comma(b, n);
    // alphabet; a minus only in front
    &&& forall|j: int| p <= j < n ==> is_digit(#[trigger] b[j]) || b[j] == 44u8 || b[j] == 46u8
    // at most one decimal point, nothing but digits after it
    &&& forall|j: int| d < j < n ==> is_digit(#[trigger] b[j])
    // at least one digit
    &&& ndigits(b, n) >= 1
    // if grouped: leading group of 1..3 digits, then complete groups ",ddd" up to the end of the integer part
    &&& (c0 < n ==> {
            &&& p < c0 <= p + 3
            &&& c0 < d
            &&& (d - c0) % 4 == 0
            &&& forall|j: int| c0 <= j < d ==> ((#[trigger] b[j] == 44u8) <==> (j - c0) % 4 == 0)
        })
}

pub open spec fn frac_digits(b: Seq<u8>) -> int {
    let n = b.len() as int;
    let d = dot_idx(b, n);
    if d < n { n - d - 1 } else { 0 }
}

pub open spec fn lit_sign(b: Seq<u8>) -> int { if neg_prefix(b) == 1 { -1 } else { 1 } }

pub open spec fn representable(b: Seq<u8>) -> bool {
    digits_val(b, b.len() as int) <= rust_decimal::max_repr() && frac_digits(b) <= 28
}

pub open spec fn style(b: Seq<u8>) -> Option<Format> {
    let n = b.len() as int;
    if first_comma(b, n) < n { Some(Format::Comma3Dot) }
    else if dot_idx(b, n) - neg_prefix(b) >= 4 { Some(Format::Plain) }
    else { None }
}

// ---- lemmas (pure; about the spec functions only) ----
pub proof fn lemma_idx_bounds(b: Seq<u8>, n: int)
    requires 0 <= n <= b.len(),
    ensures
        0 <= dot_idx(b, n) <= n, 0 <= first_comma(b, n) <= n, -1 <= last_comma(b, n) < n,
        forall|j: int| 0 <= j < dot_idx(b, n) ==> b[j] != 46u8,
        dot_idx(b, n) < n ==> b[dot_idx(b, n)] == 46u8,
        forall|j: int| 0 <= j < first_comma(b, n) ==> b[j] != 44u8,
        first_comma(b, n) < n ==> b[first_comma(b, n)] == 44u8,
        forall|j: int| last_comma(b, n) < j < n ==> b[j] != 44u8,
        last_comma(b, n) >= 0 ==> b[last_comma(b, n)] == 44u8,
        (first_comma(b, n) < n) <==> (last_comma(b, n) >= 0),
        last_comma(b, n) >= 0 ==> first_comma(b, n) <= last_comma(b, n),
        digits_val(b, n) >= 0, 0 <= ndigits(b, n) <= n,
    decreases n
{
    if n > 0 { lemma_idx_bounds(b, n - 1); }
}

// the first dot / first comma of a prefix stays the first one of every longer prefix
pub proof fn lemma_idx_stable(b: Seq<u8>, i: int, n: int)
    requires 0 <= i <= n <= b.len(),
    ensures
        dot_idx(b, i) < i ==> dot_idx(b, n) == dot_idx(b, i),
        dot_idx(b, i) == i ==> dot_idx(b, n) >= i,
        first_comma(b, i) < i ==> first_comma(b, n) == first_comma(b, i),
        first_comma(b, i) == i ==> first_comma(b, n) >= i,
        digits_val(b, n) >= digits_val(b, i),
        ndigits(b, n) >= ndigits(b, i),
    decreases n - i
{
    lemma_idx_bounds(b, i);
    if i < n {
        lemma_idx_stable(b, i, n - 1);
        lemma_idx_bounds(b, n - 1);
        assert(digits_val(b, n) >= digits_val(b, n - 1)) by {
            if is_digit(b[n - 1]) { assert(digits_val(b, n) == digits_val(b, n - 1) * 10 + (b[n - 1] - 48)); }
        }
    }
}
