impl vstd::std_specs::ops::NegSpecImpl for OwnedAmount {
    open spec fn obeys_neg_spec() -> bool { false }
    open spec fn neg_req(self) -> bool { true }
    open spec fn neg_spec(self) -> OwnedAmount { arbitrary() }
}
impl vstd::std_specs::ops::NegSpecImpl for BorrowedAmount {
    open spec fn obeys_neg_spec() -> bool { false }
    open spec fn neg_req(self) -> bool { true }
    open spec fn neg_spec(self) -> BorrowedAmount { arbitrary() }
}

// stand-in for the two amount members of single_entry::Txn read by dest_amount (R17 free variables)
pub struct TxnAmounts { pub amount: OwnedAmount }
