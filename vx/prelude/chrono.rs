// L0 — ASSUMED model of chrono::NaiveDate: a totally ordered day number (Copy, Eq, Ord).
pub mod chrono {
    use super::*;
    use vstd::std_specs::cmp::*;
    #[verifier::external_body]
    pub struct NaiveDate { _d: i32 }
    impl Clone for NaiveDate { #[verifier::external_body] fn clone(&self) -> (r: Self) ensures r == *self { unimplemented!() } }
    impl Copy for NaiveDate {}
    impl NaiveDate { pub uninterp spec fn day(self) -> int; }
    impl PartialEqSpecImpl for NaiveDate {
        open spec fn obeys_eq_spec() -> bool { true }
        open spec fn eq_spec(&self, o: &NaiveDate) -> bool { self.day() == o.day() }
    }
    impl PartialEq for NaiveDate {
        #[verifier::external_body]
        fn eq(&self, o: &NaiveDate) -> bool { unimplemented!() }
    }
    impl Eq for NaiveDate {}
    impl PartialOrdSpecImpl for NaiveDate {
        open spec fn obeys_partial_cmp_spec() -> bool { true }
        open spec fn partial_cmp_spec(&self, o: &NaiveDate) -> Option<core::cmp::Ordering> {
            if self.day() < o.day() { Some(core::cmp::Ordering::Less) }
            else if self.day() == o.day() { Some(core::cmp::Ordering::Equal) }
            else { Some(core::cmp::Ordering::Greater) }
        }
    }
    impl PartialOrd for NaiveDate {
        #[verifier::external_body]
        fn partial_cmp(&self, o: &NaiveDate) -> Option<core::cmp::Ordering> { unimplemented!() }
    }
}
use chrono::NaiveDate;

use vstd::std_specs::cmp::PartialOrdSpec as _;
// std range membership (no vstd spec): start <= item < end etc., through the types' partial_cmp specs
pub open spec fn le_spec<A: PartialOrd<B>, B: ?Sized>(a: &A, b: &B) -> bool {
    a.partial_cmp_spec(b) == Some(core::cmp::Ordering::Less) || a.partial_cmp_spec(b) == Some(core::cmp::Ordering::Equal)
}
pub open spec fn lt_spec<A: PartialOrd<B> + ?Sized, B: ?Sized>(a: &A, b: &B) -> bool {
    a.partial_cmp_spec(b) == Some(core::cmp::Ordering::Less)
}
pub assume_specification<Idx: PartialOrd<Idx>, U: ?Sized + PartialOrd<Idx>>[core::ops::RangeFrom::<Idx>::contains::<U>](r: &core::ops::RangeFrom<Idx>, item: &U) -> (b: bool)
    where Idx: PartialOrd<U>
    ensures b == le_spec(&r.start, item);
pub assume_specification<Idx: PartialOrd<Idx>, U: ?Sized + PartialOrd<Idx>>[core::ops::RangeTo::<Idx>::contains::<U>](r: &core::ops::RangeTo<Idx>, item: &U) -> (b: bool)
    where Idx: PartialOrd<U>
    ensures b == lt_spec(item, &r.end);
pub assume_specification<Idx: PartialOrd<Idx>, U: ?Sized + PartialOrd<Idx>>[core::ops::RangeToInclusive::<Idx>::contains::<U>](r: &core::ops::RangeToInclusive<Idx>, item: &U) -> (b: bool)
    where Idx: PartialOrd<U>
    ensures b == (item.partial_cmp_spec(&r.end) == Some(core::cmp::Ordering::Less) || item.partial_cmp_spec(&r.end) == Some(core::cmp::Ordering::Equal));
