// ---- abstract views of the amount types (spec only) ----
pub open spec fn mget(m: Map<Commodity, real>, c: Commodity) -> real { if m.contains_key(c) { m[c] } else { 0real } }

// drop zero entries
pub open spec fn nz(m: Map<Commodity, real>) -> Map<Commodity, real> {
    m.filter_keys(|c: Commodity| m[c] != 0real)
}
// pointwise sum keeping every key of either side (zero entries are retained in sums)
pub open spec fn madd(a: Map<Commodity, real>, b: Map<Commodity, real>) -> Map<Commodity, real> {
    Map::new(a.dom().union(b.dom()), |c: Commodity| mget(a, c) + mget(b, c))
}
pub open spec fn msub(a: Map<Commodity, real>, b: Map<Commodity, real>) -> Map<Commodity, real> {
    Map::new(a.dom().union(b.dom()), |c: Commodity| mget(a, c) - mget(b, c))
}
pub open spec fn mneg(a: Map<Commodity, real>) -> Map<Commodity, real> {
    a.map_values(|v: real| -v)
}
pub open spec fn mdiv(a: Map<Commodity, real>, k: real) -> Map<Commodity, real> {
    a.map_values(|v: real| v / k)
}
pub open spec fn mscale(a: Map<Commodity, real>, k: real) -> Map<Commodity, real> {
    a.map_values(|v: real| v * k)
}
// every commodity rounded to its declared precision (none added, none dropped)
pub open spec fn rounded(ctx: &ReportContext, m: Map<Commodity, real>) -> Map<Commodity, real> {
    Map::new(m.dom(), |c: Commodity| ctx_round(ctx, c, m[c]))
}
// R25b loops: no entry before position i has commodity c
pub open spec fn untouched<V>(e: Seq<(Commodity, V)>, i: int, c: Commodity) -> bool { forall|j: int| 0 <= j < i ==> (#[trigger] e[j]).0 != c }
pub open spec fn all_zero(m: Map<Commodity, real>) -> bool { forall|c: Commodity| m.contains_key(c) ==> m[c] == 0real }

impl PostingAmount {
    pub open spec fn as_map(self) -> Map<Commodity, real> {
        match self { PostingAmount::Zero => Map::empty(), PostingAmount::Single(s) => s.as_map() }
    }
}
pub mod amount_lemmas {
    use super::*;
impl SingleAmount {
    pub open spec fn v(self) -> real { self.value.val() }
    pub open spec fn as_map(self) -> Map<Commodity, real> { Map::empty().insert(self.commodity, self.value.val()) }
}
impl View for Amount {
    type V = Map<Commodity, real>;
    open spec fn view(&self) -> Map<Commodity, real> { self.values@.map_values(|d: Decimal| d.val()) }
}
impl Amount {
    // exactly one commodity: that entry
    pub open spec fn single_entry(&self) -> SingleAmount
    {
        let c = self.values@.dom().choose();
        SingleAmount { value: self.values@[c], commodity: c }
    }
    pub open spec fn ncomm(&self) -> nat { self.values@.len() }
}

    impl Amount {
    pub proof fn lemma_view(&self)
        ensures
            self@.dom() == self.values@.dom(),
            self@.dom().finite(),
            self.ncomm() == self@.dom().len(),
            forall|c: Commodity| self.values@.contains_key(c) ==> #[trigger] self@[c] == self.values@[c].val(),
            self.ncomm() == 1 ==> self@.contains_key(self.single_entry().commodity)
                && self@[self.single_entry().commodity] == self.single_entry().v()
                && self@.dom() == set![self.single_entry().commodity],
    {
        broadcast use vstd::map::group_map_lemmas;
        assert(self@.dom() =~= self.values@.dom());
        if self.values@.len() == 1 {
            let c = self.values@.dom().choose();
            broadcast use vstd::set_lib::group_set_lib_default;
            assert(self.values@.dom().contains(c));
            assert(self.values@.dom().remove(c).len() == 0);
            assert(self.values@.dom() =~= set![c]);
        }
    }
    }
    // what `the single entry` of a one-commodity amount is, in terms of the public view
    pub broadcast proof fn lemma_single_entry(a: Amount)
        requires a.ncomm() == 1,
        ensures
            #![trigger a.single_entry()]
            a@ =~= Map::<Commodity, real>::empty().insert(a.single_entry().commodity, a.single_entry().v()),
            a@.dom().len() == 1,
    {
        a.lemma_view();
    }
    pub broadcast proof fn lemma_ncomm(a: Amount)
        ensures #![trigger a.ncomm()] a.ncomm() == a@.dom().len(), a@.dom().finite(),
    {
        a.lemma_view();
    }
}

// derive(Default) / derive(Clone) on Amount, derive(Default)-by-hand on PostingAmount (R13-style expansions)
impl Default for Amount {
    fn default() -> (r: Amount) ensures r@ == Map::<Commodity, real>::empty(), r.ncomm() == 0 {
        let r = Amount { values: HashMap::new() };
        proof { assert(r@ =~= Map::<Commodity, real>::empty()); }
        r
    }
}
impl Clone for Amount {
    #[verifier::external_body]
    fn clone(&self) -> (r: Amount) ensures r == *self { unimplemented!() }
}

// ---- R8: operator impls need their *SpecImpl (preconditions; results are given by ensures on the impl fns) ----
impl vstd::std_specs::ops::NegSpecImpl for SingleAmount {
    open spec fn obeys_neg_spec() -> bool { false }
    open spec fn neg_req(self) -> bool { true }
    open spec fn neg_spec(self) -> SingleAmount { arbitrary() }
}
impl vstd::std_specs::ops::MulSpecImpl<Decimal> for SingleAmount {
    open spec fn obeys_mul_spec() -> bool { false }
    open spec fn mul_req(self, rhs: Decimal) -> bool { true }
    open spec fn mul_spec(self, rhs: Decimal) -> SingleAmount { arbitrary() }
}
impl vstd::std_specs::ops::NegSpecImpl for PostingAmount {
    open spec fn obeys_neg_spec() -> bool { false }
    open spec fn neg_req(self) -> bool { true }
    open spec fn neg_spec(self) -> PostingAmount { arbitrary() }
}
impl vstd::std_specs::ops::NegSpecImpl for Amount {
    open spec fn obeys_neg_spec() -> bool { false }
    open spec fn neg_req(self) -> bool { true }
    open spec fn neg_spec(self) -> Amount { arbitrary() }
}
impl vstd::std_specs::ops::AddSpecImpl<Amount> for Amount {
    open spec fn obeys_add_spec() -> bool { false }
    open spec fn add_req(self, rhs: Amount) -> bool { true }
    open spec fn add_spec(self, rhs: Amount) -> Amount { arbitrary() }
}
impl vstd::std_specs::ops::AddSpecImpl<SingleAmount> for Amount {
    open spec fn obeys_add_spec() -> bool { false }
    open spec fn add_req(self, rhs: SingleAmount) -> bool { true }
    open spec fn add_spec(self, rhs: SingleAmount) -> Amount { arbitrary() }
}
impl vstd::std_specs::ops::SubSpecImpl<Amount> for Amount {
    open spec fn obeys_sub_spec() -> bool { false }
    open spec fn sub_req(self, rhs: Amount) -> bool { true }
    open spec fn sub_spec(self, rhs: Amount) -> Amount { arbitrary() }
}
impl vstd::std_specs::ops::MulSpecImpl<Decimal> for Amount {
    open spec fn obeys_mul_spec() -> bool { false }
    open spec fn mul_req(self, rhs: Decimal) -> bool { true }
    open spec fn mul_spec(self, rhs: Decimal) -> Amount { arbitrary() }
}
impl vstd::std_specs::ops::AddAssignSpecImpl<Amount> for Amount {
    open spec fn obeys_add_assign_spec() -> bool { false }
    open spec fn add_assign_req(&self, rhs: Amount) -> bool { true }
    open spec fn add_assign_spec(&self, rhs: Amount) -> &Amount { arbitrary() }
}
impl vstd::std_specs::ops::AddAssignSpecImpl<SingleAmount> for Amount {
    open spec fn obeys_add_assign_spec() -> bool { false }
    open spec fn add_assign_req(&self, rhs: SingleAmount) -> bool { true }
    open spec fn add_assign_spec(&self, rhs: SingleAmount) -> &Amount { arbitrary() }
}
impl vstd::std_specs::ops::AddAssignSpecImpl<PostingAmount> for Amount {
    open spec fn obeys_add_assign_spec() -> bool { false }
    open spec fn add_assign_req(&self, rhs: PostingAmount) -> bool { true }
    open spec fn add_assign_spec(&self, rhs: PostingAmount) -> &Amount { arbitrary() }
}
impl vstd::std_specs::ops::SubAssignSpecImpl<Amount> for Amount {
    open spec fn obeys_sub_assign_spec() -> bool { false }
    open spec fn sub_assign_req(&self, rhs: Amount) -> bool { true }
    open spec fn sub_assign_spec(&self, rhs: Amount) -> &Amount { arbitrary() }
}
impl vstd::std_specs::ops::MulAssignSpecImpl<Decimal> for Amount {
    open spec fn obeys_mul_assign_spec() -> bool { false }
    open spec fn mul_assign_req(&self, rhs: Decimal) -> bool { true }
    open spec fn mul_assign_spec(&self, rhs: Decimal) -> &Amount { arbitrary() }
}

// ---- conversions: the property-level meaning of "a single amount is required" (C08) ----
// SingleAmount from PostingAmount: the one amount, `0` is rejected
impl vstd::std_specs::convert::TryFromSpecImpl<PostingAmount> for SingleAmount {
    open spec fn obeys_try_from_spec() -> bool { true }
    open spec fn try_from_spec(a: PostingAmount) -> Result<SingleAmount, EvalError> {
        match a { PostingAmount::Single(s) => Ok(s), PostingAmount::Zero => Err(EvalError::SingleAmountRequired) }
    }
}
// SingleAmount from a multi-commodity Amount: exactly one commodity, everything else is rejected
impl<'a> vstd::std_specs::convert::TryFromSpecImpl<&'a Amount> for SingleAmount {
    open spec fn obeys_try_from_spec() -> bool { true }
    open spec fn try_from_spec(a: &'a Amount) -> Result<SingleAmount, EvalError> {
        if a.ncomm() == 1 { Ok(a.single_entry()) } else { Err(EvalError::SingleAmountRequired) }
    }
}
impl vstd::std_specs::convert::TryFromSpecImpl<Amount> for SingleAmount {
    open spec fn obeys_try_from_spec() -> bool { true }
    open spec fn try_from_spec(a: Amount) -> Result<SingleAmount, EvalError> {
        if a.ncomm() == 1 { Ok(a.single_entry()) } else { Err(EvalError::SingleAmountRequired) }
    }
}
// PostingAmount from Amount: at most one commodity
impl<'a> vstd::std_specs::convert::TryFromSpecImpl<&'a Amount> for PostingAmount {
    open spec fn obeys_try_from_spec() -> bool { true }
    open spec fn try_from_spec(a: &'a Amount) -> Result<PostingAmount, EvalError> {
        if a.ncomm() == 0 { Ok(PostingAmount::Zero) }
        else if a.ncomm() == 1 { Ok(PostingAmount::Single(a.single_entry())) }
        else { Err(EvalError::PostingAmountRequired) }
    }
}
impl vstd::std_specs::convert::TryFromSpecImpl<Amount> for PostingAmount {
    open spec fn obeys_try_from_spec() -> bool { true }
    open spec fn try_from_spec(a: Amount) -> Result<PostingAmount, EvalError> {
        if a.ncomm() == 0 { Ok(PostingAmount::Zero) }
        else if a.ncomm() == 1 { Ok(PostingAmount::Single(a.single_entry())) }
        else { Err(EvalError::PostingAmountRequired) }
    }
}
impl vstd::std_specs::convert::FromSpecImpl<SingleAmount> for PostingAmount {
    open spec fn obeys_from_spec() -> bool { true }
    open spec fn from_spec(a: SingleAmount) -> PostingAmount { PostingAmount::Single(a) }
}
impl vstd::std_specs::convert::FromSpecImpl<SingleAmount> for Amount {
    open spec fn obeys_from_spec() -> bool { false }
    open spec fn from_spec(a: SingleAmount) -> Amount { arbitrary() }
}
impl vstd::std_specs::convert::FromSpecImpl<PostingAmount> for Amount {
    open spec fn obeys_from_spec() -> bool { false }
    open spec fn from_spec(a: PostingAmount) -> Amount { arbitrary() }
}
