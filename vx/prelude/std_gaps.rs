// std functions without a vstd specification (ASSUMED, part of the trusted base)
pub assume_specification<'a, K, V: Default>[std::collections::hash_map::Entry::<'a, K, V>::or_default](e: std::collections::hash_map::Entry<'a, K, V>) -> (r: &'a mut V)
    ensures
        e.value() matches Some(v) ==> *r == v,
        e.value() is None ==> call_ensures(V::default, (), *r),
        e.final_value() == Some(*final(r)),
;
pub assume_specification<'a, T: Copy>[Option::<&'a T>::copied](o: Option<&'a T>) -> (r: Option<T>)
    ensures r == (match o { Some(x) => Some(*x), None => None::<T> });
pub assume_specification<T>[Option::<T>::or](a: Option<T>, b: Option<T>) -> (r: Option<T>)
    ensures r == (if a is Some { a } else { b });
pub assume_specification<T>[Option::<T>::replace](o: &mut Option<T>, value: T) -> (r: Option<T>)
    ensures r == *old(o), *final(o) == Some(value);
// core::mem::replace (ASSUMED from std: moves `src` into `dest`, returns what was there)
pub assume_specification<T>[core::mem::replace::<T>](dest: &mut T, src: T) -> (r: T)
    ensures *final(dest) == src, r == *old(dest);
