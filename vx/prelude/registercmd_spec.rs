// ---- C04: the lines `okane register` prints (spec side) ----
/// ASSUMED: what InlinePrintAmount's Display prints for an amount (its order is decided in group `determinism`)
pub uninterp spec fn inline_text(a: Amount) -> Seq<char>;
pub struct InlineDisplay { pub a: Ghost<Amount> }
impl DisplayText for InlineDisplay { open spec fn display_text(&self) -> Seq<char> { inline_text(self.a@) } }
/// Amount::as_inline_display (a Display adaptor over the amount)
#[verifier::external_body]
pub fn inline_display(a: &Amount) -> (r: InlineDisplay) ensures r.a@ == *a { unimplemented!() }
/// Account::as_str: the account's interned name
#[verifier::external_body]
pub fn account_str(a: &Account) -> (r: &'static str) ensures r@ == a.name() { unimplemented!() }
/// the register after n lines: per line the account, the posting's amount, and the running total `totals[i]`
pub open spec fn reg_lines(t: Seq<char>, s: Seq<Posting>, totals: Seq<Amount>, n: int) -> Seq<char>
    decreases n
{
    if n <= 0 { t } else {
        reg_lines(t, s, totals, n - 1) + s[n - 1].account.name() + seq![' '] + inline_text(s[n - 1].amount) + seq![' '] + inline_text(totals[n - 1]) + seq!['\n']
    }
}
pub proof fn lemma_reg_lines_frame(t: Seq<char>, s: Seq<Posting>, a: Seq<Amount>, b: Seq<Amount>, n: int)
    requires 0 <= n <= a.len(), n <= b.len(), forall|i: int| 0 <= i < n ==> a[i] == b[i],
    ensures reg_lines(t, s, a, n) == reg_lines(t, s, b, n),
    decreases n
{
    if n > 0 { lemma_reg_lines_frame(t, s, a, b, n - 1); }
}
