pub assume_specification<T>[Option::<T>::or](a: Option<T>, b: Option<T>) -> (r: Option<T>)
    ensures r == (if a is Some { a } else { b });
