// ---- C19 / C06: the aligned offset (bytes) never exceeds the display width of the text it lies in ----
// Needed for `width_cjk(balance_str) - alignment` in Display for Posting (a usize subtraction).
pub open spec fn printable_ascii(s: Seq<char>) -> bool { forall|i: int| 0 <= i < s.len() ==> 0x20 <= (#[trigger] s[i]) as u32 && (s[i] as u32) <= 0x7e }
/// ASSUMED (unicode-width): the display width of a text is the sum of the widths of its parts, never negative, and one column per printable ASCII character
#[verifier::external_body]
pub proof fn axiom_width_cjk_add(a: Seq<char>, b: Seq<char>)
    ensures width_cjk_spec(a + b) == width_cjk_spec(a) + width_cjk_spec(b)
{}
#[verifier::external_body]
pub proof fn axiom_width_cjk_ascii(s: Seq<char>)
    requires printable_ascii(s),
    ensures width_cjk_spec(s) == s.len()
{}
/// ASSUMED (decided, bounded, by family c07): Display for PrettyDecimal prints digits, `-`, `,` and `.` only
#[verifier::external_body]
pub proof fn axiom_number_text_is_printable_ascii(d: PrettyDecimal)
    ensures printable_ascii(d.display_text())
{}
pub proof fn lemma_ascii_utf8_len(s: Seq<char>)
    requires printable_ascii(s),
    ensures utf8_len(s) == s.len()
    decreases s.len()
{
    if s.len() > 0 {
        assert(printable_ascii(s.drop_last())) by { assert forall|i: int| 0 <= i < s.drop_last().len() implies 0x20 <= (#[trigger] s.drop_last()[i]) as u32 && (s.drop_last()[i] as u32) <= 0x7e by { assert(s.drop_last()[i] == s[i]); } }
        lemma_ascii_utf8_len(s.drop_last());
        assert(0x20 <= s[s.len() - 1] as u32);
    }
}
pub proof fn lemma_ascii_concat(a: Seq<char>, b: Seq<char>)
    requires printable_ascii(a), printable_ascii(b),
    ensures printable_ascii(a + b)
{
    assert forall|i: int| 0 <= i < (a + b).len() implies 0x20 <= (#[trigger] (a + b)[i]) as u32 && ((a + b)[i] as u32) <= 0x7e by {
        if i < a.len() { assert((a + b)[i] == a[i]); } else { assert((a + b)[i] == b[i - a.len()]); }
    }
}
/// everything an expression prints up to the end of its first commodity-bearing number (the whole text if there is none)
pub open spec fn aprefix(a: expr::Amount, ctx: DisplayContext) -> Seq<char> { a.num_text(ctx) }
pub open spec fn vprefix(v: expr::ValueExpr, ctx: DisplayContext) -> Seq<char>
    decreases v
{
    match v { expr::ValueExpr::Paren(e) => if e.align(ctx) is Some { seq!['('] + eprefix(e, ctx) } else { v.text(ctx) }, expr::ValueExpr::Amount(a) => aprefix(a, ctx) }
}
pub open spec fn eprefix(x: expr::Expr, ctx: DisplayContext) -> Seq<char>
    decreases x
{
    match x {
        expr::Expr::Unary(e) => e.op.display_text() + eprefix(*e.expr, ctx),
        expr::Expr::Binary(e) => if e.lhs.align(ctx) is Some { eprefix(*e.lhs, ctx) } else { binary_head(e, ctx) + eprefix(*e.rhs, ctx) },
        expr::Expr::Value(v) => vprefix(*v, ctx),
    }
}
/// the prefix is printable ASCII, it is a prefix of the text, and its length is the reported offset
pub open spec fn prefix_ok(pre: Seq<char>, text: Seq<char>, off: int) -> bool {
    printable_ascii(pre) && pre.len() == off && off <= text.len() && text.subrange(0, off) == pre
}
pub proof fn lemma_prefix_extend(pre: Seq<char>, text: Seq<char>, head: Seq<char>, tail: Seq<char>)
    requires prefix_ok(pre, text, pre.len() as int), printable_ascii(head),
    ensures prefix_ok(head + pre, head + text + tail, (head.len() + pre.len()) as int),
{
    lemma_ascii_concat(head, pre);
    assert((head + text + tail).subrange(0, (head.len() + pre.len()) as int) =~= head + pre) by {
        assert forall|i: int| 0 <= i < head.len() + pre.len() implies (head + text + tail)[i] == (head + pre)[i] by {
            if i >= head.len() { assert(text.subrange(0, pre.len() as int)[i - head.len()] == text[i - head.len()]); }
        }
    }
}
pub proof fn lemma_amount_prefix(a: expr::Amount, ctx: DisplayContext)
    ensures prefix_ok(aprefix(a, ctx), a.text(ctx), aprefix(a, ctx).len() as int), printable_ascii(a.num_text(ctx)),
            a.align(ctx) is None ==> a.text(ctx) == aprefix(a, ctx),
            a.align(ctx) matches Some(k) ==> k == aprefix(a, ctx).len(),
{
    axiom_number_text_is_printable_ascii(rescale_spec(a, ctx));
    lemma_ascii_utf8_len(a.num_text(ctx));
    let n = a.num_text(ctx);
    if a.commodity@.len() != 0 { assert((n + seq![' '] + a.commodity@).subrange(0, n.len() as int) =~= n); } else { assert(n.subrange(0, n.len() as int) =~= n); }
}
pub proof fn lemma_prefix_tail(pre: Seq<char>, text: Seq<char>, tail: Seq<char>)
    requires prefix_ok(pre, text, pre.len() as int),
    ensures prefix_ok(pre, text + tail, pre.len() as int),
{
    assert((text + tail).subrange(0, pre.len() as int) =~= text.subrange(0, pre.len() as int));
}
pub open spec fn shape_ok(al: Option<nat>, pre: Seq<char>, text: Seq<char>) -> bool {
    match al { Some(k) => prefix_ok(pre, text, k as int), None => printable_ascii(text) }
}
pub proof fn lemma_ops_ascii(u: expr::UnaryOp, b: expr::BinaryOp)
    ensures printable_ascii(u.display_text()), printable_ascii(b.display_text()), printable_ascii(seq![' ']), printable_ascii(seq!['(']), printable_ascii(seq![')'])
{
}
pub proof fn lemma_value_shape(v: expr::ValueExpr, ctx: DisplayContext)
    ensures shape_ok(v.align(ctx), vprefix(v, ctx), v.text(ctx))
    decreases v
{
    match v {
        expr::ValueExpr::Paren(e) => {
            lemma_expr_shape(e, ctx);
            lemma_ops_ascii(expr::UnaryOp::Negate, expr::BinaryOp::Add);
            if e.align(ctx) is Some {
                lemma_prefix_extend(eprefix(e, ctx), e.text(ctx), seq!['('], seq![')']);
            } else {
                lemma_ascii_concat(seq!['('], e.text(ctx));
                lemma_ascii_concat(seq!['('] + e.text(ctx), seq![')']);
            }
        }
        expr::ValueExpr::Amount(a) => { lemma_amount_prefix(a, ctx); }
    }
}
pub proof fn lemma_expr_shape(x: expr::Expr, ctx: DisplayContext)
    ensures shape_ok(x.align(ctx), eprefix(x, ctx), x.text(ctx))
    decreases x
{
    lemma_ops_ascii(expr::UnaryOp::Negate, expr::BinaryOp::Add);
    match x {
        expr::Expr::Unary(e) => {
            lemma_expr_shape(*e.expr, ctx);
            lemma_ops_ascii(e.op, expr::BinaryOp::Add);
            lemma_op_len(e.op, expr::BinaryOp::Add);
            let op = e.op.display_text();
            if e.expr.align(ctx) is Some {
                lemma_prefix_extend(eprefix(*e.expr, ctx), e.expr.text(ctx), op, Seq::<char>::empty());
                assert(op + e.expr.text(ctx) + Seq::<char>::empty() =~= op + e.expr.text(ctx));
            } else {
                lemma_ascii_concat(op, e.expr.text(ctx));
            }
        }
        expr::Expr::Binary(e) => {
            lemma_expr_shape(*e.lhs, ctx); lemma_expr_shape(*e.rhs, ctx);
            lemma_ops_ascii(expr::UnaryOp::Negate, e.op);
            lemma_binary_len(e, ctx);
            let l = e.lhs.text(ctx); let sp = seq![' ']; let op = e.op.display_text(); let r = e.rhs.text(ctx);
            if e.lhs.align(ctx) is Some {
                lemma_prefix_tail(eprefix(*e.lhs, ctx), l, sp);
                lemma_prefix_tail(eprefix(*e.lhs, ctx), l + sp, op);
                lemma_prefix_tail(eprefix(*e.lhs, ctx), l + sp + op, sp);
                lemma_prefix_tail(eprefix(*e.lhs, ctx), l + sp + op + sp, r);
            } else {
                lemma_ascii_concat(l, sp); lemma_ascii_concat(l + sp, op); lemma_ascii_concat(l + sp + op, sp);
                let head = binary_head(e, ctx);
                lemma_ascii_utf8_len(head);
                if e.rhs.align(ctx) is Some {
                    lemma_prefix_extend(eprefix(*e.rhs, ctx), r, head, Seq::<char>::empty());
                    assert(head + r + Seq::<char>::empty() =~= head + r);
                } else {
                    lemma_ascii_concat(head, r);
                }
            }
        }
        expr::Expr::Value(v) => { lemma_value_shape(*v, ctx); }
    }
}
/// the offset reported for an expression (bytes) never exceeds the display width of its text
pub proof fn lemma_abs_le_width(v: expr::ValueExpr, ctx: DisplayContext)
    ensures expr_abs(v, ctx) <= width_cjk_spec(v.text(ctx))
{
    lemma_value_shape(v, ctx);
    let t = v.text(ctx);
    match v.align(ctx) {
        Some(k) => {
            let pre = vprefix(v, ctx);
            assert(t =~= pre + t.subrange(k as int, t.len() as int));
            axiom_width_cjk_add(pre, t.subrange(k as int, t.len() as int));
            axiom_width_cjk_ascii(pre);
        }
        None => { axiom_width_cjk_ascii(t); lemma_ascii_utf8_len(t); }
    }
}

/// ASSUMED (unicode-width, non-CJK variant): one column per printable ASCII character
#[verifier::external_body]
pub proof fn axiom_width_ascii(s: Seq<char>)
    requires printable_ascii(s),
    ensures width_spec(s) == s.len()
{}
/// the clear mark (``, `* `, `! `) is printable ASCII: its bytes, characters and columns coincide
pub proof fn lemma_clear_mark_width(v: ClearState)
    ensures width_spec(clear_mark(v)) == clear_mark(v).len(), utf8_len(clear_mark(v)) == clear_mark(v).len()
{
    axiom_width_ascii(clear_mark(v)); lemma_ascii_utf8_len(clear_mark(v));
}
