// derive(Clone) on PrettyDecimal (R13-style expansion)
impl Clone for PrettyDecimal {
    #[verifier::external_body]
    fn clone(&self) -> (r: PrettyDecimal) ensures r == *self { unimplemented!() }
}
impl vstd::std_specs::convert::FromSpecImpl<PrettyDecimal> for Decimal {
    open spec fn obeys_from_spec() -> bool { true }
    open spec fn from_spec(v: PrettyDecimal) -> Decimal { v.value }
}
impl OwnedCommodity {
    #[verifier::external_body]
    pub fn from_string(v: String) -> (r: OwnedCommodity) { unimplemented!() }
}
