// ---- C04: the register sum, per account and commodity (order-free: a sum of reals) ----
/// what a balance shows for account a in commodity c (nothing shown = 0)
pub open spec fn val(b: Map<Account, Map<Commodity, real>>, a: Account, c: Commodity) -> real { mget(bget(b, a), c) }
/// an account never holds a commodity whose total is zero
pub open spec fn no_zero(b: Map<Account, Map<Commodity, real>>) -> bool {
    forall|a: Account, c: Commodity| b.contains_key(a) && #[trigger] b[a].contains_key(c) ==> b[a][c] != 0real
}
pub open spec fn posting_term(p: Posting, a: Account, c: Commodity) -> real { if p.account == a { mget(p.amount@, c) } else { 0real } }
/// the register of one transaction: the sum of the listed amounts of account a in commodity c over its first j postings
pub open spec fn acct_sum(ps: Seq<Posting>, j: int, a: Account, c: Commodity) -> real
    decreases j
{
    if j <= 0 { 0real } else { acct_sum(ps, j - 1, a, c) + posting_term(ps[j - 1], a, c) }
}
/// ... over the first i transactions, those dated within `sel` only
pub open spec fn txn_sum(txns: Seq<Transaction>, i: int, sel: spec_fn(NaiveDate) -> bool, a: Account, c: Commodity) -> real
    decreases i
{
    if i <= 0 { 0real } else {
        txn_sum(txns, i - 1, sel, a, c) + (if sel(txns[i - 1].date) { acct_sum(txns[i - 1].postings@, txns[i - 1].postings@.len() as int, a, c) } else { 0real })
    }
}
pub open spec fn all_dates() -> spec_fn(NaiveDate) -> bool { |d: NaiveDate| true }

pub proof fn lemma_acct_sum_prefix(s1: Seq<Posting>, s2: Seq<Posting>, j: int, a: Account, c: Commodity)
    requires 0 <= j <= s1.len(), j <= s2.len(), forall|k: int| 0 <= k < j ==> s1[k].account == s2[k].account && s1[k].amount@ == s2[k].amount@,
    ensures acct_sum(s1, j, a, c) == acct_sum(s2, j, a, c),
    decreases j
{
    if j > 0 { lemma_acct_sum_prefix(s1, s2, j - 1, a, c); }
}
/// replacing the amount of posting u (same account): the sum changes by the difference of that posting's term
pub proof fn lemma_acct_sum_update(s1: Seq<Posting>, s2: Seq<Posting>, u: int, j: int, a: Account, c: Commodity)
    requires 0 <= u < s1.len(), s1.len() == s2.len(), 0 <= j <= s1.len(),
        forall|k: int| 0 <= k < s1.len() && k != u ==> s1[k].account == s2[k].account && s1[k].amount@ == s2[k].amount@,
    ensures acct_sum(s2, j, a, c) == acct_sum(s1, j, a, c) + (if u < j { posting_term(s2[u], a, c) - posting_term(s1[u], a, c) } else { 0real }),
    decreases j
{
    if j > 0 { lemma_acct_sum_update(s1, s2, u, j - 1, a, c); }
}
pub proof fn lemma_txn_sum_prefix(t1: Seq<Transaction>, t2: Seq<Transaction>, i: int, sel: spec_fn(NaiveDate) -> bool, a: Account, c: Commodity)
    requires 0 <= i <= t1.len(), i <= t2.len(), forall|k: int| 0 <= k < i ==> t1[k] == t2[k],
    ensures txn_sum(t1, i, sel, a, c) == txn_sum(t2, i, sel, a, c),
    decreases i
{
    if i > 0 { lemma_txn_sum_prefix(t1, t2, i - 1, sel, a, c); }
}
/// booking an amount on an account adds it to that account's totals and to nothing else, and stores no zero
pub proof fn lemma_book_val(b: Map<Account, Map<Commodity, real>>, acct: Account, d: Map<Commodity, real>, a: Account, c: Commodity)
    ensures val(b.insert(acct, nz(madd(bget(b, acct), d))), a, c) == val(b, a, c) + (if a == acct { mget(d, c) } else { 0real }),
{
}
