// stand-ins for types Ledger::balance mentions but never looks inside
pub mod parse { #[verifier::external_body] pub struct ParseError { _p: usize } }
/// R4: message text (Display of an error) is opaque
#[verifier::external_body]
pub fn opaque_string() -> String { unimplemented!() }

// ASSUMED model of std::borrow::Cow (same variant names): a borrowed or an owned value
pub enum Cow<'a, T> { Borrowed(&'a T), Owned(T) }
impl<'a, T> Cow<'a, T> {
    pub open spec fn value(self) -> T { match self { Cow::Borrowed(b) => *b, Cow::Owned(o) => o } }
    /// std: clones a borrowed value, unwraps an owned one.  ASSUMED: the clone equals the original (derive(Clone))
    #[verifier::external_body]
    pub fn into_owned(self) -> (r: T) where T: Clone
        ensures r == self.value(),
    { unimplemented!() }
}
/// what auto-deref (`Deref for Cow`) does at `balance.iter()`
pub fn cow_ref<'b, 'a, T>(c: &'b Cow<'a, T>) -> (r: &'b T)
    ensures *r == c.value(),
{
    match c { Cow::Borrowed(b) => *b, Cow::Owned(o) => o }
}
