// DisplayContext stand-in: the configured precision table (HashMap<String, u8> looked up by &str: the borrowed-key
// link for String keys is outside vstd, so the lookup is a function of the name)
pub struct DisplayContext { pub precisions: PrecisionTable }
#[verifier::external_body]
pub struct PrecisionTable { _p: usize }
impl PrecisionTable {
    pub uninterp spec fn lookup(&self, name: Seq<char>) -> Option<u8>;
    #[verifier::external_body]
    pub fn get_precision(&self, name: &str) -> (r: Option<u8>) ensures r == self.lookup(name@) { unimplemented!() }
}
use vstd::std_specs::cmp::PartialOrdSpec as _;
// core::cmp::max has no vstd spec (ASSUMED from its source: `match a.cmp(&b) { Greater => a, _ => b }`)
pub assume_specification<T: Ord>[core::cmp::max::<T>](a: T, b: T) -> (r: T)
    ensures
        a.partial_cmp_spec(&b) == Some(core::cmp::Ordering::Greater) ==> r == a,
        a.partial_cmp_spec(&b) != Some(core::cmp::Ordering::Greater) ==> r == b;
pub assume_specification<T: Ord>[core::cmp::min::<T>](a: T, b: T) -> (r: T)
    ensures
        a.partial_cmp_spec(&b) == Some(core::cmp::Ordering::Greater) ==> r == b,
        a.partial_cmp_spec(&b) != Some(core::cmp::Ordering::Greater) ==> r == a;
