// ---- C19: what an expression prints and where its aligned number ends (spec side) ----
// The offset is counted in BYTES of the printed text, as the code does ("given the amount is only [0-9.], it's ok to count bytes").
impl DisplayText for PrettyDecimal {
    /// ASSUMED / decided elsewhere: the text Display for PrettyDecimal prints (family c07, bounded)
    uninterp spec fn display_text(&self) -> Seq<char>;
}
/// ASSUMED: display::rescale is a function of (amount, context); every other clause of its contract is proved in group `rescale`
pub uninterp spec fn rescale_spec(x: expr::Amount, context: DisplayContext) -> PrettyDecimal;

impl DisplayText for expr::UnaryOp {
    open spec fn display_text(&self) -> Seq<char> { match *self { expr::UnaryOp::Negate => seq!['-'] } }
}
impl DisplayText for expr::BinaryOp {
    open spec fn display_text(&self) -> Seq<char> {
        match *self { expr::BinaryOp::Add => seq!['+'], expr::BinaryOp::Sub => seq!['-'], expr::BinaryOp::Mul => seq!['*'], expr::BinaryOp::Div => seq!['/'] }
    }
}
pub open spec fn opt_plus(a: Option<nat>, n: nat) -> Option<nat> { match a { Some(x) => Some(x + n), None => None } }

impl expr::Amount {
    pub open spec fn num_text(self, ctx: DisplayContext) -> Seq<char> { rescale_spec(self, ctx).display_text() }
    /// the number, then (if there is a commodity) one space and the commodity
    pub open spec fn text(self, ctx: DisplayContext) -> Seq<char> {
        if self.commodity@.len() == 0 { self.num_text(ctx) } else { self.num_text(ctx) + seq![' '] + self.commodity@ }
    }
    /// end of the numeric part, if this amount carries a commodity
    pub open spec fn align(self, ctx: DisplayContext) -> Option<nat> {
        if self.commodity@.len() == 0 { None } else { Some(utf8_len(self.num_text(ctx))) }
    }
}
impl expr::ValueExpr {
    pub open spec fn text(self, ctx: DisplayContext) -> Seq<char>
        decreases self
    {
        match self { expr::ValueExpr::Paren(e) => seq!['('] + e.text(ctx) + seq![')'], expr::ValueExpr::Amount(a) => a.text(ctx) }
    }
    pub open spec fn align(self, ctx: DisplayContext) -> Option<nat>
        decreases self
    {
        match self { expr::ValueExpr::Paren(e) => opt_plus(e.align(ctx), 1), expr::ValueExpr::Amount(a) => a.align(ctx) }
    }
}
impl expr::Expr {
    pub open spec fn text(self, ctx: DisplayContext) -> Seq<char>
        decreases self
    {
        match self {
            expr::Expr::Unary(e) => e.op.display_text() + e.expr.text(ctx),
            expr::Expr::Binary(e) => e.lhs.text(ctx) + seq![' '] + e.op.display_text() + seq![' '] + e.rhs.text(ctx),
            expr::Expr::Value(v) => v.text(ctx),
        }
    }
    /// offset (bytes from the start of what is printed) of the end of the numeric part of the FIRST amount that carries a commodity
    pub open spec fn align(self, ctx: DisplayContext) -> Option<nat>
        decreases self
    {
        match self {
            expr::Expr::Unary(e) => opt_plus(e.expr.align(ctx), utf8_len(e.op.display_text())),
            expr::Expr::Binary(e) => match e.lhs.align(ctx) {
                Some(x) => Some(x),
                None => opt_plus(e.rhs.align(ctx), utf8_len(e.lhs.text(ctx) + seq![' '] + e.op.display_text() + seq![' '])),
            },
            expr::Expr::Value(v) => v.align(ctx),
        }
    }
}
/// what fmt_with_alignment has to return for a printed text `t` whose first commodity-bearing number ends at `a`
pub open spec fn alignment_of(a: Option<nat>, t: Seq<char>) -> Alignment {
    match a { Some(x) => Alignment::Complete(x as usize), None => Alignment::Partial(utf8_len(t) as usize) }
}

// ---- lemmas: lengths of the printed text, and the aligned offset lies inside it ----
pub proof fn lemma_paren_len(e: expr::Expr, ctx: DisplayContext)
    ensures utf8_len(expr::ValueExpr::Paren(e).text(ctx)) == utf8_len(e.text(ctx)) + 2
{
    lemma_utf8_len_add(seq!['('] + e.text(ctx), seq![')']);
    lemma_utf8_len_add(seq!['('], e.text(ctx));
    lemma_utf8_len_one('('); lemma_utf8_len_one(')');
}
pub proof fn lemma_op_len(u: expr::UnaryOp, b: expr::BinaryOp)
    ensures utf8_len(u.display_text()) == 1, utf8_len(b.display_text()) == 1
{
    lemma_utf8_len_one('-'); lemma_utf8_len_one('+'); lemma_utf8_len_one('*'); lemma_utf8_len_one('/');
}
pub proof fn lemma_unary_len(e: expr::UnaryOpExpr, ctx: DisplayContext)
    ensures utf8_len(expr::Expr::Unary(e).text(ctx)) == 1 + utf8_len(e.expr.text(ctx))
{
    lemma_utf8_len_add(e.op.display_text(), e.expr.text(ctx));
    lemma_op_len(e.op, expr::BinaryOp::Add);
}
pub open spec fn binary_head(e: expr::BinaryOpExpr, ctx: DisplayContext) -> Seq<char> {
    e.lhs.text(ctx) + seq![' '] + e.op.display_text() + seq![' ']
}
pub proof fn lemma_binary_len(e: expr::BinaryOpExpr, ctx: DisplayContext)
    ensures
        utf8_len(binary_head(e, ctx)) == utf8_len(e.lhs.text(ctx)) + 3,
        utf8_len(expr::Expr::Binary(e).text(ctx)) == utf8_len(e.lhs.text(ctx)) + 3 + utf8_len(e.rhs.text(ctx)),
{
    let l = e.lhs.text(ctx);
    lemma_utf8_len_add(l, seq![' ']);
    lemma_utf8_len_add(l + seq![' '], e.op.display_text());
    lemma_utf8_len_add(l + seq![' '] + e.op.display_text(), seq![' ']);
    lemma_utf8_len_add(binary_head(e, ctx), e.rhs.text(ctx));
    lemma_utf8_len_one(' ');
    lemma_op_len(expr::UnaryOp::Negate, e.op);
}
pub proof fn lemma_amount_align_inside(a: expr::Amount, ctx: DisplayContext)
    ensures a.align(ctx) matches Some(x) ==> x <= utf8_len(a.text(ctx))
{
    if a.commodity@.len() != 0 {
        lemma_utf8_len_add(a.num_text(ctx) + seq![' '], a.commodity@);
        lemma_utf8_len_add(a.num_text(ctx), seq![' ']);
    }
}
pub proof fn lemma_value_align_inside(v: expr::ValueExpr, ctx: DisplayContext)
    ensures v.align(ctx) matches Some(x) ==> x <= utf8_len(v.text(ctx))
    decreases v
{
    match v {
        expr::ValueExpr::Paren(e) => { lemma_expr_align_inside(e, ctx); lemma_paren_len(e, ctx); }
        expr::ValueExpr::Amount(a) => { lemma_amount_align_inside(a, ctx); }
    }
}
/// C19: the offset returned for an expression lies inside the text printed for it
pub proof fn lemma_expr_align_inside(x: expr::Expr, ctx: DisplayContext)
    ensures x.align(ctx) matches Some(k) ==> k <= utf8_len(x.text(ctx))
    decreases x
{
    match x {
        expr::Expr::Unary(e) => { lemma_expr_align_inside(*e.expr, ctx); lemma_unary_len(e, ctx); lemma_op_len(e.op, expr::BinaryOp::Add); }
        expr::Expr::Binary(e) => { lemma_expr_align_inside(*e.lhs, ctx); lemma_expr_align_inside(*e.rhs, ctx); lemma_binary_len(e, ctx); }
        expr::Expr::Value(v) => { lemma_value_align_inside(*v, ctx); }
    }
}
