// C18 — stand-ins for the serde model in iso_camt053/xmlnode.rs: exactly the members the two helper functions read.
// xmlnode::Amount and CreditOrDebit are extracted from /repo; Entry and DateHolder are stand-ins (rustc type-checks the
// extracted bodies against them).
pub mod xmlnode_stub {
    use super::*;
    #[verifier::external_body]
    pub struct DateHolder { _p: usize }
    impl DateHolder {
        pub uninterp spec fn date(&self) -> NaiveDate;
        /// ASSUMED: the naive local date of `Dt` / `DtTm`
        #[verifier::external_body]
        pub fn as_naive_date(&self) -> (r: NaiveDate) ensures r == self.date() { unimplemented!() }
    }
    /// stand-in for xmlnode::Entry: the members the importer's per-entry statements read (the XML types behind the other members are not modelled)
    pub struct Entry { pub amount: super::xmlnode::Amount, pub credit_or_debit: CreditDebitIndicator, pub booking_date: DateHolder, pub value_date: Option<DateHolder> }
    pub struct CreditDebitIndicator { pub value: super::xmlnode::CreditOrDebit }
    pub struct References { pub account_servicer_reference: Option<String> }
    /// stand-ins for xmlnode::Charges / ChargeRecord and the part of config::ConfigEntry that add_charges reads
    pub struct Charges { pub records: Vec<ChargeRecord> }
    pub struct ChargeRecord { pub amount: super::xmlnode::Amount, pub credit_or_debit: CreditDebitIndicator, pub is_charge_included: bool }
    /// stand-ins for xmlnode::Statement / Balance: the members find_balance reads
    pub struct Statement { pub balance: Vec<Balance> }
    pub struct Balance { pub balance_type: BalanceType, pub amount: super::xmlnode::Amount, pub credit_or_debit: CreditDebitIndicator }
    pub struct BalanceType { pub credit_or_property: CodeOrProperty }
    pub struct CodeOrProperty { pub code: BalanceCodeValue }
    pub struct BalanceCodeValue { pub value: super::xmlnode::BalanceCode }
    /// stand-in for xmlnode::TransactionDetails (one detail of a batched entry)
    pub struct TransactionDetails { pub refs: References, pub amount: super::xmlnode::Amount, pub credit_or_debit: CreditDebitIndicator, pub amount_details: Option<AmountDetails> }
    pub struct AmountDetails { pub transaction: AmountWithExchange }
    pub struct AmountWithExchange { pub amount: super::xmlnode::Amount, pub currency_exchange: Option<CurrencyExchange> }
    pub struct CurrencyExchange { pub source_currency: String, pub target_currency: String, pub exchange_rate: ExchangeRate }
    pub struct ExchangeRate { pub value: super::Decimal }
}
/// extract::Fragment as the importer reads it
pub struct Fragment { pub cleared: bool, pub payee: Option<&'static str>, pub account: Option<&'static str> }
/// ASSUMED std models used by the Txn setters: str::to_string, Option<&str>::map(str::to_string), Option<String>::as_deref
#[verifier::external_body]
pub fn opt_str_to_string(o: Option<&str>) -> (r: Option<String>) ensures r is Some <==> o is Some, r matches Some(s) ==> s@ == o->Some_0@ { unimplemented!() }
#[verifier::external_body]
pub fn str_to_string(s: &str) -> (r: String) ensures r@ == s@ { unimplemented!() }
#[verifier::external_body]
pub fn opt_string_as_deref(o: &Option<String>) -> (r: Option<&str>) ensures r is Some <==> o is Some, r matches Some(s) ==> s@ == o->Some_0@ { unimplemented!() }
/// single_entry::single_line (keeps imported text on one line; C15): opaque here
#[verifier::external_body]
pub fn single_line(text: &str) -> (r: String) { unimplemented!() }


pub mod config { pub struct ConfigEntry { pub operator: Option<String> } }
pub enum ImportError { InvalidConfig(&'static str), Unimplemented(&'static str), Other(String) }
/// ASSUMED std: String == String compares the texts; String::clone copies the text
#[verifier::external_body]
pub fn string_ne(a: &String, b: &String) -> (r: bool) ensures r == (a@ != b@) { unimplemented!() }
#[verifier::external_body]
pub fn string_clone(a: &String) -> (r: String) ensures r@ == a@ { unimplemented!() }

/// derive(PartialEq) on xmlnode::Amount (`a != b`): same currency text and numerically equal value (ASSUMED: String and Decimal equality)
#[verifier::external_body]
pub fn amount_ne(a: &xmlnode::Amount, b: &xmlnode::Amount) -> (r: bool) ensures r == !(a.currency@ == b.currency@ && a.value.val() == b.value.val()) { unimplemented!() }
