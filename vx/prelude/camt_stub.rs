// C18 — stand-ins for the serde model in iso_camt053/xmlnode.rs: exactly the members the two helper functions read.
// xmlnode::Amount and CreditOrDebit are extracted from /repo; Entry and DateHolder are stand-ins (rustc type-checks the
// extracted bodies against them).
pub mod xmlnode_stub {
    use super::*;
    #[verifier::external_body]
    pub struct DateHolder { _p: usize }
    impl DateHolder {
        pub uninterp spec fn date(&self) -> NaiveDate;
        /// ASSUMED: the naive local date of `Dt` / `DtTm`
        #[verifier::external_body]
        pub fn as_naive_date(&self) -> (r: NaiveDate) ensures r == self.date() { unimplemented!() }
    }
    pub struct Entry { pub booking_date: DateHolder, pub value_date: Option<DateHolder> }
}
