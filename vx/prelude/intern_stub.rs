// L0 — ASSUMED facts about &str-keyed HashMaps and the bump arena (C12).
// vstd has no key model for &str and cannot relate a borrowed `&str` query to the stored `&'static str` key;
// these four axioms say: a string key is its content (Eq/Hash of str are content equality).
pub mod str_axioms {
    use super::*;
    // the stored key with the same content as `q`
    pub uninterp spec fn as_static(q: &str) -> &'static str;
    pub uninterp spec fn key_matches<K, Q: ?Sized>(key: K, q: &Q) -> bool;
    #[verifier::external_body]
    pub broadcast proof fn axiom_as_static(q: &str)
        ensures #![trigger as_static(q)] as_static(q)@ == q@, forall|k: &'static str| k@ == q@ ==> as_static(q) == k {}
    #[verifier::external_body]
    pub broadcast proof fn axiom_str_key_matches(key: &'static str, q: &str)
        ensures #[trigger] key_matches(key, q) == (key == as_static(q)) {}
    #[verifier::external_body]
    pub broadcast proof fn axiom_str_key_model()
        ensures #[trigger] vstd::std_specs::hash::obeys_key_model::<&'static str>() {}
    #[verifier::external_body]
    pub broadcast proof fn axiom_str_contains<V>(m: Map<&'static str, V>, q: &str)
        ensures #[trigger] vstd::std_specs::hash::contains_borrowed_key(m, q) == m.contains_key(as_static(q)) {}
    #[verifier::external_body]
    pub broadcast proof fn axiom_str_maps<V>(m: Map<&'static str, V>, q: &str, v: V)
        ensures #[trigger] vstd::std_specs::hash::maps_borrowed_key_to_value(m, q, v) == (m.contains_key(as_static(q)) && m[as_static(q)] == v) {}
}
use str_axioms::{as_static, key_matches};

// HashMap::get_key_value has no vstd spec: like `get`, plus "the returned key is the stored key matching the query"
pub assume_specification<'a, K: Eq + core::hash::Hash + core::borrow::Borrow<Q>, V, S: core::hash::BuildHasher, A: std::alloc::Allocator, Q: core::hash::Hash + Eq + ?Sized>
    [HashMap::<K, V, S, A>::get_key_value::<Q>](m: &'a HashMap<K, V, S, A>, k: &Q) -> (r: Option<(&'a K, &'a V)>)
    ensures
        vstd::std_specs::hash::obeys_key_model::<K>() && vstd::std_specs::hash::builds_valid_hashers::<S>() ==> {
            &&& (r is Some <==> vstd::std_specs::hash::contains_borrowed_key(m@, k))
            &&& (r matches Some((kk, v)) ==> m@.contains_key(*kk) && m@[*kk] == *v && key_matches(*kk, k))
        };

// bumpalo::Bump::alloc_str: a fresh copy with the same content
#[verifier::external_body]
pub struct Bump { _p: usize }
impl Bump {
    #[verifier::external_body]
    pub fn alloc_str(&self, src: &str) -> (r: &'static str) ensures r@ == src@ { unimplemented!() }
}
// R12: debug_assert!(c) as an obligation
pub fn require_true(b: bool) requires b {}
