// C09/C10 - the rate table: compute_price_table's result is a function of the records, the target and the date (its fragments
// are proved above; that it is a FUNCTION - no hidden state, no dependence on hash order - is ASSUMED here and checked by C13).
impl NaivePriceRepository {
    pub uninterp spec fn table(&self, price_with: Commodity, date: NaiveDate) -> Map<Commodity, WithDistance<Decimal>>;
    #[verifier::external_body]
    pub fn compute_price_table(&self, price_with: Commodity, date: NaiveDate) -> (r: HashMap<Commodity, WithDistance<Decimal>>)
        ensures r@ == self.table(price_with, date),
    { unimplemented!() }
}
impl PriceRepository {
    /// every memoised table is the table the records give for its key
    pub open spec fn cache_consistent(&self) -> bool {
        forall|k: (Commodity, NaiveDate)| #[trigger] self.cache@.contains_key(k) ==> self.cache@[k]@ == self.inner.table(k.0, k.1)
    }
}
