// ---- C04: lemmas over the contracts of Ledger::balance, add_transaction and ProcessAccumulator::process ----
pub open spec fn window(q: &BalanceQuery) -> spec_fn(NaiveDate) -> bool { |d: NaiveDate| in_range(q.date_range.start, q.date_range.end, d) }
pub open spec fn not_historical(q: &BalanceQuery) -> bool { !(q.conversion matches Some(c) && c.strategy is Historical) }
impl Ledger {
    /// the data-structure invariant ProcessAccumulator::process is proved to maintain (group `bookkeep`) and `process` hands over
    /// field by field (textual anchor): the stored balance is the register sum over the whole history
    pub open spec fn wf(&self) -> bool {
        forall|a: Account, c: Commodity| #[trigger] val(self.raw_balance@, a, c) == txn_sum(self.transactions@, self.transactions@.len() as int, all_dates(), a, c)
    }
}
pub proof fn lemma_fold_postings_val(b: Map<Account, Map<Commodity, real>>, repo: &NaivePriceRepository, q: &BalanceQuery, txns: Seq<Transaction>, ti: int, j: int, a: Account, c: Commodity)
    requires not_historical(q), 0 <= ti < txns.len(), 0 <= j <= txns[ti].postings@.len(),
    ensures val(fold_postings(b, repo, q, txns, ti, j), a, c) == val(b, a, c) + acct_sum(txns[ti].postings@, j, a, c),
    decreases j
{
    if j > 0 {
        lemma_fold_postings_val(b, repo, q, txns, ti, j - 1, a, c);
        let b1 = fold_postings(b, repo, q, txns, ti, j - 1);
        let p = txns[ti].postings@[j - 1];
        assert(delta_at(repo, q, txns, ti, j - 1) == Some(p.amount@));
        lemma_book_val(b1, p.account, p.amount@, a, c);
    }
}
/// C04: the window report (before rounding) shows, for every account and commodity, the sum of the amounts the register lists
/// for the transactions dated in [start, end)
pub proof fn lemma_fold_is_register_sum(repo: &NaivePriceRepository, q: &BalanceQuery, txns: Seq<Transaction>, i: int, a: Account, c: Commodity)
    requires not_historical(q), 0 <= i <= txns.len(),
    ensures val(fold_txns(repo, q, txns, i), a, c) == txn_sum(txns, i, window(q), a, c),   // @theorem.window_report_is_the_register_sum_per_account_and_commodity
    decreases i
{
    if i > 0 {
        lemma_fold_is_register_sum(repo, q, txns, i - 1, a, c);
        if in_range(q.date_range.start, q.date_range.end, txns[i - 1].date) {
            lemma_fold_postings_val(fold_txns(repo, q, txns, i - 1), repo, q, txns, i - 1, txns[i - 1].postings@.len() as int, a, c);
        }
        assert(window(q)(txns[i - 1].date) == in_range(q.date_range.start, q.date_range.end, txns[i - 1].date));
    }
}
/// two selections that agree on every date give the same sum
pub proof fn lemma_txn_sum_ext(txns: Seq<Transaction>, i: int, s1: spec_fn(NaiveDate) -> bool, s2: spec_fn(NaiveDate) -> bool, a: Account, c: Commodity)
    requires 0 <= i <= txns.len(), forall|d: NaiveDate| #[trigger] s1(d) == s2(d),
    ensures txn_sum(txns, i, s1, a, c) == txn_sum(txns, i, s2, a, c),
    decreases i
{
    if i > 0 { lemma_txn_sum_ext(txns, i - 1, s1, s2, a, c); }
}
/// C04: reports over adjacent ranges add up to the report over their union (per account and commodity, before rounding)
pub proof fn theorem_adjacent_windows_add_up(txns: Seq<Transaction>, i: int, lo: Option<NaiveDate>, mid: NaiveDate, hi: Option<NaiveDate>, a: Account, c: Commodity)
    requires 0 <= i <= txns.len(),
        lo matches Some(x) ==> x.day() <= mid.day(),
        hi matches Some(z) ==> mid.day() <= z.day(),
    ensures
        txn_sum(txns, i, |d: NaiveDate| in_range(lo, hi, d), a, c)
            == txn_sum(txns, i, |d: NaiveDate| in_range(lo, Some(mid), d), a, c) + txn_sum(txns, i, |d: NaiveDate| in_range(Some(mid), hi, d), a, c),   // @theorem.adjacent_windows_add_up
    decreases i
{
    if i > 0 {
        theorem_adjacent_windows_add_up(txns, i - 1, lo, mid, hi, a, c);
        lemma_adjacent_ranges_partition(lo, mid, hi, txns[i - 1].date);
    }
}
/// C04: the whole-history report (the stored balance), the report recomputed over an unbounded window and the register total agree
pub proof fn theorem_whole_history_agrees(l: &Ledger, q: &BalanceQuery, a: Account, c: Commodity)
    requires l.wf(), not_historical(q), q.date_range.start is None, q.date_range.end is None,
    ensures
        val(l.raw_balance@, a, c) == val(fold_txns(&l.price_repos.inner, q, l.transactions@, l.transactions@.len() as int), a, c),   // @theorem.stored_balance_equals_the_refold_over_everything
        val(l.raw_balance@, a, c) == txn_sum(l.transactions@, l.transactions@.len() as int, all_dates(), a, c),                      // @theorem.stored_balance_is_the_register_total
{
    let n = l.transactions@.len() as int;
    lemma_fold_is_register_sum(&l.price_repos.inner, q, l.transactions@, n, a, c);
    lemma_txn_sum_ext(l.transactions@, n, window(q), all_dates(), a, c);
}
/// C04: an account never shows a commodity whose total is zero (re-fold: every booking drops zero entries)
pub proof fn lemma_fold_postings_no_zero(b: Map<Account, Map<Commodity, real>>, repo: &NaivePriceRepository, q: &BalanceQuery, txns: Seq<Transaction>, ti: int, j: int)
    requires no_zero(b),
    ensures no_zero(fold_postings(b, repo, q, txns, ti, j)),
    decreases j
{
    if j > 0 { lemma_fold_postings_no_zero(b, repo, q, txns, ti, j - 1); }
}
pub proof fn theorem_window_report_shows_no_zero_total(repo: &NaivePriceRepository, q: &BalanceQuery, txns: Seq<Transaction>, i: int)
    ensures no_zero(fold_txns(repo, q, txns, i)),   // @theorem.window_report_has_no_zero_totals
    decreases i
{
    if i > 0 {
        theorem_window_report_shows_no_zero_total(repo, q, txns, i - 1);
        lemma_fold_postings_no_zero(fold_txns(repo, q, txns, i - 1), repo, q, txns, i - 1, txns[i - 1].postings@.len() as int);
    }
}
