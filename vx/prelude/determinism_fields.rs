// import::config::RewriteField derives Ord (a field-less enum: declaration order).  ASSUMED: that order is antisymmetric
// with respect to `==` (what derive(PartialOrd, Ord, PartialEq, Eq) produce together).
pub uninterp spec fn field_ord_le(a: config::RewriteField, b: config::RewriteField) -> bool;
pub open spec fn field_le() -> spec_fn(config::RewriteField, config::RewriteField) -> bool { |a: config::RewriteField, b: config::RewriteField| field_ord_le(a, b) }
/// `V.sort_unstable_by_key(|(fd, _)| **fd)`
#[verifier::external_body]
pub fn sort_unstable_by_field<'a, V>(v: &mut Vec<(&'a config::RewriteField, &'a V)>)
    ensures refs_view(final(v)@).to_multiset() == refs_view(old(v)@).to_multiset(), det::sorted_by_key(refs_view(final(v)@), field_le()),
{ unimplemented!() }
pub mod det_field_axioms {
    use super::*;
    #[verifier::external_body]
    pub proof fn axiom_field_order() ensures det::antisym(field_le()) {}
}
pub proof fn theorem_field_listing_deterministic<V>(s1: Seq<(config::RewriteField, V)>, s2: Seq<(config::RewriteField, V)>, m: Map<config::RewriteField, V>)
    requires det::is_canonical(s1, m, field_le()), det::is_canonical(s2, m, field_le()),
    ensures s1 == s2,
{
    det_field_axioms::axiom_field_order();
    det::lemma_canonical_unique(s1, s2, m, field_le());
}

// the same for import::config::FieldKey (CSV column mapping)
pub uninterp spec fn fieldkey_ord_le(a: config::FieldKey, b: config::FieldKey) -> bool;
pub open spec fn fieldkey_le() -> spec_fn(config::FieldKey, config::FieldKey) -> bool { |a: config::FieldKey, b: config::FieldKey| fieldkey_ord_le(a, b) }
/// `V.sort_unstable_by_key(|(k, _)| **k)`
#[verifier::external_body]
pub fn sort_unstable_by_fieldkey<'a, V>(v: &mut Vec<(&'a config::FieldKey, &'a V)>)
    ensures refs_view(final(v)@).to_multiset() == refs_view(old(v)@).to_multiset(), det::sorted_by_key(refs_view(final(v)@), fieldkey_le()),
{ unimplemented!() }
pub mod det_fieldkey_axioms {
    use super::*;
    #[verifier::external_body]
    pub proof fn axiom_fieldkey_order() ensures det::antisym(fieldkey_le()) {}
}
pub proof fn theorem_fieldkey_listing_deterministic<V>(s1: Seq<(config::FieldKey, V)>, s2: Seq<(config::FieldKey, V)>, m: Map<config::FieldKey, V>)
    requires det::is_canonical(s1, m, fieldkey_le()), det::is_canonical(s2, m, fieldkey_le()),
    ensures s1 == s2,
{
    det_fieldkey_axioms::axiom_fieldkey_order();
    det::lemma_canonical_unique(s1, s2, m, fieldkey_le());
}
