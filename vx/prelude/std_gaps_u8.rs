// std functions without a vstd specification (ASSUMED, part of the trusted base)
pub assume_specification [u8::is_ascii_digit] (c: &u8) -> (r: bool)
    ensures r == (48 <= *c && *c <= 57);
