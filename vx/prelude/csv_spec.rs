impl FieldMap {
    pub uninterp spec fn resolved(&self, key: FieldKey, field: &Field, r: &csv::StringRecord) -> Result<Option<String>, template::RenderError>;
    #[verifier::external_body]
    fn resolve(&self, field_key: FieldKey, field: &Field, record: &csv::StringRecord) -> (r: Result<Option<String>, template::RenderError>)
        ensures r == self.resolved(field_key, field, record)
    { unimplemented!() }
}
// the number a column holds (empty column = nothing = 0)
pub open spec fn column_value(text: Seq<char>) -> Option<real> {
    match comma_decimal(text) { Ok(Some(d)) => Some(d.val()), Ok(None) => Some(0real), Err(_) => None }
}
