// Stand-in for report::context::ReportContext with exactly the members the units read.
// CommodityStore / AccountStore are InternStore facades (verified separately in group `intern`, C12);
// here only their interface is assumed: get_decimal_point reads the declared precision table.
#[verifier::external_body]
pub struct CommodityStore { _p: usize }
#[verifier::external_body]
pub struct AccountStore { _p: usize }
pub struct ReportContext { pub commodities: CommodityStore, pub accounts: AccountStore }

impl CommodityStore {
    pub uninterp spec fn dp(&self, c: Commodity) -> Option<u32>;
    // name resolution as a function of the store state and the written name
    pub uninterp spec fn resolved(&self, name: Seq<char>) -> Option<Commodity>;

    #[verifier::external_body]
    pub fn get_decimal_point(&self, commodity: Commodity) -> (r: Option<u32>)
        ensures r == self.dp(commodity)
    { unimplemented!() }

    // InternStore::ensure (group `intern`): existing names keep resolving to the same handle, precisions untouched
    #[verifier::external_body]
    pub fn ensure(&mut self, value: &str) -> (r: Commodity)
        ensures
            final(self).resolved(value@) == Some(r),
            old(self).resolved(value@) matches Some(c) ==> r == c,
            forall|n: Seq<char>| old(self).resolved(n) is Some ==> final(self).resolved(n) == old(self).resolved(n),
            forall|c: Commodity| final(self).dp(c) == old(self).dp(c),
    { unimplemented!() }

    #[verifier::external_body]
    pub fn resolve(&self, value: &str) -> (r: Option<Commodity>)
        ensures r == self.resolved(value@)
    { unimplemented!() }
}

impl AccountStore {
    pub uninterp spec fn resolved(&self, name: Seq<char>) -> Option<Account>;
    #[verifier::external_body]
    pub fn ensure(&mut self, value: &str) -> (r: Account)
        ensures
            final(self).resolved(value@) == Some(r),
            old(self).resolved(value@) matches Some(c) ==> r == c,
            forall|n: Seq<char>| old(self).resolved(n) is Some ==> final(self).resolved(n) == old(self).resolved(n),
    { unimplemented!() }
}

// the rounding a context applies to one commodity's value
pub open spec fn ctx_round(ctx: &ReportContext, c: Commodity, x: real) -> real {
    match ctx.commodities.dp(c) { None => x, Some(dp) => rust_decimal::round_spec(x, dp) }
}
