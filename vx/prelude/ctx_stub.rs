// Stand-in for report::context::ReportContext with exactly the members the units read.
// CommodityStore / AccountStore are InternStore facades (verified separately in group `intern`, C12);
// here only their interface is assumed: get_decimal_point reads the declared precision table.
#[verifier::external_body]
pub struct CommodityStore { _p: usize }
#[verifier::external_body]
pub struct AccountStore { _p: usize }
pub struct ReportContext { pub commodities: CommodityStore, pub accounts: AccountStore }

/// the number of decimal places of a `format` sample (PrettyDecimal::scale)
pub uninterp spec fn fmt_scale<T>(t: T) -> u32;
impl CommodityStore {
    pub uninterp spec fn dp(&self, c: Commodity) -> Option<u32>;
    // name resolution as a function of the store state and the written name
    pub uninterp spec fn resolved(&self, name: Seq<char>) -> Option<Commodity>;

    #[verifier::external_body]
    pub fn get_decimal_point(&self, commodity: Commodity) -> (r: Option<u32>)
        ensures r == self.dp(commodity)
    { unimplemented!() }

    // InternStore::ensure (group `intern`): existing names keep resolving to the same handle, precisions untouched
    #[verifier::external_body]
    pub fn ensure(&mut self, value: &str) -> (r: Commodity)
        ensures
            final(self).resolved(value@) == Some(r),
            old(self).resolved(value@) matches Some(c) ==> r == c,
            forall|n: Seq<char>| old(self).resolved(n) is Some ==> final(self).resolved(n) == old(self).resolved(n),
            forall|c: Commodity| final(self).dp(c) == old(self).dp(c),
    { unimplemented!() }

    #[verifier::external_body]
    pub fn resolve(&self, value: &str) -> (r: Option<Commodity>)
        ensures r == self.resolved(value@)
    { unimplemented!() }
}

impl CommodityStore {
    // alias-table state of the underlying InternStore (group `intern`, C12): a name is unknown, canonical, or an alias
    pub uninterp spec fn is_alias(&self, name: Seq<char>) -> bool;
    pub uninterp spec fn is_canonical(&self, name: Seq<char>) -> bool;
    pub uninterp spec fn registered(&self, h: Commodity) -> bool;
    // InternStore::insert_canonical: Err(AlreadyAlias) iff the name is an alias (table unchanged), else the canonical handle
    #[verifier::external_body]
    pub fn insert_canonical(&mut self, value: &str) -> (r: Result<Commodity, u8>)
        ensures
            old(self).is_alias(value@) ==> r is Err && *final(self) == *old(self),
            !old(self).is_alias(value@) ==> (r matches Ok(c) && final(self).resolved(value@) == Some(c) && final(self).is_canonical(value@) && final(self).registered(c)),
            forall|n: Seq<char>| old(self).resolved(n) is Some ==> final(self).resolved(n) == old(self).resolved(n),
            forall|n: Seq<char>| old(self).is_alias(n) ==> final(self).is_alias(n),
            forall|n: Seq<char>| old(self).is_canonical(n) ==> final(self).is_canonical(n),
            forall|h: Commodity| old(self).registered(h) ==> final(self).registered(h),
            // frame (group `intern`: records' == records.insert(value, None)): no other name changes its status
            forall|n: Seq<char>| n != value@ ==> final(self).is_canonical(n) == old(self).is_canonical(n),
            forall|n: Seq<char>| final(self).is_alias(n) ==> old(self).is_alias(n),
    { unimplemented!() }
    // InternStore::insert_alias: Err(AlreadyCanonical) iff the name is canonical (table unchanged); a new name becomes an alias of `canonical`
    #[verifier::external_body]
    pub fn insert_alias(&mut self, value: &str, canonical: Commodity) -> (r: Result<(), u8>)
        requires old(self).registered(canonical),
        ensures
            old(self).is_canonical(value@) ==> r is Err && *final(self) == *old(self),
            !old(self).is_canonical(value@) ==> r is Ok,
            (!old(self).is_canonical(value@) && !old(self).is_alias(value@)) ==> final(self).resolved(value@) == Some(canonical) && final(self).is_alias(value@),
            forall|n: Seq<char>| old(self).resolved(n) is Some ==> final(self).resolved(n) == old(self).resolved(n),
            forall|n: Seq<char>| old(self).is_alias(n) ==> final(self).is_alias(n),
            forall|n: Seq<char>| old(self).is_canonical(n) ==> final(self).is_canonical(n),
            forall|h: Commodity| old(self).registered(h) ==> final(self).registered(h),
            // frame (group `intern`: records' == records or records.insert(value, Some(canonical))): no other name changes its status
            forall|n: Seq<char>| final(self).is_canonical(n) ==> old(self).is_canonical(n),
            forall|n: Seq<char>| n != value@ ==> final(self).is_alias(n) == old(self).is_alias(n),
            forall|h: Commodity| final(self).dp(h) == old(self).dp(h),   // the intern table and the format table are separate fields
    { unimplemented!() }
    /// CommodityStore::set_format: `formatting.insert(commodity, format)`; get_decimal_point reads `formatting[c].scale()`
    #[verifier::external_body]
    pub fn set_format<T>(&mut self, commodity: Commodity, format: T)
        ensures
            final(self).dp(commodity) == Some(fmt_scale(format)),
            forall|h: Commodity| h != commodity ==> final(self).dp(h) == old(self).dp(h),
            forall|n: Seq<char>| final(self).resolved(n) == old(self).resolved(n),
            forall|n: Seq<char>| final(self).is_alias(n) == old(self).is_alias(n),
            forall|n: Seq<char>| final(self).is_canonical(n) == old(self).is_canonical(n),
            forall|h: Commodity| final(self).registered(h) == old(self).registered(h),
    { unimplemented!() }
}

impl AccountStore {
    pub uninterp spec fn is_alias(&self, name: Seq<char>) -> bool;
    pub uninterp spec fn is_canonical(&self, name: Seq<char>) -> bool;
    pub uninterp spec fn registered(&self, h: Account) -> bool;
    #[verifier::external_body]
    pub fn insert_canonical(&mut self, value: &str) -> (r: Result<Account, u8>)
        ensures
            old(self).is_alias(value@) ==> r is Err && *final(self) == *old(self),
            !old(self).is_alias(value@) ==> (r matches Ok(c) && final(self).resolved(value@) == Some(c) && final(self).is_canonical(value@) && final(self).registered(c)),
            forall|n: Seq<char>| old(self).resolved(n) is Some ==> final(self).resolved(n) == old(self).resolved(n),
            forall|n: Seq<char>| old(self).is_alias(n) ==> final(self).is_alias(n),
            forall|n: Seq<char>| old(self).is_canonical(n) ==> final(self).is_canonical(n),
            forall|h: Account| old(self).registered(h) ==> final(self).registered(h),
            // frame (group `intern`: records' == records.insert(value, None)): no other name changes its status
            forall|n: Seq<char>| n != value@ ==> final(self).is_canonical(n) == old(self).is_canonical(n),
            forall|n: Seq<char>| final(self).is_alias(n) ==> old(self).is_alias(n),
    { unimplemented!() }
    #[verifier::external_body]
    pub fn insert_alias(&mut self, value: &str, canonical: Account) -> (r: Result<(), u8>)
        requires old(self).registered(canonical),
        ensures
            old(self).is_canonical(value@) ==> r is Err && *final(self) == *old(self),
            !old(self).is_canonical(value@) ==> r is Ok,
            (!old(self).is_canonical(value@) && !old(self).is_alias(value@)) ==> final(self).resolved(value@) == Some(canonical) && final(self).is_alias(value@),
            forall|n: Seq<char>| old(self).resolved(n) is Some ==> final(self).resolved(n) == old(self).resolved(n),
            forall|n: Seq<char>| old(self).is_alias(n) ==> final(self).is_alias(n),
            forall|n: Seq<char>| old(self).is_canonical(n) ==> final(self).is_canonical(n),
            forall|h: Account| old(self).registered(h) ==> final(self).registered(h),
            // frame (group `intern`: records' == records or records.insert(value, Some(canonical))): no other name changes its status
            forall|n: Seq<char>| final(self).is_canonical(n) ==> old(self).is_canonical(n),
            forall|n: Seq<char>| n != value@ ==> final(self).is_alias(n) == old(self).is_alias(n),
    { unimplemented!() }
    pub uninterp spec fn resolved(&self, name: Seq<char>) -> Option<Account>;
    #[verifier::external_body]
    pub fn resolve(&self, value: &str) -> (r: Option<Account>)
        ensures r == self.resolved(value@)
    { unimplemented!() }
    #[verifier::external_body]
    pub fn ensure(&mut self, value: &str) -> (r: Account)
        ensures
            final(self).resolved(value@) == Some(r),
            old(self).resolved(value@) matches Some(c) ==> r == c,
            forall|n: Seq<char>| old(self).resolved(n) is Some ==> final(self).resolved(n) == old(self).resolved(n),
    { unimplemented!() }
}

// the rounding a context applies to one commodity's value
pub open spec fn ctx_round(ctx: &ReportContext, c: Commodity, x: real) -> real {
    match ctx.commodities.dp(c) { None => x, Some(dp) => rust_decimal::round_spec(x, dp) }
}
