// ---- C12: the alias table ----
// records: name -> None (canonical) | Some(canonical handle) (alias).
impl<T: FromInterned> InternStore<T> {
    // representation invariant: every alias points at a registered canonical name (no chains, no dangling)
    pub open spec fn wf(&self) -> bool {
        forall|k: &'static str| #![trigger self.records@[k]] self.records@.contains_key(k) && self.records@[k] is Some ==>
            self.records@.contains_key(self.records@[k]->Some_0.0) && self.records@[self.records@[k]->Some_0.0] is None
    }
    // what a written name means: None = unknown, Some(handle of the canonical name)
    pub open spec fn lookup(&self, name: &str) -> Option<InternedStr> {
        let k = as_static(name);
        if !self.records@.contains_key(k) { None }
        else { match self.records@[k] { None => Some(InternedStr(k)), Some(c) => Some(c) } }
    }
    pub open spec fn is_canonical(&self, name: &str) -> bool { self.records@.contains_key(as_static(name)) && self.records@[as_static(name)] is None }
    pub open spec fn is_alias(&self, name: &str) -> bool { self.records@.contains_key(as_static(name)) && self.records@[as_static(name)] is Some }
    // every name known before means the same afterwards (keys are never removed or re-pointed)
    pub open spec fn extends(&self, old: &Self) -> bool {
        forall|k: &'static str| #![trigger old.records@[k]] old.records@.contains_key(k) ==> self.records@.contains_key(k) && self.records@[k] == old.records@[k]
    }
}
