// R31: the matcher trait without its GAT polyfill and without the TryFrom<(field, pattern)> constructor bound (construction is
// not under contract); `captures` is a function of the matcher, the fragment so far and the record (regexes are stateless)
pub trait EntityMatcher: Sized {
    spec fn captures_spec(&self, fragment: &Fragment, entity: EntityT) -> Option<Matched>;
    fn captures(&self, fragment: &Fragment, entity: EntityT) -> (r: Option<Matched>)
        ensures r == self.captures_spec(fragment, entity);
}
// derive(Clone, Default) on Fragment (R13-style expansion)
impl Clone for Fragment { #[verifier::external_body] fn clone(&self) -> (r: Self) ensures r == *self { unimplemented!() } }
impl Default for Fragment {
    fn default() -> (r: Self) ensures r == (Fragment { cleared: false, payee: None, account: None, code: None, conversion: None }) {
        Fragment { cleared: false, payee: None, account: None, code: None, conversion: None }
    }
}
pub open spec fn or_opt<T>(a: Option<T>, b: Option<T>) -> Option<T> { if a is Some { a } else { b } }

// ---- C17, from the statement ----
/// an element of an OR-list matches only if ALL its fields do, in order, each seeing the payee / code captured so far; later
/// captures override earlier ones
pub open spec fn and_spec<M: EntityMatcher>(ms: Seq<M>, cur: Fragment, e: EntityT, n: int) -> Option<Fragment>
    decreases n
{
    if n <= 0 { Some(cur) } else {
        match and_spec(ms, cur, e, n - 1) {
            None => None,
            Some(prev) => match ms[n - 1].captures_spec(&prev, e) {
                None => None,
                Some(m) => Some(Fragment { payee: or_opt(m.payee, prev.payee), code: or_opt(m.code, prev.code), ..prev }),
            },
        }
    }
}
/// an OR-list matches if ANY element does: the first matching element (from position k on) gives the captures
pub open spec fn or_spec<M: EntityMatcher>(ands: Seq<MatchAndExpr<M>>, cur: Fragment, e: EntityT, k: int) -> Option<Fragment>
    decreases ands.len() - k
{
    if k < 0 || k >= ands.len() { None } else {
        match and_spec(ands[k].0@, cur, e, ands[k].0@.len() as int) {
            Some(f) => Some(f),
            None => or_spec(ands, cur, e, k + 1),
        }
    }
}
/// what one rule makes of the fragment so far (None: the rule does not match the record)
pub open spec fn rule_spec<M: EntityMatcher>(rule: ExtractRule<M>, cur: Fragment, e: EntityT) -> Option<Fragment> {
    match or_spec(rule.match_expr.0@, cur, e, 0) {
        None => None,
        Some(m) => Some(Fragment {
            // captures set payee and code, the rule's own payee overrides a captured one
            payee: or_opt(rule.payee, m.payee),
            code: m.code,
            // its account replaces any earlier account (a rule without account keeps it)
            account: or_opt(rule.account, cur.account),
            conversion: or_opt(rule.conversion, cur.conversion),
            // pending unless some matching account-assigning rule is not flagged pending
            cleared: cur.cleared || (rule.account is Some && !rule.pending),
        }),
    }
}
/// rules apply in list order, each seeing the fragment (payee) as rewritten by the earlier ones; a rule that does not match changes nothing
pub open spec fn extract_spec<M: EntityMatcher>(rules: Seq<ExtractRule<M>>, e: EntityT, n: int) -> Fragment
    decreases n
{
    if n <= 0 { Fragment { cleared: false, payee: None, account: None, code: None, conversion: None } } else {
        let prev = extract_spec(rules, e, n - 1);
        match rule_spec(rules[n - 1], prev, e) { Some(f) => f, None => prev }
    }
}
// R8: operator impls
impl vstd::std_specs::ops::AddAssignSpecImpl<Fragment> for Fragment {
    open spec fn obeys_add_assign_spec() -> bool { false }
    open spec fn add_assign_req(&self, rhs: Fragment) -> bool { true }
    open spec fn add_assign_spec(&self, rhs: Fragment) -> &Fragment { arbitrary() }
}
impl vstd::std_specs::ops::AddSpecImpl<Matched> for Fragment {
    open spec fn obeys_add_spec() -> bool { false }
    open spec fn add_req(self, rhs: Matched) -> bool { true }
    open spec fn add_spec(self, rhs: Matched) -> Fragment { arbitrary() }
}
