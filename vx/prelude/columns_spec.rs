impl Alignment {
    pub open spec fn absolute_spec(self) -> int {
        match self { Alignment::Complete(x) => x as int, Alignment::Partial(x) => x as int }
    }
}
