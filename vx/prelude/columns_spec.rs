impl Alignment {
    pub open spec fn absolute_spec(self) -> int {
        match self { Alignment::Complete(x) => x as int, Alignment::Partial(x) => x as int }
    }
}

// ASSUMED model of the unicode-width crate: display columns of a text (East-Asian wide characters count two in the
// `_cjk` variant).  Uninterpreted: a byte or char count can never be proved equal to it.
pub uninterp spec fn width_cjk_spec(s: Seq<char>) -> nat;
pub uninterp spec fn width_spec(s: Seq<char>) -> nat;
pub struct UnicodeWidthStr;
impl UnicodeWidthStr {
    #[verifier::external_body]
    pub fn width_cjk(s: &str) -> (r: usize) ensures r == width_cjk_spec(s@) { unimplemented!() }
    #[verifier::external_body]
    pub fn width(s: &str) -> (r: usize) ensures r == width_spec(s@) { unimplemented!() }
}
// String::len counts UTF-8 bytes (ASSUMED; uninterpreted, so it is never provably a display width)
pub uninterp spec fn utf8_len_spec(s: Seq<char>) -> nat;
pub assume_specification [std::string::String::len](s: &String) -> (r: usize) ensures r == utf8_len_spec(s@);
