// ---- stand-ins for the GAT-decorated syntax types `Display for Posting` reads (exactly the fields it reads; rustc type-checks the unit against them) ----
pub struct Decorated<T> { pub v: T }
impl<T> Decorated<T> {
    pub fn as_undecorated(&self) -> (r: &T) ensures *r == self.v { &self.v }
}
pub enum Exchange { Total(expr::ValueExpr), Rate(expr::ValueExpr) }
#[verifier::external_body]
pub struct Lot { _p: usize }
#[verifier::external_body]
pub struct Metadata { _p: usize }
pub struct PostingAmount { pub amount: Decorated<expr::ValueExpr>, pub cost: Option<Decorated<Exchange>>, pub lot: Lot }
pub struct Posting {
    pub account: Decorated<String>, pub clear_state: ClearState, pub amount: Option<PostingAmount>,
    pub balance: Option<Decorated<expr::ValueExpr>>, pub metadata: Vec<Metadata>,
}
// a String is a sink (fmt::Write for String appends)
impl fmt::Write for String {
    open spec fn text(&self) -> Seq<char> { self@ }
}
impl<T: DisplayText> DisplayText for &T {
    open spec fn display_text(&self) -> Seq<char> { (**self).display_text() }
}
impl DisplayText for Metadata { uninterp spec fn display_text(&self) -> Seq<char>; }
// Display for WithContext<Lot>: the lot part (` {..}`, ` [date]`, ` (note)`) - not under contract here
pub uninterp spec fn lot_text(lot: Lot, ctx: DisplayContext) -> Seq<char>;
impl DisplayText for WithContext<'_, Lot> { open spec fn display_text(&self) -> Seq<char> { lot_text(*self.value, *self.context) } }
// Display for WithContext<ValueExpr> is the blanket impl over DisplayWithAlignment (proved in this group: `WithContext.fmt.display_is_the_aligned_text`)
impl DisplayText for WithContext<'_, expr::ValueExpr> {
    open spec fn display_text(&self) -> Seq<char> { self.value.text(*self.context) }
}
