// ---- C19: what a formatted posting line consists of (spec side) ----
// Written as the text of the sink AFTER each part, in the order the parts are sent (so that it can be compared with the code piece by piece).
pub open spec fn clear_mark(v: ClearState) -> Seq<char> {
    match v { ClearState::Uncleared => Seq::<char>::empty(), ClearState::Cleared => seq!['*', ' '], ClearState::Pending => seq!['!', ' '] }
}
/// get_column's contract as a function: shift so that what follows lands on `colsize`, at least `padding`
pub open spec fn col(colsize: int, left: int, padding: int) -> int { if left + padding < colsize { colsize - left } else { padding } }
/// the offset fmt_with_alignment reports for an expression: end of the first commodity-bearing number, else the whole length (bytes)
pub open spec fn expr_abs(e: expr::ValueExpr, ctx: DisplayContext) -> int {
    match e.align(ctx) { Some(k) => k as int, None => utf8_len(e.text(ctx)) as int }
}
pub open spec fn acct_width(p: Posting) -> int { (width_cjk_spec(p.account.v@) + width_spec(clear_mark(p.clear_state))) as int }
/// four spaces, the clear mark, the account
pub open spec fn after_head(t: Seq<char>, p: Posting) -> Seq<char> { t + seq![' ', ' ', ' ', ' '] + clear_mark(p.clear_state) + p.account.v@ }
pub open spec fn after_cost(t: Seq<char>, c: Option<Decorated<Exchange>>, ctx: DisplayContext) -> Seq<char> {
    match c {
        None => t,
        Some(x) => match x.v { Exchange::Rate(v) => t + seq![' ', '@', ' '] + v.text(ctx), Exchange::Total(v) => t + seq![' ', '@', '@', ' '] + v.text(ctx) },
    }
}
/// the padding that moves the number to its column (at least two spaces), the amount expression, the lot part, the cost
pub open spec fn amount_padding_spec(p: Posting, ctx: DisplayContext) -> int {
    match p.amount { None => 0, Some(a) => col(48, acct_width(p) + expr_abs(a.amount.v, ctx), 2) }
}
pub open spec fn after_amount(t: Seq<char>, p: Posting, ctx: DisplayContext) -> Seq<char> {
    match p.amount {
        None => t,
        Some(a) => after_cost(t + pad_right(Seq::<char>::empty(), amount_padding_spec(p, ctx)) + a.amount.v.text(ctx) + lot_text(a.lot, ctx), a.cost, ctx),
    }
}
pub open spec fn balance_padding_spec(p: Posting, ctx: DisplayContext) -> int {
    match p.balance {
        None => 0,
        Some(b) => if p.amount is Some { 0 } else { col(50 + (width_cjk_spec(b.v.text(ctx)) - expr_abs(b.v, ctx)), acct_width(p), 3) },
    }
}
/// ` =` right-aligned in the padding, one space, the assertion expression
pub open spec fn after_balance(t: Seq<char>, p: Posting, ctx: DisplayContext) -> Seq<char> {
    match p.balance {
        None => t,
        Some(b) => t + pad_right(seq![' ', '='], balance_padding_spec(p, ctx)) + seq![' '] + b.v.text(ctx),
    }
}
pub open spec fn after_meta(t: Seq<char>, ms: Seq<Metadata>, n: int) -> Seq<char>
    decreases n
{
    if n <= 0 { t } else { after_meta(t, ms, n - 1) + seq![' ', ' ', ' ', ' ', ';', ' '] + ms[n - 1].display_text() + seq!['\n'] }
}
/// C19: the posting line - indent, mark, account; amount part; assertion part; end of line - and one indented line per metadata
pub open spec fn posting_line(t: Seq<char>, p: Posting, ctx: DisplayContext) -> Seq<char> {
    after_balance(after_amount(after_head(t, p), p, ctx), p, ctx) + seq!['\n']
}
pub open spec fn posting_lines(t: Seq<char>, p: Posting, ctx: DisplayContext) -> Seq<char> {
    after_meta(posting_line(t, p, ctx), p.metadata@, p.metadata@.len() as int)
}
/// sizes fit the machine: widths and texts below 2^30.  (That the aligned offset of the assertion - bytes - does not exceed the display width of its
/// text, which the subtraction `width_cjk(balance_str) - alignment` needs, is PROVED: lemma_abs_le_width in alignment_width.rs.)
pub open spec fn posting_fits(p: Posting, ctx: DisplayContext) -> bool {
    &&& acct_width(p) < 0x4000_0000
    &&& (p.amount matches Some(a) ==> utf8_len(a.amount.v.text(ctx)) < 0x4000_0000)
    &&& (p.balance matches Some(b) ==> utf8_len(b.v.text(ctx)) < 0x4000_0000 && width_cjk_spec(b.v.text(ctx)) < 0x4000_0000)
}

