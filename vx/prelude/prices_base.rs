// C09/C10 - stand-ins shared by the prices and convert groups: chrono::TimeDelta (an integer number of seconds, ordered by length),
// date - date, price_db::PriceSource and its derived order, Decimal * &Decimal, the cache key model.
pub struct TimeDelta { pub secs: i64 }
impl Clone for TimeDelta { fn clone(&self) -> (r: Self) ensures r == *self { TimeDelta { secs: self.secs } } }
impl Copy for TimeDelta {}
impl TimeDelta {
    /// chrono::TimeDelta::zero (ASSUMED: the empty duration)
    #[verifier::external_body]
    pub fn zero() -> (r: TimeDelta) ensures r.secs == 0 { unimplemented!() }
}
/// `NaiveDate - NaiveDate` (ASSUMED chrono: the signed number of days between the dates, as a duration; chrono's date range keeps it inside i64)
pub spec const SECS_PER_DAY: int = 86400;
impl vstd::std_specs::ops::SubSpecImpl<NaiveDate> for NaiveDate {
    open spec fn obeys_sub_spec() -> bool { false }
    open spec fn sub_req(self, rhs: NaiveDate) -> bool { true }
    open spec fn sub_spec(self, rhs: NaiveDate) -> TimeDelta { arbitrary() }
}
impl core::ops::Sub<NaiveDate> for NaiveDate {
    type Output = TimeDelta;
    #[verifier::external_body]
    fn sub(self, rhs: NaiveDate) -> (r: TimeDelta) ensures r.secs == (self.day() - rhs.day()) * SECS_PER_DAY { unimplemented!() }
}
/// `std::cmp::max` on TimeDelta (ASSUMED: Ord for TimeDelta is the order of its length)
#[verifier::external_body]
pub fn timedelta_max(a: TimeDelta, b: TimeDelta) -> (r: TimeDelta)
    ensures r == (if a.secs >= b.secs { a } else { b }),
{ unimplemented!() }
#[derive(Clone, Copy, PartialEq, Eq)]
pub enum PriceSource { Ledger, PriceDB }
/// `Decimal * &Decimal` (rust_decimal forwards to the by-value impl)
impl vstd::std_specs::ops::MulSpecImpl<&Decimal> for Decimal {
    open spec fn obeys_mul_spec() -> bool { false }
    open spec fn mul_req(self, rhs: &Decimal) -> bool { true }
    open spec fn mul_spec(self, rhs: &Decimal) -> Decimal { arbitrary() }
}
impl<'a> core::ops::Mul<&'a Decimal> for Decimal {
    type Output = Decimal;
    #[verifier::external_body]
    fn mul(self, rhs: &'a Decimal) -> (r: Decimal) ensures r.val() == self.val() * rhs.val() { unimplemented!() }
}
impl core::hash::Hash for NaiveDate { #[verifier::external_body] fn hash<H: core::hash::Hasher>(&self, state: &mut H) { unimplemented!() } }
pub mod cache_key_axiom {
    use super::*;
    /// ASSUMED: the tuple (Commodity, NaiveDate) obeys the HashMap key model (std's tuple Hash/Eq over two well-behaved keys)
    #[verifier::external_body]
    pub broadcast proof fn axiom_cache_key_model() ensures #[trigger] vstd::std_specs::hash::obeys_key_model::<(Commodity, NaiveDate)>() {}
}

// R13 - what `#[derive(PartialOrd, Ord)]` on `PriceSource` expands to: variants compare in declaration order (pinned by the
// anchor `PriceSource variant order`): the price database outranks the ledger
pub open spec fn source_rank(s: PriceSource) -> int { match s { PriceSource::Ledger => 0, PriceSource::PriceDB => 1 } }
impl PartialOrdSpecImpl for PriceSource {
    open spec fn obeys_partial_cmp_spec() -> bool { true }
    open spec fn partial_cmp_spec(&self, o: &PriceSource) -> Option<core::cmp::Ordering> {
        if source_rank(*self) < source_rank(*o) { Some(core::cmp::Ordering::Less) }
        else if source_rank(*self) > source_rank(*o) { Some(core::cmp::Ordering::Greater) }
        else { Some(core::cmp::Ordering::Equal) }
    }
}
impl PartialOrd for PriceSource { #[verifier::external_body] fn partial_cmp(&self, o: &PriceSource) -> Option<core::cmp::Ordering> { unimplemented!() } }
