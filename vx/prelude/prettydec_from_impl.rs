// R13: what `#[from]` on Error::InvalidDecimal expands to (thiserror derive is not available to Verus)
impl vstd::std_specs::convert::FromSpecImpl<rust_decimal::Error> for Error {
    open spec fn obeys_from_spec() -> bool { true }
    open spec fn from_spec(e: rust_decimal::Error) -> Error { Error::InvalidDecimal(e) }
}
impl From<rust_decimal::Error> for Error {
    fn from(e: rust_decimal::Error) -> (r: Error)
    { Error::InvalidDecimal(e) }
}
