// L0 — ASSUMED model of the process environment for golden/src/lib.rs (C20).
// The real code threads no state, so effects are expressed through uninterpreted "world" functions:
//   fs_read(path)   what std::fs::read_to_string returns for that path (one read per Golden)
//   env_var(name)   what std::env::var returns
// and std::fs::write carries the property as a PRECONDITION: it may only be called when UPDATE_GOLDEN is set
// to a non-empty value, with exactly the golden path and `got` as contents.
// R21 redirects the paths std::{fs,env,io,path}:: of the extracted text to this module.
pub mod env_model {
    use super::*;
    // the text a string pattern denotes (only &str patterns are used)
    pub uninterp spec fn pat_view<P>(p: P) -> Seq<char>;
    #[verifier::external_body]
    pub broadcast proof fn axiom_pat_view_str(p: &str) ensures #[trigger] pat_view(p) == p@ {}
    pub mod path {
        use super::super::*;
        #[verifier::external_body]
        pub struct Path { _p: usize }
        #[verifier::external_body]
        pub struct PathBuf { _p: usize }
        #[verifier::external_body]
        pub struct Display { _p: usize }
        impl PathBuf {
            pub uninterp spec fn as_path_spec(&self) -> &Path;
            #[verifier::external_body]
            pub fn display(&self) -> Display { unimplemented!() }
            // &PathBuf -> &Path (Deref)
            #[verifier::external_body]
            pub fn as_path(&self) -> (r: &Path) ensures r == self.as_path_spec() { unimplemented!() }
        }
    }
    pub mod io {
        use super::super::*;
        #[derive(PartialEq, Eq, Clone, Copy)]
        pub enum ErrorKind { NotFound, PermissionDenied, Other }
        impl vstd::std_specs::cmp::PartialEqSpecImpl for ErrorKind {
            open spec fn obeys_eq_spec() -> bool { true }
            open spec fn eq_spec(&self, o: &ErrorKind) -> bool { *self == *o }
        }
        #[verifier::external_body]
        pub struct Error { _p: usize }
        impl core::fmt::Debug for Error {
            #[verifier::external_body]
            fn fmt(&self, f: &mut core::fmt::Formatter<'_>) -> core::fmt::Result { unimplemented!() }
        }
        pub type Result<T> = core::result::Result<T, Error>;
        impl Error {
            pub uninterp spec fn kind_spec(&self) -> ErrorKind;
            #[verifier::external_body]
            pub fn kind(&self) -> (r: ErrorKind) ensures r == self.kind_spec() { unimplemented!() }
            #[verifier::external_body]
            pub fn new(kind: ErrorKind, msg: String) -> (r: Error) ensures r.kind_spec() == kind { unimplemented!() }
        }
    }
    pub mod env {
        use super::super::*;
        pub enum VarError { NotPresent, NotUnicode }
        #[verifier::external_body]
        pub struct OsString { _p: usize }
        pub uninterp spec fn env_var(name: Seq<char>) -> core::result::Result<String, VarError>;
        // var_os is Some exactly when the variable is present in the environment (whatever its value, the empty string included)
        #[verifier::external_body]
        pub fn var_os(name: &str) -> (r: Option<OsString>)
            ensures r is Some <==> !(env_var(name@) matches Err(VarError::NotPresent)),
        { unimplemented!() }
        #[verifier::external_body]
        pub fn var(name: &str) -> (r: core::result::Result<String, VarError>) ensures r == env_var(name@) { unimplemented!() }
    }
    pub mod fs {
        use super::super::*;
        use super::io;
        use super::path::Path;
        pub uninterp spec fn fs_read(p: &Path) -> io::Result<String>;
        #[verifier::external_body]
        pub fn read_to_string(p: &Path) -> (r: io::Result<String>) ensures r == fs_read(p) { unimplemented!() }
        // the golden helper may write only under UPDATE_GOLDEN, only the golden file, only `got`
        pub uninterp spec fn write_allowed(p: &Path, contents: Seq<char>) -> bool;
        // "a write of exactly `contents` to `p` has happened": only the ensures of `write` can establish it
        pub uninterp spec fn wrote(p: &Path, contents: Seq<char>) -> bool;
        #[verifier::external_body]
        pub fn write(p: &super::path::PathBuf, contents: &str) -> (r: io::Result<()>)
            requires write_allowed(p.as_path_spec(), contents@),
            ensures r is Ok,   // A-IO: the write itself succeeds (an I/O failure panics in `expect`, outside the property)
                    wrote(p.as_path_spec(), contents@),
        { unimplemented!() }
    }
}
use env_model::path::{Path, PathBuf};

pub open spec fn update_set() -> bool {
    env_model::env::env_var("UPDATE_GOLDEN"@) matches Ok(s) && s@.len() > 0
}
// str::replace has no vstd spec: result is a function of (text, from, to)
pub uninterp spec fn replace_spec(s: Seq<char>, from: Seq<char>, to: Seq<char>) -> Seq<char>;
pub assume_specification<P: core::str::pattern::Pattern>[str::replace::<P>](s: &str, from: P, to: &str) -> (r: String)
    ensures r@ == replace_spec(s@, env_model::pat_view(from), to@);
// CRLF normalised to LF
pub open spec fn crlf_to_lf(s: Seq<char>) -> Seq<char> { replace_spec(s, "\r\n"@, "\n"@) }

pub assume_specification<T: Default, E>[core::result::Result::<T, E>::unwrap_or_default](r: core::result::Result<T, E>) -> (v: T)
    ensures r matches Ok(x) ==> v == x, r is Err ==> call_ensures(T::default, (), v);
pub assume_specification<T, E, F, O: FnOnce(E) -> core::result::Result<T, F>>[core::result::Result::<T, E>::or_else::<F, O>](r: core::result::Result<T, E>, op: O) -> (out: core::result::Result<T, F>)
    requires r matches Err(e) ==> op.requires((e,)),
    ensures r matches Ok(v) ==> out == Ok::<T, F>(v), r matches Err(e) ==> op.ensures((e,), out);

#[verifier::external_body]
pub fn opaque_string() -> (r: String) { unimplemented!() }
// R15: assert_str_eq!(a, b, ..) panics iff its operands differ
pub fn require_eq(a: &str, b: &str) requires a@ == b@ {}
// for the "must fail" variant: reaching the comparison with different operands is the expected panic
pub fn require_ne(a: &str, b: &str) requires a@ != b@ {}
