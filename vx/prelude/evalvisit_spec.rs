// ---- C08: the value of an expression tree = ordinary arithmetic with commodity typing over its literals ----
pub open spec fn ev_bin(op: expr::BinaryOp, x: EV, y: EV) -> Option<EV> {
    match op {
        expr::BinaryOp::Add => ev_add(x, y),
        expr::BinaryOp::Sub => ev_sub(x, y),
        expr::BinaryOp::Mul => ev_mul(x, y),
        expr::BinaryOp::Div => ev_div(x, y),
    }
}
// the literal evaluator handed to eval_visit computes `lit` (A-EVAL: treated as a stateless function, rule R22)
pub open spec fn evaluator_computes<F: Fn(&expr::Amount) -> Result<Evaluated, EvalError>>(f: &F, lit: spec_fn(expr::Amount) -> Option<EV>) -> bool {
    forall|a: &expr::Amount, y: Result<Evaluated, EvalError>| #[trigger] f.ensures((a,), y) ==> (y matches Ok(v) ==> lit(*a) == Some(v.sem()))
}
