// C10 - the rate of one unit of `from` in `to` as of `date`: the entry of the table the records give for (to, date) - the table
// PriceRepository::convert_single (extracted, proved below in this file) looks up; the rates are a function of the records (`inner`) alone.  The memo never changes an answer: that is
// convert_single's `cache_consistent` invariant, proved, no longer assumed.
impl NaivePriceRepository {
    pub open spec fn rate(&self, from: Commodity, to: Commodity, date: NaiveDate) -> Option<real> {
        let t = self.table(to, date);
        if t.contains_key(from) { Some(t[from].1.val()) } else { None }
    }
}

/// value of one holding in the target commodity (None: no rate)
pub open spec fn conv_value(repo: &NaivePriceRepository, v: SingleAmount, target: Commodity, date: NaiveDate) -> Option<real> {
    if v.commodity == target { Some(v.v()) } else {
        match repo.rate(v.commodity, target, date) { Some(r) => Some(v.v() * r), None => None }
    }
}
pub open spec fn conv_sum(repo: &NaivePriceRepository, items: Seq<SingleAmount>, n: int, target: Commodity, date: NaiveDate) -> real
    decreases n
{
    if n <= 0 { 0real } else { conv_sum(repo, items, n - 1, target, date) + conv_value(repo, items[n - 1], target, date).unwrap() }
}
pub open spec fn all_convertible(repo: &NaivePriceRepository, items: Seq<SingleAmount>, n: int, target: Commodity, date: NaiveDate) -> bool {
    forall|j: int| 0 <= j < n ==> conv_value(repo, #[trigger] items[j], target, date) is Some
}

impl Amount {
    /// what Amount::iter yields (a function of the amount: C13, Amount::sorted_values)
    pub uninterp spec fn iter_listing(&self) -> Seq<SingleAmount>;
}
pub open spec fn single_pairs(s: Seq<SingleAmount>) -> Seq<(Commodity, Decimal)> { s.map_values(|x: SingleAmount| (x.commodity, x.value)) }
/// ASSUMED (R25d): Amount::iter lists every commodity of the amount exactly once
#[verifier::external_body]
pub fn amount_items(a: &Amount) -> (r: Vec<SingleAmount>)
    ensures r@ == a.iter_listing(), lists_entries(single_pairs(r@), a.values@),
{ unimplemented!() }
