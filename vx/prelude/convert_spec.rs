// C10 — stand-in for price_db::PriceRepository: the rate table is an uninterpreted function of the repository's RECORDS
// (the cache is a memo and never changes an answer).  convert_single's contract is ASSUMED (L1: entry().or_insert_with(closure)
// over the table computed by compute_price_table); what it says is its documented behaviour: an amount already in the
// target commodity is returned as it is, otherwise value x rate, or RateNotFound when the table has no rate.
#[verifier::external_body]
pub struct PriceRepository { _p: usize }
impl PriceRepository {
    /// rate of one unit of `from` in `to` as of `date`, decided by the records alone
    pub uninterp spec fn rate(&self, from: Commodity, to: Commodity, date: NaiveDate) -> Option<real>;
    /// the records (what `rate` depends on)
    pub uninterp spec fn records(&self) -> int;

    #[verifier::external_body]
    pub fn convert_single(&mut self, value: SingleAmount, commodity_with: Commodity, date: NaiveDate) -> (r: Result<SingleAmount, ConversionError>)
        ensures
            final(self).records() == old(self).records(),
            forall|a: Commodity, b: Commodity, d: NaiveDate| final(self).rate(a, b, d) == old(self).rate(a, b, d),
            value.commodity == commodity_with ==> r == Ok::<SingleAmount, ConversionError>(value),
            (value.commodity != commodity_with && old(self).rate(value.commodity, commodity_with, date) is None) ==> r is Err,
            (value.commodity != commodity_with && old(self).rate(value.commodity, commodity_with, date) is Some) ==>
                (r matches Ok(x) && x.commodity == commodity_with && x.v() == value.v() * old(self).rate(value.commodity, commodity_with, date)->0),
    { unimplemented!() }
}

/// value of one holding in the target commodity (None: no rate)
pub open spec fn conv_value(repo: &PriceRepository, v: SingleAmount, target: Commodity, date: NaiveDate) -> Option<real> {
    if v.commodity == target { Some(v.v()) } else {
        match repo.rate(v.commodity, target, date) { Some(r) => Some(v.v() * r), None => None }
    }
}
pub open spec fn conv_sum(repo: &PriceRepository, items: Seq<SingleAmount>, n: int, target: Commodity, date: NaiveDate) -> real
    decreases n
{
    if n <= 0 { 0real } else { conv_sum(repo, items, n - 1, target, date) + conv_value(repo, items[n - 1], target, date).unwrap() }
}
pub open spec fn all_convertible(repo: &PriceRepository, items: Seq<SingleAmount>, n: int, target: Commodity, date: NaiveDate) -> bool {
    forall|j: int| 0 <= j < n ==> conv_value(repo, #[trigger] items[j], target, date) is Some
}

impl Amount {
    /// what Amount::iter yields (a function of the amount: C13, Amount::sorted_values)
    pub uninterp spec fn iter_listing(&self) -> Seq<SingleAmount>;
}
pub open spec fn single_pairs(s: Seq<SingleAmount>) -> Seq<(Commodity, Decimal)> { s.map_values(|x: SingleAmount| (x.commodity, x.value)) }
/// ASSUMED (R25d): Amount::iter lists every commodity of the amount exactly once
#[verifier::external_body]
pub fn amount_items(a: &Amount) -> (r: Vec<SingleAmount>)
    ensures r@ == a.iter_listing(), lists_entries(single_pairs(r@), a.values@),
{ unimplemented!() }
