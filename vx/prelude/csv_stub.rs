// Stand-ins for what FieldMap::amount touches (cli/src/import/csv.rs): the CSV record, templates, errors and the two
// helpers whose bodies are outside reach (regex templates / the number parser).  ASSUMED (L1): `resolve` returns the
// text of the configured column/template as a function of (field map, key, field, record); `str_to_comma_decimal`
// returns None for the empty string and otherwise the number written (it is PrettyDecimal::from_str, C07) or an error.
pub mod csv { #[verifier::external_body] pub struct StringRecord { _p: usize } }
pub mod template {
    #[verifier::external_body] pub struct Template { _p: usize }
    #[verifier::external_body] pub struct RenderError { _p: usize }
}
pub mod config {
    use super::*;
    // (FieldKey, AccountType are extracted below, at top level)
    pub enum RowOrder { OldToNew, NewToOld }
}
#[verifier::external_body]
pub struct ImportError { _p: usize }
impl ImportError {
    #[verifier::external_body]
    #[allow(non_snake_case)]
    pub fn Other(s: String) -> ImportError { unimplemented!() }
}
impl vstd::std_specs::convert::FromSpecImpl<template::RenderError> for ImportError {
    open spec fn obeys_from_spec() -> bool { false }
    open spec fn from_spec(e: template::RenderError) -> ImportError { arbitrary() }
}
impl From<template::RenderError> for ImportError {
    #[verifier::external_body]
    fn from(e: template::RenderError) -> (r: ImportError) { unimplemented!() }
}
pub uninterp spec fn comma_decimal(s: Seq<char>) -> Result<Option<Decimal>, ImportError>;
#[verifier::external_body]
pub fn str_to_comma_decimal(input: &str) -> (r: Result<Option<Decimal>, ImportError>)
    ensures r == comma_decimal(input@), input@.len() == 0 ==> r matches Ok(None),
{ unimplemented!() }
