// L0 — ASSUMED model of the `rust_decimal` crate (dependency; not verified here).
// A Decimal is a sign bit, a 96-bit magnitude and a scale 0..=28.  val() is its mathematical
// value, mant() the signed mantissa, dscale() the number of decimal places (val = mant/10^dscale).
// A-DEC: `+ - *` are modelled as exact and total (their overflow panics are outside C06's
// "representable range" clause); `/` REQUIRES a non-zero divisor (rust_decimal panics otherwise).
pub mod rust_decimal {
    use super::*;
    use vstd::std_specs::ops::*;
    use vstd::std_specs::cmp::*;

    #[verifier::external_body]
    pub struct Decimal { _p: [u8; 16] }

    impl Clone for Decimal {
        #[verifier::external_body]
        fn clone(&self) -> (r: Self) ensures r == *self { unimplemented!() }
    }
    impl Copy for Decimal {}

    pub enum Error {
        ErrorString(String),
        ExceedsMaximumPossibleValue,
        LessThanMinimumPossibleValue,
        Underflow,
        ScaleExceedsMaximumPrecision(u32),
        ConversionTo(String),
    }

    pub enum RoundingStrategy {
        MidpointNearestEven,
        MidpointAwayFromZero,
        MidpointTowardZero,
        ToZero,
        AwayFromZero,
        ToNegativeInfinity,
        ToPositiveInfinity,
    }

    pub open spec fn max_repr() -> int { 0xFFFF_FFFF_FFFF_FFFF_FFFF_FFFF }

    // rounding to dp places: only what the properties need is assumed about it
    pub uninterp spec fn round_spec(x: real, dp: u32) -> real;

    #[verifier::external_body]
    pub broadcast proof fn axiom_round(x: real, dp: u32)
        ensures
            #![trigger round_spec(x, dp)]
            x == 0real ==> round_spec(x, dp) == 0real,
            x > 0real ==> round_spec(x, dp) >= 0real,
            x < 0real ==> round_spec(x, dp) <= 0real,
    {}

    // sign bit agrees with the value (a zero may carry either sign)
    #[verifier::external_body]
    pub broadcast proof fn axiom_sign(d: Decimal)
        ensures
            #![trigger d.negbit()]
            d.negbit() ==> d.val() <= 0real,
            !d.negbit() ==> d.val() >= 0real,
    {}

    impl Decimal {
        pub uninterp spec fn val(self) -> real;
        pub uninterp spec fn mant(self) -> int;
        pub uninterp spec fn dscale(self) -> nat;
        pub uninterp spec fn negbit(self) -> bool;

        pub const MAX_SCALE: u32 = 28;

        #[verifier::external_body]
        pub exec const ZERO: Decimal
            ensures Self::ZERO.val() == 0real, !Self::ZERO.negbit(),
        { Decimal { _p: [0u8; 16] } }

        #[verifier::external_body]
        pub exec const ONE: Decimal
            ensures Self::ONE.val() == 1real, !Self::ONE.negbit(),
        { Decimal { _p: [0u8; 16] } }

        // assumed from rust_decimal 1.37 decimal.rs: Err iff scale > 28 or |num| > 2^96-1
        #[verifier::external_body]
        pub fn try_from_i128_with_scale(num: i128, scale: u32) -> (r: Result<Decimal, Error>)
            ensures
                r is Ok <==> (scale <= 28 && -max_repr() <= num <= max_repr()),
                r matches Ok(d) ==> d.mant() == num && d.dscale() == scale && d.negbit() == (num < 0),
        { unimplemented!() }

        #[verifier::external_body]
        pub fn is_zero(&self) -> (r: bool) ensures r == (self.val() == 0real) { unimplemented!() }

        #[verifier::external_body]
        pub fn is_sign_positive(&self) -> (r: bool) ensures r == !self.negbit() { unimplemented!() }

        #[verifier::external_body]
        pub fn is_sign_negative(&self) -> (r: bool) ensures r == self.negbit() { unimplemented!() }

        #[verifier::external_body]
        pub fn set_sign_positive(&mut self, positive: bool)
            ensures
                final(self).negbit() == !positive,
                final(self).val() == (if positive == !old(self).negbit() { old(self).val() } else { -old(self).val() }),
                final(self).dscale() == old(self).dscale(),
        { unimplemented!() }

        #[verifier::external_body]
        pub fn abs(&self) -> (r: Decimal)
            ensures !r.negbit(), r.val() == (if self.val() < 0real { -self.val() } else { self.val() }), r.dscale() == self.dscale(),
        { unimplemented!() }

        #[verifier::external_body]
        pub fn scale(&self) -> (r: u32) ensures r == self.dscale(), r <= 28 { unimplemented!() }

        // rescale never changes the value when the scale is raised (lowering rounds)
        #[verifier::external_body]
        pub fn rescale(&mut self, scale: u32)
            ensures
                scale >= old(self).dscale() && scale <= 28 ==> final(self).val() == old(self).val() && final(self).dscale() == scale,
                final(self).negbit() == old(self).negbit(),
        { unimplemented!() }

        #[verifier::external_body]
        pub fn checked_add(self, other: Decimal) -> (r: Option<Decimal>)
            ensures r matches Some(v) ==> v.val() == self.val() + other.val(),
        { unimplemented!() }

        #[verifier::external_body]
        pub fn checked_sub(self, other: Decimal) -> (r: Option<Decimal>)
            ensures r matches Some(v) ==> v.val() == self.val() - other.val(),
        { unimplemented!() }

        #[verifier::external_body]
        pub fn checked_mul(self, other: Decimal) -> (r: Option<Decimal>)
            ensures r matches Some(v) ==> v.val() == self.val() * other.val(),
        { unimplemented!() }

        // checked_div returns None on a zero divisor (no panic)
        #[verifier::external_body]
        pub fn checked_div(self, other: Decimal) -> (r: Option<Decimal>)
            ensures
                other.val() == 0real ==> r is None,
                r matches Some(v) ==> other.val() != 0real && v.val() * other.val() == self.val() && v.val() == self.val() / other.val(),
        { unimplemented!() }

        #[verifier::external_body]
        pub fn round_dp_with_strategy(&self, dp: u32, strategy: RoundingStrategy) -> (r: Decimal)
            ensures r.val() == round_spec(self.val(), dp),
        { unimplemented!() }
    }

    impl Default for Decimal {
        #[verifier::external_body]
        fn default() -> (r: Decimal) ensures r.val() == 0real, !r.negbit() { unimplemented!() }
    }

    impl PartialEqSpecImpl for Decimal {
        open spec fn obeys_eq_spec() -> bool { true }
        open spec fn eq_spec(&self, o: &Decimal) -> bool { self.val() == o.val() }
    }
    impl PartialEq for Decimal {
        #[verifier::external_body]
        fn eq(&self, o: &Decimal) -> bool { unimplemented!() }
    }
    impl Eq for Decimal {}

    impl AddSpecImpl<Decimal> for Decimal {
        open spec fn obeys_add_spec() -> bool { false }
        open spec fn add_req(self, rhs: Decimal) -> bool { true }
        open spec fn add_spec(self, rhs: Decimal) -> Decimal { arbitrary() }
    }
    impl core::ops::Add for Decimal {
        type Output = Decimal;
        #[verifier::external_body]
        fn add(self, rhs: Decimal) -> (r: Decimal) ensures r.val() == self.val() + rhs.val() { unimplemented!() }
    }
    impl SubSpecImpl<Decimal> for Decimal {
        open spec fn obeys_sub_spec() -> bool { false }
        open spec fn sub_req(self, rhs: Decimal) -> bool { true }
        open spec fn sub_spec(self, rhs: Decimal) -> Decimal { arbitrary() }
    }
    impl core::ops::Sub for Decimal {
        type Output = Decimal;
        #[verifier::external_body]
        fn sub(self, rhs: Decimal) -> (r: Decimal) ensures r.val() == self.val() - rhs.val() { unimplemented!() }
    }
    impl MulSpecImpl<Decimal> for Decimal {
        open spec fn obeys_mul_spec() -> bool { false }
        open spec fn mul_req(self, rhs: Decimal) -> bool { true }
        open spec fn mul_spec(self, rhs: Decimal) -> Decimal { arbitrary() }
    }
    impl core::ops::Mul for Decimal {
        type Output = Decimal;
        #[verifier::external_body]
        fn mul(self, rhs: Decimal) -> (r: Decimal) ensures r.val() == self.val() * rhs.val() { unimplemented!() }
    }
    impl DivSpecImpl<Decimal> for Decimal {
        open spec fn obeys_div_spec() -> bool { false }
        // rust_decimal panics with "Division by zero"
        open spec fn div_req(self, rhs: Decimal) -> bool { rhs.val() != 0real }
        open spec fn div_spec(self, rhs: Decimal) -> Decimal { arbitrary() }
    }
    impl core::ops::Div for Decimal {
        type Output = Decimal;
        #[verifier::external_body]
        fn div(self, rhs: Decimal) -> (r: Decimal) ensures r.val() * rhs.val() == self.val(), r.val() == self.val() / rhs.val() { unimplemented!() }
    }
    impl NegSpecImpl for Decimal {
        open spec fn obeys_neg_spec() -> bool { false }
        open spec fn neg_req(self) -> bool { true }
        open spec fn neg_spec(self) -> Decimal { arbitrary() }
    }
    impl core::ops::Neg for Decimal {
        type Output = Decimal;
        #[verifier::external_body]
        fn neg(self) -> (r: Decimal) ensures r.val() == -self.val(), r.negbit() == !self.negbit(), r.dscale() == self.dscale() { unimplemented!() }
    }
    impl AddAssignSpecImpl<Decimal> for Decimal {
        open spec fn obeys_add_assign_spec() -> bool { false }
        open spec fn add_assign_req(&self, rhs: Decimal) -> bool { true }
        open spec fn add_assign_spec(&self, rhs: Decimal) -> &Decimal { arbitrary() }
    }
    impl core::ops::AddAssign for Decimal {
        #[verifier::external_body]
        fn add_assign(&mut self, rhs: Decimal) ensures final(self).val() == old(self).val() + rhs.val() { unimplemented!() }
    }
    impl SubAssignSpecImpl<Decimal> for Decimal {
        open spec fn obeys_sub_assign_spec() -> bool { false }
        open spec fn sub_assign_req(&self, rhs: Decimal) -> bool { true }
        open spec fn sub_assign_spec(&self, rhs: Decimal) -> &Decimal { arbitrary() }
    }
    impl core::ops::SubAssign for Decimal {
        #[verifier::external_body]
        fn sub_assign(&mut self, rhs: Decimal) ensures final(self).val() == old(self).val() - rhs.val() { unimplemented!() }
    }
    impl MulAssignSpecImpl<Decimal> for Decimal {
        open spec fn obeys_mul_assign_spec() -> bool { false }
        open spec fn mul_assign_req(&self, rhs: Decimal) -> bool { true }
        open spec fn mul_assign_spec(&self, rhs: Decimal) -> &Decimal { arbitrary() }
    }
    impl core::ops::MulAssign for Decimal {
        #[verifier::external_body]
        fn mul_assign(&mut self, rhs: Decimal) ensures final(self).val() == old(self).val() * rhs.val() { unimplemented!() }
    }
}
use rust_decimal::Decimal;
