// ASSUMED models of std (R24 / R25 / R25b): what HashMap iteration guarantees, nothing about its order.
/// every entry of m exactly once, in SOME order
pub open spec fn lists_entries<K, V>(s: Seq<(K, V)>, m: Map<K, V>) -> bool {
    &&& forall|i: int| 0 <= i < s.len() ==> m.contains_key((#[trigger] s[i]).0) && m[s[i].0] == s[i].1
    &&& forall|k: K| m.contains_key(k) ==> exists|i: int| 0 <= i < s.len() && (#[trigger] s[i]).0 == k
    &&& forall|i: int, j: int| 0 <= i < j < s.len() ==> (#[trigger] s[i]).0 != (#[trigger] s[j]).0
}
pub open spec fn refs_view<K, V>(s: Seq<(&K, &V)>) -> Seq<(K, V)> { s.map_values(|p: (&K, &V)| (*p.0, *p.1)) }

/// the keys of `M.iter_mut()` / `M.iter()`: every key exactly once
#[verifier::external_body]
pub fn hashmap_keys<K: Copy, V>(m: &HashMap<K, V>) -> (r: Vec<K>)
    ensures r@.no_duplicates(), forall|k: K| r@.contains(k) <==> m@.contains_key(k),
{ unimplemented!() }
/// `M.iter().collect::<Vec<_>>()`
#[verifier::external_body]
pub fn hashmap_entries<'a, K, V>(m: &'a HashMap<K, V>) -> (r: Vec<(&'a K, &'a V)>)
    ensures lists_entries(refs_view(r@), m@),
{ unimplemented!() }
/// `M.into_iter()` (`for (k, v) in M`, `M.into_iter().collect::<Vec<_>>()`)
#[verifier::external_body]
pub fn hashmap_into_entries<K, V>(m: HashMap<K, V>) -> (r: Vec<(K, V)>)
    ensures lists_entries(r@, m@),
{ unimplemented!() }
/// `M.iter().zip(M.iter().skip(1)).next()`: the first two entries of one iteration order (two `iter()` calls over an
/// unmodified map walk it in the same order), `None` when there are fewer than two
#[verifier::external_body]
pub fn hashmap_first_two<'a, K, V>(m: &'a HashMap<K, V>) -> (r: Option<((&'a K, &'a V), (&'a K, &'a V))>)
    ensures
        m@.len() < 2 ==> r is None,
        m@.len() >= 2 ==> r is Some,
        r matches Some(p) ==> *p.0.0 != *p.1.0 && m@.contains_key(*p.0.0) && m@.contains_key(*p.1.0) && m@[*p.0.0] == *p.0.1 && m@[*p.1.0] == *p.1.1,
{ unimplemented!() }
