// ---- C04 specification of the date window: [start, end), open ends = infinity ----
pub open spec fn in_range(start: Option<NaiveDate>, end: Option<NaiveDate>, d: NaiveDate) -> bool {
    &&& (start matches Some(s) ==> s.day() <= d.day())
    &&& (end matches Some(e) ==> d.day() < e.day())
}

// derive(PartialEq) on ConversionStrategy (structural equality; R13-style expansion, assumed to be what the derive generates)
impl vstd::std_specs::cmp::PartialEqSpecImpl for ConversionStrategy {
    open spec fn obeys_eq_spec() -> bool { true }
    open spec fn eq_spec(&self, o: &Self) -> bool {
        match (*self, *o) {
            (ConversionStrategy::Historical, ConversionStrategy::Historical) => true,
            (ConversionStrategy::UpToDate { now: a }, ConversionStrategy::UpToDate { now: b }) => a.day() == b.day(),
            _ => false,
        }
    }
}

// Reports over adjacent ranges add up to the report over their union: the windows [a,b) and [b,c)
// partition [a,c) for a <= b <= c (each end may be open), so every transaction date is counted exactly once.
pub proof fn lemma_adjacent_ranges_partition(a: Option<NaiveDate>, b: NaiveDate, c: Option<NaiveDate>, d: NaiveDate)
    requires
        a matches Some(x) ==> x.day() <= b.day(),
        c matches Some(z) ==> b.day() <= z.day(),
    ensures
        in_range(a, c, d) <==> (in_range(a, Some(b), d) || in_range(Some(b), c, d)),   // @daterange.adjacent_union
        !(in_range(a, Some(b), d) && in_range(Some(b), c, d)),                         // @daterange.adjacent_disjoint
{
}

// an empty or inverted window contains nothing
pub proof fn lemma_empty_range(s: NaiveDate, e: NaiveDate, d: NaiveDate)
    requires e.day() <= s.day(),
    ensures !in_range(Some(s), Some(e), d),   // @daterange.empty_range
{
}
