use rust_decimal::Decimal;
