// C09 — stand-ins for chrono::TimeDelta (an integer number of seconds, totally ordered) and price_db::PriceSource.
pub struct TimeDelta { pub secs: i64 }
impl Clone for TimeDelta { fn clone(&self) -> (r: Self) ensures r == *self { TimeDelta { secs: self.secs } } }
impl Copy for TimeDelta {}
/// `std::cmp::max` on TimeDelta (ASSUMED: Ord for TimeDelta is the order of its length)
#[verifier::external_body]
pub fn timedelta_max(a: TimeDelta, b: TimeDelta) -> (r: TimeDelta)
    ensures r == (if a.secs >= b.secs { a } else { b }),
{ unimplemented!() }
#[derive(Clone, Copy, PartialEq, Eq)]
pub enum PriceSource { Ledger, PriceDB }
pub struct SingleAmountStub { pub value: Decimal, pub commodity: Commodity }
