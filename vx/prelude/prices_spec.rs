// C09 - specs over the extracted price_db types (Distance, WithDistance, Entry).
pub struct SingleAmountStub { pub value: Decimal, pub commodity: Commodity }
impl SingleAmountStub {
    /// eval::SingleAmount::from_value (its contract is proved in the amount groups): the two fields as given
    #[verifier::external_body]
    pub fn from_value(value: Decimal, commodity: Commodity) -> (r: Self) ensures r.value == value, r.commodity == commodity { unimplemented!() }
}
// R13 - what `#[derive(PartialEq, Eq, PartialOrd, Ord)]` on `Distance` expands to: comparison field by field in declaration
// order (the order of the fields is pinned by the anchor `Distance field order`).  ASSUMED: TimeDelta is ordered by its length.
pub open spec fn dist_cmp(x: Distance, y: Distance) -> core::cmp::Ordering {
    if x.num_ledger_conversions < y.num_ledger_conversions { core::cmp::Ordering::Less }
    else if x.num_ledger_conversions > y.num_ledger_conversions { core::cmp::Ordering::Greater }
    else if x.num_all_conversions < y.num_all_conversions { core::cmp::Ordering::Less }
    else if x.num_all_conversions > y.num_all_conversions { core::cmp::Ordering::Greater }
    else if x.staleness.secs < y.staleness.secs { core::cmp::Ordering::Less }
    else if x.staleness.secs > y.staleness.secs { core::cmp::Ordering::Greater }
    else { core::cmp::Ordering::Equal }
}
impl PartialEqSpecImpl for Distance {
    open spec fn obeys_eq_spec() -> bool { true }
    open spec fn eq_spec(&self, o: &Distance) -> bool { *self == *o }
}
impl PartialEq for Distance { #[verifier::external_body] fn eq(&self, o: &Distance) -> bool { unimplemented!() } }
impl Eq for Distance {}
impl PartialOrdSpecImpl for Distance {
    open spec fn obeys_partial_cmp_spec() -> bool { true }
    open spec fn partial_cmp_spec(&self, o: &Distance) -> Option<core::cmp::Ordering> { Some(dist_cmp(*self, *o)) }
}
impl PartialOrd for Distance { #[verifier::external_body] fn partial_cmp(&self, o: &Distance) -> Option<core::cmp::Ordering> { unimplemented!() } }
// R8 - spec side of the hand-written comparisons of `WithDistance<T>` with a `Distance` (their bodies are extracted and proved):
// a table entry compares as its distance does
impl<T> PartialEqSpecImpl<Distance> for WithDistance<T> {
    open spec fn obeys_eq_spec() -> bool { true }
    open spec fn eq_spec(&self, o: &Distance) -> bool { self.0 == *o }
}
impl<T: Eq> PartialOrdSpecImpl<Distance> for WithDistance<T> {
    open spec fn obeys_partial_cmp_spec() -> bool { true }
    open spec fn partial_cmp_spec(&self, o: &Distance) -> Option<core::cmp::Ordering> { Some(dist_cmp(self.0, *o)) }
}

/// the prices recorded for "one `of` in `with`" (None: none)
pub open spec fn slot(recs: Map<Commodity, HashMap<Commodity, Entry>>, with: Commodity, of: Commodity) -> Option<Entry> {
    if recs.contains_key(with) && recs[with]@.contains_key(of) { Some(recs[with]@[of]) } else { None }
}

