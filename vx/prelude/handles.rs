// L0 — stand-ins for report::commodity::Commodity and report::context::Account: Copy handles to
// interned strings whose equality and hash are pointer identity (intern.rs: InternedStr).  ASSUMED:
// they obey the HashMap key model (Eq is an equivalence that coincides with spec equality; Hash agrees with Eq).

#[verifier::external_body]
pub struct Commodity { _p: usize }
impl Clone for Commodity { #[verifier::external_body] fn clone(&self) -> (r: Self) ensures r == *self { unimplemented!() } }
impl Copy for Commodity {}
impl vstd::std_specs::cmp::PartialEqSpecImpl for Commodity {
    open spec fn obeys_eq_spec() -> bool { true }
    open spec fn eq_spec(&self, o: &Commodity) -> bool { *self == *o }
}
impl PartialEq for Commodity { #[verifier::external_body] fn eq(&self, o: &Commodity) -> bool { unimplemented!() } }
impl Eq for Commodity {}
impl core::hash::Hash for Commodity { #[verifier::external_body] fn hash<H: core::hash::Hasher>(&self, state: &mut H) { unimplemented!() } }

#[verifier::external_body]
pub struct Account { _p: usize }
impl Clone for Account { #[verifier::external_body] fn clone(&self) -> (r: Self) ensures r == *self { unimplemented!() } }
impl Copy for Account {}
impl vstd::std_specs::cmp::PartialEqSpecImpl for Account {
    open spec fn obeys_eq_spec() -> bool { true }
    open spec fn eq_spec(&self, o: &Account) -> bool { *self == *o }
}
impl PartialEq for Account { #[verifier::external_body] fn eq(&self, o: &Account) -> bool { unimplemented!() } }
impl Eq for Account {}
impl core::hash::Hash for Account { #[verifier::external_body] fn hash<H: core::hash::Hasher>(&self, state: &mut H) { unimplemented!() } }
pub mod key_axioms {
    use super::*;
    #[verifier::external_body]
    pub broadcast proof fn axiom_commodity_key_model() ensures #[trigger] vstd::std_specs::hash::obeys_key_model::<Commodity>() {}
    #[verifier::external_body]
    pub broadcast proof fn axiom_account_key_model() ensures #[trigger] vstd::std_specs::hash::obeys_key_model::<Account>() {}
}


// report::commodity::OwnedCommodity: a String copy of the name, only carried inside error values
#[verifier::external_body]
pub struct OwnedCommodity { _s: String }
impl From<Commodity> for OwnedCommodity {
    #[verifier::external_body]
    fn from(value: Commodity) -> (r: OwnedCommodity) { unimplemented!() }
}
impl vstd::std_specs::convert::FromSpecImpl<Commodity> for OwnedCommodity {
    open spec fn obeys_from_spec() -> bool { false }
    open spec fn from_spec(e: Commodity) -> OwnedCommodity { arbitrary() }
}
