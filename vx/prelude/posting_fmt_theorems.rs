// ---- C19 theorems over the line Display for Posting is proved to print ----
/// the padding in front of an amount is that many spaces, at least two
pub proof fn theorem_amount_padding_is_spaces(p: Posting, ctx: DisplayContext)
    requires p.amount is Some,
    ensures
        pad_right(Seq::<char>::empty(), amount_padding_spec(p, ctx)) =~= spaces(amount_padding_spec(p, ctx) as nat),
        amount_padding_spec(p, ctx) >= 2,   // at least two spaces separate the account from the amount
{
}
/// C19: whenever the account is short enough, indent (4) + account columns + padding + the offset of the end of the number = 52:
/// the numeric part of the amount ends at display column 52
pub proof fn theorem_amount_number_ends_at_column_52(p: Posting, ctx: DisplayContext)
    requires p.amount is Some, acct_width(p) >= 0, expr_abs(p.amount->Some_0.amount.v, ctx) >= 0,
    ensures
        acct_width(p) + expr_abs(p.amount->Some_0.amount.v, ctx) + 2 < 48 ==>
            4 + acct_width(p) + amount_padding_spec(p, ctx) + expr_abs(p.amount->Some_0.amount.v, ctx) == 52,
{
}
/// C19: a posting with only an assertion: ` =` is right-aligned in a width of at least 3 (two spaces before `=`), and for a short account the `=`
/// falls in column 52 + trailing + 2 - where it falls after an amount in that commodity (number ends at 52, `trailing` columns of commodity, ` =`)
pub proof fn theorem_assertion_only_aligned(p: Posting, ctx: DisplayContext)
    requires p.amount is None, p.balance is Some, posting_fits(p, ctx),
    ensures
        balance_padding_spec(p, ctx) >= 3,
        pad_right(seq![' ', '='], balance_padding_spec(p, ctx)).len() == balance_padding_spec(p, ctx),
        ({ let b = p.balance->Some_0.v; let trailing = width_cjk_spec(b.text(ctx)) - expr_abs(b, ctx);
           acct_width(p) + 3 <= 50 + trailing ==> 4 + acct_width(p) + balance_padding_spec(p, ctx) == 52 + trailing + 2 }),
{
    lemma_abs_le_width(p.balance->Some_0.v, ctx);
}
/// with an amount present the assertion follows it directly: ` = X` (no padding)
pub proof fn theorem_assertion_after_amount(p: Posting, ctx: DisplayContext)
    requires p.amount is Some, p.balance is Some,
    ensures pad_right(seq![' ', '='], balance_padding_spec(p, ctx)) =~= seq![' ', '='],
{
}

/// every posting block ends with a line end (so that the one line end FormatOptions::format adds after an entry makes exactly one blank line)
pub proof fn lemma_after_meta_ends_with_newline(t: Seq<char>, ms: Seq<Metadata>, n: int)
    requires t.len() > 0, t.last() == '\n', n >= 0,
    ensures after_meta(t, ms, n).len() > 0, after_meta(t, ms, n).last() == '\n',
    decreases n
{
    if n > 0 { lemma_after_meta_ends_with_newline(t, ms, n - 1); }
}
pub proof fn theorem_posting_block_ends_with_a_line_end(t: Seq<char>, p: Posting, ctx: DisplayContext)
    ensures posting_lines(t, p, ctx).len() > 0, posting_lines(t, p, ctx).last() == '\n',
{
    lemma_after_meta_ends_with_newline(posting_line(t, p, ctx), p.metadata@, p.metadata@.len() as int);
}
