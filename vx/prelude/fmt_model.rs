// ---- ASSUMED model of core::fmt (the sink side): a writer is something that receives text in order ----
// `write!(f, ..)` is rewritten by rule R50 into the sequence of pieces format_args! produces; each piece either appends its whole
// text or fails.  ASSUMED (std): `{}` calls the argument's Display::fmt, which appends `display_text()`; `x.to_string()` is that text.
pub mod fmt {
    use super::*;
    pub struct Error;
    pub type Result = core::result::Result<(), Error>;
    pub trait Write {
        spec fn text(&self) -> Seq<char>;
    }
    #[verifier::external_body]
    pub struct Formatter { _p: usize }
    impl Write for Formatter {
        uninterp spec fn text(&self) -> Seq<char>;
    }
}
/// what Display::fmt prints for a value (per type: proved on the extracted `impl Display` where one is under contract, uninterpreted otherwise)
pub trait DisplayText {
    spec fn display_text(&self) -> Seq<char>;
}
impl DisplayText for &str {
    open spec fn display_text(&self) -> Seq<char> { self@ }
}
impl DisplayText for String {
    open spec fn display_text(&self) -> Seq<char> { self@ }
}
#[verifier::external_body]
pub fn put_str<W: fmt::Write>(f: &mut W, s: &str) -> (r: core::result::Result<(), fmt::Error>)
    ensures r is Ok ==> final(f).text() == old(f).text() + s@,
{ unimplemented!() }
#[verifier::external_body]
pub fn put_display<W: fmt::Write, T: DisplayText>(f: &mut W, x: &T) -> (r: core::result::Result<(), fmt::Error>)
    ensures r is Ok ==> final(f).text() == old(f).text() + x.display_text(),
{ unimplemented!() }
/// `{:>width$}` on a &str: the text right-aligned in `width` columns (std pads with spaces up to `width` CHARACTERS; never truncates)
#[verifier::external_body]
pub fn put_padded_right<W: fmt::Write>(f: &mut W, s: &str, width: usize) -> (r: core::result::Result<(), fmt::Error>)
    ensures r is Ok ==> final(f).text() == old(f).text() + pad_right(s@, width as int),
{ unimplemented!() }
pub open spec fn spaces(n: nat) -> Seq<char> { Seq::new(n, |i: int| ' ') }
/// `{:>w$}` of s
pub open spec fn pad_right(s: Seq<char>, w: int) -> Seq<char> { spaces(if w > s.len() { (w - s.len()) as nat } else { 0 }) + s }
/// ToString::to_string (std blanket impl over Display)
#[verifier::external_body]
pub fn to_string_of<T: DisplayText>(x: &T) -> (r: String)
    ensures r@ == x.display_text(),
{ unimplemented!() }

// ---- UTF-8 length: the DEFINITION of the encoding (not an assumption); str::len counts these bytes ----
pub open spec fn char_utf8_len(c: char) -> nat {
    if (c as u32) < 0x80 { 1 } else if (c as u32) < 0x800 { 2 } else if (c as u32) < 0x10000 { 3 } else { 4 }
}
pub open spec fn utf8_len(s: Seq<char>) -> nat
    decreases s.len()
{
    if s.len() == 0 { 0 } else { utf8_len(s.drop_last()) + char_utf8_len(s.last()) }
}
pub proof fn lemma_utf8_len_add(a: Seq<char>, b: Seq<char>)
    ensures utf8_len(a + b) == utf8_len(a) + utf8_len(b)
    decreases b.len()
{
    if b.len() == 0 {
        assert(a + b =~= a);
    } else {
        lemma_utf8_len_add(a, b.drop_last());
        assert((a + b).drop_last() =~= a + b.drop_last());
        assert((a + b).last() == b.last());
    }
}
pub proof fn lemma_utf8_len_one(c: char)
    ensures utf8_len(seq![c]) == char_utf8_len(c)
{
    assert(seq![c].drop_last() =~= Seq::<char>::empty());
    assert(utf8_len(Seq::<char>::empty()) == 0);
}
// R52: `b.as_ref()` on a Box is written `box_ref(&b)` (std: `&**self`); this one is verified, not assumed
pub fn box_ref<T>(b: &Box<T>) -> (r: &T) ensures *r == **b { &**b }
// R24-str-model: `s.len()` on a str counts the bytes of its UTF-8 encoding (ASSUMED link between std and the definition above)
#[verifier::external_body]
pub fn str_byte_len(s: &str) -> (r: usize) ensures r == utf8_len(s@) { s.len() }
