// ---- stand-ins for what extract.rs mentions but never looks inside ----
pub mod config { #[verifier::external_body] pub struct CommodityConversionSpec { _p: usize } }
/// R31: `<M as Entity<'a>>::T` (a GAT polyfill through two helper traits): an opaque Copy view of one statement record
#[verifier::external_body]
pub struct EntityT { _p: usize }
impl Clone for EntityT { #[verifier::external_body] fn clone(&self) -> (r: Self) ensures r == *self { unimplemented!() } }
impl Copy for EntityT {}
