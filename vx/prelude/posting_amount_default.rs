// `impl Default for PostingAmount` is a trait impl without contract in the repo; its meaning (Zero) is
// re-stated here so that `unwrap_or_default()` / `Self::default()` callers can be verified.  The real impl is
// checked against this by unit PostingAmount::zero (which calls Self::default()).
