// ---- C08: the meaning of an evaluated value: a bare number or a per-commodity map ----
pub enum EV { Num(real), Com(Map<Commodity, real>) }

impl Evaluated {
    pub open spec fn sem(self) -> EV {
        match self { Evaluated::Number(d) => EV::Num(d.val()), Evaluated::Commodities(a) => EV::Com(a@) }
    }
}
pub open spec fn ev_is_zero(e: EV) -> bool {
    match e { EV::Num(x) => x == 0real, EV::Com(m) => all_zero(m) }
}

// ---- ordinary arithmetic with commodity typing (None = ill-typed / undefined) ----
pub open spec fn ev_add(x: EV, y: EV) -> Option<EV> {
    match (x, y) {
        (EV::Num(a), EV::Num(b)) => Some(EV::Num(a + b)),
        (EV::Com(a), EV::Com(b)) => Some(EV::Com(madd(a, b))),   // same commodity combines, different ones are kept apart
        _ => None,                                               // number + amount is ill-typed
    }
}
pub open spec fn ev_sub(x: EV, y: EV) -> Option<EV> {
    match (x, y) {
        (EV::Num(a), EV::Num(b)) => Some(EV::Num(a - b)),
        (EV::Com(a), EV::Com(b)) => Some(EV::Com(msub(a, b))),
        _ => None,
    }
}
pub open spec fn ev_mul(x: EV, y: EV) -> Option<EV> {
    match (x, y) {
        (EV::Num(a), EV::Num(b)) => Some(EV::Num(a * b)),
        (EV::Com(a), EV::Num(k)) => Some(EV::Com(mscale(a, k))),
        (EV::Num(k), EV::Com(a)) => Some(EV::Com(mscale(a, k))),
        (EV::Com(_), EV::Com(_)) => None,                        // amount * amount is ill-typed
    }
}
pub open spec fn ev_div(x: EV, y: EV) -> Option<EV> {
    if ev_is_zero(y) { None }                                    // division by zero
    else {
        match (x, y) {
            (EV::Num(a), EV::Num(b)) => Some(EV::Num(a / b)),
            (EV::Com(a), EV::Num(k)) => Some(EV::Com(mdiv(a, k))),
            (EV::Num(a), EV::Com(b)) => if b.dom().len() == 1 { Some(EV::Com(Map::empty().insert(b.dom().choose(), a / b[b.dom().choose()]))) } else { None },
            (EV::Com(_), EV::Com(_)) => None,
        }
    }
}
pub open spec fn ev_neg(x: EV) -> EV {
    match x { EV::Num(a) => EV::Num(-a), EV::Com(m) => EV::Com(mneg(m)) }
}

// a literal: no commodity => number, otherwise one-commodity amount of the (alias-resolved) commodity
pub open spec fn lit_sem(value: real, commodity: Option<Commodity>) -> EV {
    match commodity { None => EV::Num(value), Some(c) => EV::Com(Map::empty().insert(c, value)) }
}

impl vstd::std_specs::convert::FromSpecImpl<Decimal> for Evaluated {
    open spec fn obeys_from_spec() -> bool { true }
    open spec fn from_spec(v: Decimal) -> Evaluated { Evaluated::Number(v) }
}
impl vstd::std_specs::convert::FromSpecImpl<Amount> for Evaluated {
    open spec fn obeys_from_spec() -> bool { true }
    open spec fn from_spec(v: Amount) -> Evaluated { Evaluated::Commodities(v) }
}
// "a non-zero bare number ... where an amount is required is rejected": 0 is the empty amount, other numbers are errors
impl vstd::std_specs::convert::TryFromSpecImpl<Evaluated> for Amount {
    open spec fn obeys_try_from_spec() -> bool { false }
    open spec fn try_from_spec(v: Evaluated) -> Result<Amount, EvalError> { arbitrary() }
}
// at most one commodity; a non-zero bare number is not an amount
impl vstd::std_specs::convert::TryFromSpecImpl<Evaluated> for PostingAmount {
    open spec fn obeys_try_from_spec() -> bool { true }
    open spec fn try_from_spec(v: Evaluated) -> Result<PostingAmount, EvalError> {
        match v {
            Evaluated::Number(x) => if x.val() == 0real { Ok(PostingAmount::Zero) } else { Err(EvalError::AmountRequired) },
            Evaluated::Commodities(a) =>
                if a.ncomm() == 0 { Ok(PostingAmount::Zero) }
                else if a.ncomm() == 1 { Ok(PostingAmount::Single(a.single_entry())) }
                else { Err(EvalError::PostingAmountRequired) },
        }
    }
}
// exactly one commodity; bare numbers (zero included) and multi-commodity sums are rejected
impl vstd::std_specs::convert::TryFromSpecImpl<Evaluated> for SingleAmount {
    open spec fn obeys_try_from_spec() -> bool { true }
    open spec fn try_from_spec(v: Evaluated) -> Result<SingleAmount, EvalError> {
        match v {
            Evaluated::Number(x) => if x.val() == 0real { Err(EvalError::SingleAmountRequired) } else { Err(EvalError::AmountRequired) },
            Evaluated::Commodities(a) => if a.ncomm() == 1 { Ok(a.single_entry()) } else { Err(EvalError::SingleAmountRequired) },
        }
    }
}
