// R13: thiserror #[from] conversions on BookKeepError
impl vstd::std_specs::convert::FromSpecImpl<EvalError> for BookKeepError {
    open spec fn obeys_from_spec() -> bool { true }
    open spec fn from_spec(e: EvalError) -> BookKeepError { BookKeepError::EvalFailure(e) }
}
impl From<EvalError> for BookKeepError { fn from(e: EvalError) -> (r: BookKeepError) { BookKeepError::EvalFailure(e) } }
impl vstd::std_specs::convert::FromSpecImpl<BalanceError> for BookKeepError {
    open spec fn obeys_from_spec() -> bool { true }
    open spec fn from_spec(e: BalanceError) -> BookKeepError { BookKeepError::BalanceFailure(e) }
}
impl From<BalanceError> for BookKeepError { fn from(e: BalanceError) -> (r: BookKeepError) { BookKeepError::BalanceFailure(e) } }
// derive(Clone) on report::transaction amounts
impl Clone for Posting { #[verifier::external_body] fn clone(&self) -> (r: Posting) ensures r == *self { unimplemented!() } }

// ---- C01 vocabulary ----
pub open spec fn single_of(ev: Result<Evaluated, EvalError>) -> Result<SingleAmount, EvalError> {
    match ev { Ok(v) => <SingleAmount as vstd::std_specs::convert::TryFromSpec<Evaluated>>::try_from_spec(v), Err(e) => Err(e) }
}
pub open spec fn posting_amount_of(ev: Result<Evaluated, EvalError>) -> Result<PostingAmount, EvalError> {
    match ev { Ok(v) => <PostingAmount as vstd::std_specs::convert::TryFromSpec<Evaluated>>::try_from_spec(v), Err(e) => Err(e) }
}
impl Exchange {
    pub open spec fn rate(self) -> SingleAmount { match self { Exchange::Total(x) => x, Exchange::Rate(x) => x } }
    // value of a quantity under this exchange: rate * quantity, or the stated total carrying the sign of the quantity
    pub open spec fn value_of(self, a: SingleAmount) -> real {
        match self {
            Exchange::Rate(r) => r.v() * a.v(),
            Exchange::Total(t) => if a.value.negbit() == t.value.negbit() { t.v() } else { -t.v() },
        }
    }
    // accepted exchanges: non-zero, on an amount that has a commodity, priced in a different commodity
    pub open spec fn wf_for(self, amount: PostingAmount) -> bool {
        &&& self.rate().v() != 0real
        &&& amount is Single
        &&& amount->Single_0.commodity != self.rate().commodity
    }
}
impl ComputedPosting {
    pub open spec fn wf(self) -> bool {
        &&& (self.cost matches Some(x) ==> x.wf_for(self.amount))
        &&& (self.lot matches Some(x) ==> x.wf_for(self.amount))
    }
    // lot price, else cost
    pub open spec fn balancing_exchange(self) -> Option<Exchange> { if self.lot is Some { self.lot } else { self.cost } }
    // the value this posting contributes to the transaction's balance: lot price, else cost, else its own amount
    pub open spec fn balancing_value(self) -> PostingAmount
        recommends self.wf()
    {
        match self.balancing_exchange() {
            Some(x) => PostingAmount::Single(SingleAmount { value: choose|d: Decimal| d.val() == x.value_of(self.amount->Single_0), commodity: x.rate().commodity }),
            None => self.amount,
        }
    }
}
pub open spec fn is_balancing_value(cp: ComputedPosting, r: PostingAmount) -> bool {
    match cp.balancing_exchange() {
        Some(x) => r matches PostingAmount::Single(s) && s.commodity == x.rate().commodity && s.v() == x.value_of(cp.amount->Single_0),
        None => r == cp.amount,
    }
}
// per-commodity totals all zero, or exactly two commodities remain with non-zero totals of opposite sign
pub open spec fn balanced(r: Map<Commodity, real>) -> bool {
    all_zero(r) || exists|c1: Commodity, c2: Commodity| #![trigger r[c1], r[c2]]
        c1 != c2 && r.dom() == set![c1, c2] && r[c1] != 0real && r[c2] != 0real && ((r[c1] > 0real) != (r[c2] > 0real))
}

/// one rate record: on `date`, 1 `of` = `rate` `with`, learnt from `source`
pub ghost struct PriceRecord { pub source: PriceSource, pub date: NaiveDate, pub of: Commodity, pub with: Commodity, pub rate: real }
impl PriceRepositoryBuilder {
    /// the records in insertion order (ghost view of `records[with][of]`)
    pub uninterp spec fn log(&self) -> Seq<PriceRecord>;
    // price_db.rs insert_impl (ASSUMED, L1: nested entry API): divides the two amounts of an event by each other and
    // appends the rate to records[price_with.commodity][price_of.commodity]
    #[verifier::external_body]
    pub fn insert_impl(&mut self, source: PriceSource, date: NaiveDate, price_of: SingleAmount, price_with: SingleAmount)
        requires price_of.v() != 0real,
        ensures final(self).log() == old(self).log().push(PriceRecord { source, date, of: price_of.commodity, with: price_with.commodity, rate: price_with.v() / price_of.v() }),
    { unimplemented!() }
}
pub proof fn lemma_reciprocal(x: real, y: real)
    requires x != 0real, y != 0real,
    ensures (y / x) * (x / y) == 1real,
{
    assert((y / x) * (x / y) == 1real) by(nonlinear_arith) requires x != 0real, y != 0real;
}
#[verifier::external_body]
pub fn havoc_loop_target(v: &mut Vec<Posting>)
    ensures
        final(v)@.len() == old(v)@.len(),
        forall|i: int| 0 <= i < old(v)@.len() ==> (#[trigger] final(v)@[i]).account == old(v)@[i].account && final(v)@[i].amount == old(v)@[i].amount,
{ unimplemented!() }

// compute_from_syntax as a deterministic function of the written posting amount and the context (its glue body is L1)
pub uninterp spec fn computed_of(sa: syntax::tracked::PostingAmount, ctx: ReportContext) -> Result<ComputedPosting, BookKeepError>;
pub uninterp spec fn computed_ctx(sa: syntax::tracked::PostingAmount, ctx: ReportContext) -> ReportContext;

// C02: what `= X` asserts about an account's holdings h (absent commodity = 0; bare `= 0` = nothing held at all)
pub open spec fn assertion_holds(h: Map<Commodity, real>, expected: PostingAmount) -> bool {
    match expected { PostingAmount::Zero => all_zero(h), PostingAmount::Single(s) => mget(h, s.commodity) == s.v() }
}
// C03: `Account = X` with no amount: the posting receives X minus what the account holds in that commodity
// (bare `= 0`: minus its whole single-commodity holding) and the account is left at X
pub open spec fn assigned_amount_ok(h: Map<Commodity, real>, x: PostingAmount, amt: PostingAmount) -> bool {
    match x {
        PostingAmount::Single(s) => amt matches PostingAmount::Single(a) && a.commodity == s.commodity && a.v() == s.v() - mget(h, s.commodity),
        PostingAmount::Zero =>
            if h.dom().len() == 0 { amt is Zero }
            else { amt matches PostingAmount::Single(a) && h == Map::<Commodity, real>::empty().insert(a.commodity, -a.v()) },
    }
}
pub open spec fn assigned_holdings(h: Map<Commodity, real>, x: PostingAmount) -> Map<Commodity, real> {
    match x {
        PostingAmount::Single(s) => if s.v() == 0real { h.remove(s.commodity) } else { h.insert(s.commodity, s.v()) },
        PostingAmount::Zero => Map::empty(),
    }
}

// ---- add_transaction vocabulary ----
pub open spec fn unconstrained(p: syntax::tracked::Posting) -> bool { p.amount is None && p.balance is None }
pub open spec fn count_unc(posts: Seq<Tracked<syntax::tracked::Posting>>, n: int) -> int
    decreases n
{
    if n <= 0 { 0 } else { count_unc(posts, n - 1) + (if unconstrained(posts[n - 1].value) { 1int } else { 0int }) }
}
// sum of balancing values, per commodity (zero entries retained)
pub open spec fn sum_deltas(d: Seq<PostingAmount>) -> Map<Commodity, real>
    decreases d.len()
{
    if d.len() == 0 { Map::empty() } else { add_pa(sum_deltas(d.drop_last()), d.last()) }
}
pub proof fn lemma_count_unc_mono(posts: Seq<Tracked<syntax::tracked::Posting>>, i: int, n: int)
    requires 0 <= i <= n <= posts.len(),
    ensures count_unc(posts, i) <= count_unc(posts, n),
    decreases n - i
{
    if i < n { lemma_count_unc_mono(posts, i, n - 1); }
}

// the one posting without amount and assertion received exactly `m`
pub open spec fn deduced_posting_is(out: Seq<Posting>, posts: Seq<Tracked<syntax::tracked::Posting>>, m: Map<Commodity, real>) -> bool {
    exists|u: int| 0 <= u < out.len() && u < posts.len() && unconstrained(posts[u].value) && #[trigger] out[u].amount@ == m
}
// C01/C03 acceptance condition of a transaction whose postings contributed the balancing values `deltas`
pub open spec fn accepted_with(ctx: &ReportContext, out: Seq<Posting>, posts: Seq<Tracked<syntax::tracked::Posting>>, deltas: Seq<PostingAmount>) -> bool {
    &&& deltas.len() == posts.len()
    &&& forall|j: int| 0 <= j < deltas.len() && unconstrained(posts[j].value) ==> #[trigger] deltas[j] is Zero
    // a single posting with an omitted amount absorbs the remainder: exactly the negated sum of the others' balancing values
    &&& (count_unc(posts, posts.len() as int) == 1 ==> deduced_posting_is(out, posts, mneg(sum_deltas(deltas))))
    // otherwise the rounded per-commodity totals balance
    &&& (count_unc(posts, posts.len() as int) == 0 ==> balanced(rounded(ctx, sum_deltas(deltas))))
}

pub open spec fn accepted(ctx: &ReportContext, out: Seq<Posting>, posts: Seq<Tracked<syntax::tracked::Posting>>) -> bool {
    exists|d: Seq<PostingAmount>| #[trigger] accepted_with(ctx, out, posts, d)
}

/// C01: the precision a `commodity` directive declares: that of its last `format` line (None: it has none)
pub open spec fn declared_scale(details: Seq<CommodityDetail>, n: int) -> Option<u32>
    decreases n
{
    if n <= 0 { None } else {
        match details[n - 1] { CommodityDetail::Format(f) => Some(fmt_scale(f.value)), _ => declared_scale(details, n - 1) }
    }
}
