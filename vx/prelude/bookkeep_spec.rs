// R13: thiserror #[from] conversions on BookKeepError
impl vstd::std_specs::convert::FromSpecImpl<EvalError> for BookKeepError {
    open spec fn obeys_from_spec() -> bool { true }
    open spec fn from_spec(e: EvalError) -> BookKeepError { BookKeepError::EvalFailure(e) }
}
impl From<EvalError> for BookKeepError { fn from(e: EvalError) -> (r: BookKeepError) { BookKeepError::EvalFailure(e) } }
impl vstd::std_specs::convert::FromSpecImpl<BalanceError> for BookKeepError {
    open spec fn obeys_from_spec() -> bool { true }
    open spec fn from_spec(e: BalanceError) -> BookKeepError { BookKeepError::BalanceFailure(e) }
}
impl From<BalanceError> for BookKeepError { fn from(e: BalanceError) -> (r: BookKeepError) { BookKeepError::BalanceFailure(e) } }
// derive(Clone) on report::transaction amounts
impl Clone for Posting { #[verifier::external_body] fn clone(&self) -> (r: Posting) ensures r == *self { unimplemented!() } }

// ---- C01 vocabulary ----
pub open spec fn single_of(ev: Result<Evaluated, EvalError>) -> Result<SingleAmount, EvalError> {
    match ev { Ok(v) => <SingleAmount as vstd::std_specs::convert::TryFromSpec<Evaluated>>::try_from_spec(v), Err(e) => Err(e) }
}
pub open spec fn posting_amount_of(ev: Result<Evaluated, EvalError>) -> Result<PostingAmount, EvalError> {
    match ev { Ok(v) => <PostingAmount as vstd::std_specs::convert::TryFromSpec<Evaluated>>::try_from_spec(v), Err(e) => Err(e) }
}
impl Exchange {
    pub open spec fn rate(self) -> SingleAmount { match self { Exchange::Total(x) => x, Exchange::Rate(x) => x } }
    // value of a quantity under this exchange: rate * quantity, or the stated total carrying the sign of the quantity
    pub open spec fn value_of(self, a: SingleAmount) -> real {
        match self {
            Exchange::Rate(r) => r.v() * a.v(),
            Exchange::Total(t) => if a.value.negbit() == t.value.negbit() { t.v() } else { -t.v() },
        }
    }
    // accepted exchanges: non-zero, on an amount that has a commodity, priced in a different commodity
    pub open spec fn wf_for(self, amount: PostingAmount) -> bool {
        &&& self.rate().v() != 0real
        &&& amount is Single
        &&& amount->Single_0.commodity != self.rate().commodity
    }
}
impl ComputedPosting {
    pub open spec fn wf(self) -> bool {
        &&& (self.cost matches Some(x) ==> x.wf_for(self.amount))
        &&& (self.lot matches Some(x) ==> x.wf_for(self.amount))
    }
    // lot price, else cost
    pub open spec fn balancing_exchange(self) -> Option<Exchange> { if self.lot is Some { self.lot } else { self.cost } }
    // the value this posting contributes to the transaction's balance: lot price, else cost, else its own amount
    pub open spec fn balancing_value(self) -> PostingAmount
        recommends self.wf()
    {
        match self.balancing_exchange() {
            Some(x) => PostingAmount::Single(SingleAmount { value: choose|d: Decimal| d.val() == x.value_of(self.amount->Single_0), commodity: x.rate().commodity }),
            None => self.amount,
        }
    }
}
pub open spec fn is_balancing_value(cp: ComputedPosting, r: PostingAmount) -> bool {
    match cp.balancing_exchange() {
        Some(x) => r matches PostingAmount::Single(s) && s.commodity == x.rate().commodity && s.v() == x.value_of(cp.amount->Single_0),
        None => r == cp.amount,
    }
}
// per-commodity totals all zero, or exactly two commodities remain with non-zero totals of opposite sign
pub open spec fn balanced(r: Map<Commodity, real>) -> bool {
    all_zero(r) || exists|c1: Commodity, c2: Commodity| #![trigger r[c1], r[c2]]
        c1 != c2 && r.dom() == set![c1, c2] && r[c1] != 0real && r[c2] != 0real && ((r[c1] > 0real) != (r[c2] > 0real))
}

impl PriceRepositoryBuilder {
    // price_db.rs insert_impl divides the two amounts of an event by each other
    #[verifier::external_body]
    pub fn insert_impl(&mut self, source: PriceSource, date: NaiveDate, price_of: SingleAmount, price_with: SingleAmount)
        requires price_of.v() != 0real,
    { unimplemented!() }
}
#[verifier::external_body]
pub fn havoc_loop_target(v: &mut Vec<Posting>)
    ensures
        final(v)@.len() == old(v)@.len(),
        forall|i: int| 0 <= i < old(v)@.len() ==> (#[trigger] final(v)@[i]).account == old(v)@[i].account && final(v)@[i].amount == old(v)@[i].amount,
{ unimplemented!() }
