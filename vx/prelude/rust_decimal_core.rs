// L0 — ASSUMED model of the `rust_decimal` crate (dependency; not verified here).
// A Decimal is a sign bit, a 96-bit magnitude and a scale 0..=28; mant() is the signed
// mantissa, dscale() the number of decimal places, so the value is mant()/10^dscale().
pub mod rust_decimal {
    use super::*;

    #[verifier::external_body]
    pub struct Decimal { _p: [u8; 16] }

    impl Clone for Decimal {
        #[verifier::external_body]
        fn clone(&self) -> (r: Self) ensures r == *self { unimplemented!() }
    }
    impl Copy for Decimal {}

    pub enum Error {
        ErrorString(String),
        ExceedsMaximumPossibleValue,
        LessThanMinimumPossibleValue,
        Underflow,
        ScaleExceedsMaximumPrecision(u32),
        ConversionTo(String),
    }

    pub open spec fn max_repr() -> int { 0xFFFF_FFFF_FFFF_FFFF_FFFF_FFFF }

    impl Decimal {
        pub uninterp spec fn mant(self) -> int;
        pub uninterp spec fn dscale(self) -> nat;
        // sign bit: rust_decimal has a negative zero
        pub uninterp spec fn negbit(self) -> bool;

        pub const MAX_SCALE: u32 = 28;

        // assumed from rust_decimal 1.37 decimal.rs: Err iff scale > 28 or |num| > 2^96-1
        #[verifier::external_body]
        pub fn try_from_i128_with_scale(num: i128, scale: u32) -> (r: Result<Decimal, Error>)
            ensures
                r is Ok <==> (scale <= 28 && -max_repr() <= num <= max_repr()),
                r matches Ok(d) ==> d.mant() == num && d.dscale() == scale && d.negbit() == (num < 0),
        { unimplemented!() }
    }
}
