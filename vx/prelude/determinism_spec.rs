// C13 — "the result is a function of the abstract (seed-independent) view": a listing of a hash map is CANONICAL when it
// contains every entry exactly once in strictly increasing key order.  `lemma_canonical_unique` proves that two canonical
// listings of the same map are equal, so a function whose postcondition is `is_canonical(result, map@, le)` returns the
// same sequence whatever order the hash map iterates in (Verus' HashMap model leaves that order unconstrained, which is
// exactly the per-process random seed).
pub mod det {
    use super::*;
    pub open spec fn antisym<K>(le: spec_fn(K, K) -> bool) -> bool {
        forall|a: K, b: K| #[trigger] le(a, b) && le(b, a) ==> a == b
    }
    /// s lists every entry of m exactly once, in strictly increasing key order
    pub open spec fn is_canonical<K, V>(s: Seq<(K, V)>, m: Map<K, V>, le: spec_fn(K, K) -> bool) -> bool {
        &&& forall|i: int| 0 <= i < s.len() ==> m.contains_key((#[trigger] s[i]).0) && m[s[i].0] == s[i].1
        &&& forall|k: K| m.contains_key(k) ==> exists|i: int| 0 <= i < s.len() && (#[trigger] s[i]).0 == k
        &&& forall|i: int, j: int| 0 <= i < j < s.len() ==> le((#[trigger] s[i]).0, (#[trigger] s[j]).0) && s[i].0 != s[j].0
    }
    pub open spec fn sorted_by_key<K, V>(s: Seq<(K, V)>, le: spec_fn(K, K) -> bool) -> bool {
        forall|i: int, j: int| 0 <= i < j < s.len() ==> le((#[trigger] s[i]).0, (#[trigger] s[j]).0)
    }

    pub proof fn lemma_prefix<K, V>(s1: Seq<(K, V)>, s2: Seq<(K, V)>, m: Map<K, V>, le: spec_fn(K, K) -> bool, n: int)
        requires is_canonical(s1, m, le), is_canonical(s2, m, le), antisym(le), 0 <= n <= s1.len(), n <= s2.len(),
        ensures forall|i: int| 0 <= i < n ==> s1[i] == s2[i],
        decreases n,
    {
        if n > 0 {
            lemma_prefix(s1, s2, m, le, n - 1);
            let i = n - 1;
            let k = s1[i].0;
            let k2 = s2[i].0;
            assert(m.contains_key(k));
            assert(m.contains_key(k2));
            let j = choose|j: int| 0 <= j < s2.len() && (#[trigger] s2[j]).0 == k;
            let j2 = choose|j: int| 0 <= j < s1.len() && (#[trigger] s1[j]).0 == k2;
            if j < i {
                assert(s1[j] == s2[j]);
                assert(s1[j].0 != s1[i].0);
                assert(false);
            }
            if j2 < i {
                assert(s1[j2] == s2[j2]);
                assert(s2[j2].0 != s2[i].0);
                assert(false);
            }
            if j > i && j2 > i {
                assert(le(s1[i].0, s1[j2].0));
                assert(le(s2[i].0, s2[j].0));
                assert(false);
            }
            if j > i && j2 == i {
                assert(s2[i].0 != s2[j].0);
                assert(false);
            }
            assert(k == k2);
            assert(s1[i].1 == m[k]);
        }
    }

    /// determinism: the canonical listing is a function of the map alone
    pub proof fn lemma_canonical_unique<K, V>(s1: Seq<(K, V)>, s2: Seq<(K, V)>, m: Map<K, V>, le: spec_fn(K, K) -> bool)
        requires is_canonical(s1, m, le), is_canonical(s2, m, le), antisym(le),
        ensures s1 == s2,
    {
        let n = if s1.len() <= s2.len() { s1.len() as int } else { s2.len() as int };
        lemma_prefix(s1, s2, m, le, n);
        if s1.len() < s2.len() {
            let k = s2[n].0;
            assert(m.contains_key(k));
            let j = choose|j: int| 0 <= j < s1.len() && (#[trigger] s1[j]).0 == k;
            assert(s1[j] == s2[j]);
            assert(s2[j].0 != s2[n].0);
            assert(false);
        }
        if s2.len() < s1.len() {
            let k = s1[n].0;
            assert(m.contains_key(k));
            let j = choose|j: int| 0 <= j < s2.len() && (#[trigger] s2[j]).0 == k;
            assert(s1[j] == s2[j]);
            assert(s1[j].0 != s1[n].0);
            assert(false);
        }
        assert(s1 =~= s2);
    }

    /// a sorted permutation of an arbitrary-order listing is the canonical listing
    pub proof fn lemma_sorted_perm_canonical<K, V>(pre: Seq<(K, V)>, post: Seq<(K, V)>, m: Map<K, V>, le: spec_fn(K, K) -> bool)
        requires lists_entries(pre, m), post.to_multiset() == pre.to_multiset(), sorted_by_key(post, le),
        ensures is_canonical(post, m, le),
    {
        assert(pre.no_duplicates()) by {
            assert forall|i: int, j: int| 0 <= i < pre.len() && 0 <= j < pre.len() && i != j implies pre[i] != pre[j] by {
                if i < j { assert(pre[i].0 != pre[j].0); } else { assert(pre[j].0 != pre[i].0); }
            }
        }
        pre.lemma_multiset_has_no_duplicates();
        post.lemma_multiset_has_no_duplicates_conv();
        pre.to_multiset_ensures();
        post.to_multiset_ensures();
        assert forall|i: int| 0 <= i < post.len() implies m.contains_key((#[trigger] post[i]).0) && m[post[i].0] == post[i].1 by {
            assert(post.contains(post[i]));
            assert(post.to_multiset().count(post[i]) > 0);
            assert(pre.to_multiset().count(post[i]) > 0);
            assert(pre.contains(post[i]));
            let p = choose|p: int| 0 <= p < pre.len() && pre[p] == post[i];
            assert(m.contains_key(pre[p].0));
        }
        assert forall|k: K| m.contains_key(k) implies exists|i: int| 0 <= i < post.len() && (#[trigger] post[i]).0 == k by {
            let p = choose|p: int| 0 <= p < pre.len() && (#[trigger] pre[p]).0 == k;
            assert(pre.contains(pre[p]));
            assert(pre.to_multiset().count(pre[p]) > 0);
            assert(post.to_multiset().count(pre[p]) > 0);
            assert(post.contains(pre[p]));
            let q = choose|q: int| 0 <= q < post.len() && post[q] == pre[p];
            assert(post[q].0 == k);
        }
        assert forall|i: int, j: int| 0 <= i < j < post.len() implies le((#[trigger] post[i]).0, (#[trigger] post[j]).0) && post[i].0 != post[j].0 by {
            assert(post[i] != post[j]);
            assert(post.contains(post[i]));
            assert(post.contains(post[j]));
            assert(post.to_multiset().count(post[i]) > 0);
            assert(post.to_multiset().count(post[j]) > 0);
            assert(pre.to_multiset().count(post[i]) > 0);
            assert(pre.to_multiset().count(post[j]) > 0);
            assert(pre.contains(post[i]));
            assert(pre.contains(post[j]));
            let p = choose|p: int| 0 <= p < pre.len() && pre[p] == post[i];
            let q = choose|q: int| 0 <= q < pre.len() && pre[q] == post[j];
            assert(p != q);
            if p < q { assert(pre[p].0 != pre[q].0); } else { assert(pre[q].0 != pre[p].0); }
        }
    }
}

/// the order of `&str` (Ord for str) on the names of two commodities / accounts of one ReportContext
pub uninterp spec fn commodity_name_le(a: Commodity, b: Commodity) -> bool;
pub uninterp spec fn account_name_le(a: Account, b: Account) -> bool;
pub open spec fn commodity_le() -> spec_fn(Commodity, Commodity) -> bool { |a: Commodity, b: Commodity| commodity_name_le(a, b) }
pub open spec fn account_le() -> spec_fn(Account, Account) -> bool { |a: Account, b: Account| account_name_le(a, b) }
/// `V.sort_unstable_by_key(|(c, _)| c.as_str())` over commodity handles: a permutation, sorted by name
#[verifier::external_body]
pub fn sort_unstable_by_commodity_name<'a, V>(v: &mut Vec<(&'a Commodity, &'a V)>)
    ensures refs_view(final(v)@).to_multiset() == refs_view(old(v)@).to_multiset(), det::sorted_by_key(refs_view(final(v)@), commodity_le()),
{ unimplemented!() }
/// `V.sort_unstable_by_key(|(a, _)| a.as_str())` over account handles
#[verifier::external_body]
pub fn sort_unstable_by_account_name<V>(v: &mut Vec<(Account, V)>)
    ensures final(v)@.to_multiset() == old(v)@.to_multiset(), det::sorted_by_key(final(v)@, account_le()),
{ unimplemented!() }

/// the same over borrowed entries `(&Account, &V)`
#[verifier::external_body]
pub fn sort_unstable_by_account_name_refs<'a, V>(v: &mut Vec<(&'a Account, &'a V)>)
    ensures refs_view(final(v)@).to_multiset() == refs_view(old(v)@).to_multiset(), det::sorted_by_key(refs_view(final(v)@), account_le()),
{ unimplemented!() }

pub mod det_axioms {
    use super::*;
    /// ASSUMED (interning): two distinct handles of one context never carry the same name, and Ord for str is a total order
    #[verifier::external_body]
    pub proof fn axiom_commodity_names() ensures det::antisym(commodity_le()) {}
    #[verifier::external_body]
    pub proof fn axiom_account_names() ensures det::antisym(account_le()) {}
}

/// the theorems C13 needs: whatever two runs computed, if both satisfy the postcondition they computed the same sequence
pub proof fn theorem_commodity_listing_deterministic<V>(s1: Seq<(Commodity, V)>, s2: Seq<(Commodity, V)>, m: Map<Commodity, V>)
    requires det::is_canonical(s1, m, commodity_le()), det::is_canonical(s2, m, commodity_le()),
    ensures s1 == s2,
{
    det_axioms::axiom_commodity_names();
    det::lemma_canonical_unique(s1, s2, m, commodity_le());
}
pub proof fn theorem_account_listing_deterministic<V>(s1: Seq<(Account, V)>, s2: Seq<(Account, V)>, m: Map<Account, V>)
    requires det::is_canonical(s1, m, account_le()), det::is_canonical(s2, m, account_le()),
    ensures s1 == s2,
{
    det_axioms::axiom_account_names();
    det::lemma_canonical_unique(s1, s2, m, account_le());
}

/// `ReportContext::all_accounts_unsorted().collect()`: the canonical entries of the account store, each exactly once, in the hash map's order (ASSUMED;
/// modelled as a listing of a map from the account to nothing so that the lemmas above apply)
pub uninterp spec fn canonical_accounts_of(ctx: &ReportContextStub) -> Map<Account, ()>;
#[verifier::external_body]
pub struct ReportContextStub { _p: usize }
#[verifier::external_body]
pub fn collect_all_accounts_unsorted(ctx: &ReportContextStub) -> (r: Vec<Account>)
    ensures lists_entries(r@.map_values(|a: Account| (a, ())), canonical_accounts_of(ctx)),
{ unimplemented!() }
/// `V.sort_unstable_by_key(|x| x.as_str())` over account handles
#[verifier::external_body]
pub fn sort_accounts_by_name(v: &mut Vec<Account>)
    ensures final(v)@.map_values(|a: Account| (a, ())).to_multiset() == old(v)@.map_values(|a: Account| (a, ())).to_multiset(),
        det::sorted_by_key(final(v)@.map_values(|a: Account| (a, ())), account_le()),
{ unimplemented!() }
