// stand-ins for the slice of csv::import that orders the rows (config.format.row_order, Vec<single_entry::Txn>)
pub struct RowOrderFormat { pub row_order: config::RowOrder }
pub struct RowOrderConfig { pub format: RowOrderFormat }
#[verifier::external_body]
pub struct TxnStub { _p: usize }
// <[T]>::reverse has no vstd spec (ASSUMED): the slice afterwards is the reversed sequence
pub assume_specification<T>[<[T]>::reverse](s: &mut [T])
    ensures final(s)@ == old(s)@.reverse();
