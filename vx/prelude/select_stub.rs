// ---- ASSUMED models of the path / string functions ConfigSet::select_impl uses (std::path, path_slash, str) ----
/// std::path::Path (unsized in std; only ever used behind a reference here)
#[verifier::external_body] pub struct Path { _p: usize }
#[verifier::external_body] pub struct PathBuf { _p: usize }
impl Path {
    pub uninterp spec fn text(&self) -> Option<Seq<char>>;
    #[verifier::external_body]
    pub fn to_str(&self) -> (r: Option<&str>)
        ensures r is Some <==> self.text() is Some, r matches Some(s) ==> s@ == self.text()->Some_0,
    { unimplemented!() }
}
impl PathBuf {
    pub uninterp spec fn text(&self) -> Option<Seq<char>>;
    #[verifier::external_body]
    pub fn to_str(&self) -> (r: Option<&str>)
        ensures r is Some <==> self.text() is Some, r matches Some(s) ==> s@ == self.text()->Some_0,
    { unimplemented!() }
}
/// path_slash: the configured `path` with `/` turned into the platform separator
pub uninterp spec fn native_form(s: Seq<char>) -> Option<Seq<char>>;
pub struct PathBufExt;
impl PathBufExt {
    #[verifier::external_body]
    pub fn from_slash(s: &String) -> (r: PathBuf) ensures r.text() == native_form(s@) { unimplemented!() }
}
/// `hay.contains(needle)` on strings: needle occurs in hay
pub uninterp spec fn occurs_in(needle: Seq<char>, hay: Seq<char>) -> bool;
#[verifier::external_body]
pub fn str_contains(hay: &str, needle: &str) -> (b: bool) ensures b == occurs_in(needle@, hay@) { unimplemented!() }
/// `String::len`: length in bytes
pub uninterp spec fn byte_len(s: Seq<char>) -> nat;
#[verifier::external_body]
pub fn string_len(s: &String) -> (n: usize) ensures n == byte_len(s@) { unimplemented!() }

#[verifier::external_body] pub struct ConfigEntry { _p: usize }
#[verifier::external_body] pub struct ImportError { _p: usize }
/// TryFrom<ConfigFragment> for ConfigEntry (checks that the mandatory settings are there): not under contract, a function of the fragment
pub uninterp spec fn entry_of(f: ConfigFragment) -> Result<ConfigEntry, ImportError>;
#[verifier::external_body]
pub fn config_entry_try_from(f: ConfigFragment) -> (r: Result<ConfigEntry, ImportError>) ensures r == entry_of(f) { unimplemented!() }
// derive(Clone) on ConfigFragment (R13-style)
impl Clone for ConfigFragment { #[verifier::external_body] fn clone(&self) -> (r: Self) ensures r == *self { unimplemented!() } }

pub open spec fn perm_hits(perm: Seq<int>, j: int) -> bool { exists|k: int| 0 <= k < perm.len() && #[trigger] perm[k] == j }
/// `V.sort_by_key(|x| x.0)` (std: STABLE): the result lists the old elements in the order of (key, old position); `perm[k]` is the
/// old position of the element now at k
#[verifier::external_body]
pub fn sort_by_key_stable<'a>(v: &mut Vec<(usize, &'a ConfigFragment)>) -> (perm: Ghost<Seq<int>>)
    ensures
        final(v)@.len() == old(v)@.len(), perm@.len() == old(v)@.len(),
        forall|k: int| 0 <= k < perm@.len() ==> 0 <= #[trigger] perm@[k] < perm@.len() && final(v)@[k] == old(v)@[perm@[k]],
        forall|i: int, j: int| 0 <= i < j < perm@.len() ==> perm@[i] != perm@[j],
        forall|j: int| 0 <= j < perm@.len() ==> #[trigger] perm_hits(perm@, j),
        forall|i: int, j: int| 0 <= i < j < perm@.len() ==> (final(v)@[i].0 < final(v)@[j].0 || (final(v)@[i].0 == final(v)@[j].0 && perm@[i] < perm@[j])),
{ unimplemented!() }

// ---- C17: the configuration in force for a file, from the statement ----
pub open spec fn doc_matches(e: ConfigFragment, fp: Seq<char>) -> bool {
    native_form(e.path@) matches Some(ep) && occurs_in(ep, fp)
}
/// a document as a value (the rule list as a sequence)
pub ghost struct FragV { pub path: String, pub encoding: Option<Encoding>, pub account: Option<String>, pub account_type: Option<AccountType>, pub operator: Option<String>,
    pub commodity: Option<AccountCommodityConfig>, pub format: Option<FormatSpec>, pub rewrite: Seq<RewriteRule> }
pub open spec fn fv(f: ConfigFragment) -> FragV {
    FragV { path: f.path, encoding: f.encoding, account: f.account, account_type: f.account_type, operator: f.operator, commodity: f.commodity, format: f.format, rewrite: f.rewrite@ }
}
/// later documents override scalar settings, rewrite rules are concatenated in that order (ConfigFragment::merge is proved to do exactly this)
pub open spec fn merge_v(a: FragV, b: FragV) -> FragV {
    FragV { path: b.path,
        encoding: if b.encoding is Some { b.encoding } else { a.encoding }, account: if b.account is Some { b.account } else { a.account },
        account_type: if b.account_type is Some { b.account_type } else { a.account_type }, operator: if b.operator is Some { b.operator } else { a.operator },
        commodity: if b.commodity is Some { b.commodity } else { a.commodity }, format: if b.format is Some { b.format } else { a.format },
        rewrite: a.rewrite + b.rewrite }
}
/// the merge, in order, of the first n documents of s (None: no document)
pub open spec fn merged(s: Seq<(usize, &ConfigFragment)>, n: int) -> Option<FragV>
    decreases n
{
    if n <= 0 { None } else if n == 1 { Some(fv(*s[0].1)) } else { Some(merge_v(merged(s, n - 1)->Some_0, fv(*s[n - 1].1))) }
}
pub open spec fn opt_fv(m: Option<ConfigFragment>) -> Option<FragV> { match m { Some(x) => Some(fv(x)), None => None } }
/// s lists exactly the documents whose path occurs in the file path, each with its path length, shortest path first, documents
/// with paths of the same length in document order
pub open spec fn is_selection(s: Seq<(usize, &ConfigFragment)>, entries: Seq<ConfigFragment>, fp: Seq<char>, pos: Seq<int>) -> bool {
    &&& pos.len() == s.len()
    &&& forall|k: int| 0 <= k < s.len() ==> 0 <= #[trigger] pos[k] < entries.len() && *s[k].1 == entries[pos[k]] && s[k].0 == byte_len(entries[pos[k]].path@) && doc_matches(entries[pos[k]], fp)
    &&& forall|i: int| 0 <= i < entries.len() && doc_matches(entries[i], fp) ==> exists|k: int| 0 <= k < s.len() && #[trigger] pos[k] == i
    &&& forall|i: int, j: int| 0 <= i < j < s.len() ==> (s[i].0 < s[j].0 || (s[i].0 == s[j].0 && pos[i] < pos[j]))
}
