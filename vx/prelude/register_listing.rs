// ---- C04: what the register lists (Ledger::postings) and what it sums to ----
use std::collections::HashSet;
pub struct PostingQuery { pub account: Option<String> }
/// ASSUMED std: Option<String>::as_deref
#[verifier::external_body]
pub fn opt_string_as_deref(o: &Option<String>) -> (r: Option<&str>)
    ensures r is Some <==> o is Some, r matches Some(s) ==> s@ == o->Some_0@,
{ unimplemented!() }
impl ReportContext {
    /// the accounts the context knows under their canonical names (ReportContext::all_accounts_unsorted: the canonical entries of the intern store)
    pub uninterp spec fn known_accounts(&self) -> Set<Account>;
}
/// the postings selected by `sel`, in file order, of the first i transactions
pub open spec fn reg_seq(txns: Seq<Transaction>, i: int, sel: spec_fn(Account) -> bool) -> Seq<Posting>
    decreases i
{
    if i <= 0 { Seq::empty() } else { reg_seq(txns, i - 1, sel) + sel_prefix(txns[i - 1].postings@, txns[i - 1].postings@.len() as int, sel) }
}
/// the selected ones among the first j postings of one transaction, in order
pub open spec fn sel_prefix(ps: Seq<Posting>, j: int, sel: spec_fn(Account) -> bool) -> Seq<Posting>
    decreases j
{
    if j <= 0 { Seq::empty() } else { let r = sel_prefix(ps, j - 1, sel); if sel(ps[j - 1].account) { r.push(ps[j - 1]) } else { r } }
}
/// the sum of the listed amounts in commodity c
pub open spec fn seq_sum(s: Seq<Posting>, n: int, c: Commodity) -> real
    decreases n
{
    if n <= 0 { 0real } else { seq_sum(s, n - 1, c) + mget(s[n - 1].amount@, c) }
}
pub open spec fn everything() -> spec_fn(Account) -> bool { |x: Account| true }
/// the accounts the context knows whose name is exactly `f`
pub open spec fn by_name(ctx: &ReportContext, f: Seq<char>) -> spec_fn(Account) -> bool { |x: Account| ctx.known_accounts().contains(x) && x.name() == f }
pub proof fn lemma_reg_seq_none(txns: Seq<Transaction>, i: int, sel: spec_fn(Account) -> bool)
    requires forall|x: Account| !#[trigger] sel(x),
    ensures reg_seq(txns, i, sel) == Seq::<Posting>::empty(),
    decreases i
{
    if i > 0 {
        lemma_reg_seq_none(txns, i - 1, sel);
        lemma_sel_prefix_none(txns[i - 1].postings@, txns[i - 1].postings@.len() as int, sel);
        assert(reg_seq(txns, i, sel) =~= Seq::<Posting>::empty());
    }
}
pub proof fn lemma_sel_prefix_none(ps: Seq<Posting>, j: int, sel: spec_fn(Account) -> bool)
    requires forall|x: Account| !#[trigger] sel(x),
    ensures sel_prefix(ps, j, sel) == Seq::<Posting>::empty(),
    decreases j
{
    if j > 0 { lemma_sel_prefix_none(ps, j - 1, sel); }
}
pub open spec fn only(a: Account) -> spec_fn(Account) -> bool { |x: Account| x == a }
pub open spec fn refs_of(s: Seq<&Posting>) -> Seq<Posting> { s.map_values(|p: &Posting| *p) }

pub proof fn lemma_seq_sum_concat(s: Seq<Posting>, t: Seq<Posting>, c: Commodity)
    ensures seq_sum(s + t, (s + t).len() as int, c) == seq_sum(s, s.len() as int, c) + seq_sum(t, t.len() as int, c),
    decreases t.len()
{
    if t.len() == 0 {
        assert(s + t =~= s);
    } else {
        let t0 = t.drop_last();
        lemma_seq_sum_concat(s, t0, c);
        assert((s + t).drop_last() =~= s + t0);
        assert((s + t)[(s + t).len() - 1] == t[t.len() - 1]);
        lemma_seq_sum_prefix(s + t, s + t0, (s + t0).len() as int, c);
        lemma_seq_sum_prefix(t, t0, t0.len() as int, c);
    }
}
pub proof fn lemma_seq_sum_prefix(s1: Seq<Posting>, s2: Seq<Posting>, n: int, c: Commodity)
    requires 0 <= n <= s1.len(), n <= s2.len(), forall|k: int| 0 <= k < n ==> s1[k] == s2[k],
    ensures seq_sum(s1, n, c) == seq_sum(s2, n, c),
    decreases n
{
    if n > 0 { lemma_seq_sum_prefix(s1, s2, n - 1, c); }
}
/// the listed amounts of one transaction's postings of account a add up to that account's register term
pub proof fn lemma_filter_sum(ps: Seq<Posting>, j: int, a: Account, c: Commodity)
    requires 0 <= j <= ps.len(),
    ensures ({ let f = sel_prefix(ps, j, only(a)); seq_sum(f, f.len() as int, c) == acct_sum(ps, j, a, c) }),
    decreases j
{
    if j > 0 {
        lemma_filter_sum(ps, j - 1, a, c);
        let f0 = sel_prefix(ps, j - 1, only(a));
        let f1 = sel_prefix(ps, j, only(a));
        if only(a)(ps[j - 1].account) {
            assert(f1 == f0.push(ps[j - 1]));
            lemma_seq_sum_prefix(f1, f0, f0.len() as int, c);
        }
    }
}
/// C04: for every account the stored balance equals the sum of that account's posting amounts as listed by the register
pub proof fn theorem_register_sum_is_the_balance(l: &Ledger, a: Account, c: Commodity)
    requires l.wf(),
    ensures ({ let listed = reg_seq(l.transactions@, l.transactions@.len() as int, only(a));
               seq_sum(listed, listed.len() as int, c) == val(l.raw_balance@, a, c) }),   // @theorem.register_listing_sums_to_the_balance
{
    lemma_reg_sum(l.transactions@, l.transactions@.len() as int, a, c);
}
pub proof fn lemma_reg_sum(txns: Seq<Transaction>, i: int, a: Account, c: Commodity)
    requires 0 <= i <= txns.len(),
    ensures ({ let listed = reg_seq(txns, i, only(a)); seq_sum(listed, listed.len() as int, c) == txn_sum(txns, i, all_dates(), a, c) }),
    decreases i
{
    if i > 0 {
        lemma_reg_sum(txns, i - 1, a, c);
        let ps = txns[i - 1].postings@;
        lemma_filter_sum(ps, ps.len() as int, a, c);
        lemma_seq_sum_concat(reg_seq(txns, i - 1, only(a)), sel_prefix(ps, ps.len() as int, only(a)), c);
        assert(all_dates()(txns[i - 1].date));
    }
}
