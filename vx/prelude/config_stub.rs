// Stand-ins for the nested configuration types ConfigFragment::merge moves around (cli/src/import/config.rs);
// merge never looks inside them.
#[verifier::external_body] pub struct Encoding { _p: usize }
#[verifier::external_body] pub struct AccountCommodityConfig { _p: usize }
#[verifier::external_body] pub struct FormatSpec { _p: usize }
#[verifier::external_body] pub struct RewriteRule { _p: usize }
