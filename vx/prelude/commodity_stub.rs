// stand-in for report::commodity::Commodity (an interned-string handle; identity only)
pub struct Commodity { pub id: int }
