// ---- abstract view of Balance: account -> (commodity -> value); an absent account holds nothing ----
pub mod balance_view {
    use super::*;
    impl View for Balance {
        type V = Map<Account, Map<Commodity, real>>;
        open spec fn view(&self) -> Map<Account, Map<Commodity, real>> { self.accounts@.map_values(|a: Amount| a@) }
    }
    pub broadcast proof fn lemma_balance_view(b: Balance)
        ensures
            #![trigger b@]
            b@.dom() == b.accounts@.dom(),
            forall|a: Account| b.accounts@.contains_key(a) ==> #[trigger] b@[a] == b.accounts@[a]@,
    {
        broadcast use vstd::map::group_map_lemmas;
        assert(b@.dom() =~= b.accounts@.dom());
    }
}
pub open spec fn bget(b: Map<Account, Map<Commodity, real>>, a: Account) -> Map<Commodity, real> {
    if b.contains_key(a) { b[a] } else { Map::empty() }
}
// adding a posting amount to an account's holdings: touches its commodity only
pub open spec fn add_pa(m: Map<Commodity, real>, p: PostingAmount) -> Map<Commodity, real> {
    match p { PostingAmount::Zero => m, PostingAmount::Single(s) => m.insert(s.commodity, mget(m, s.commodity) + s.v()) }
}
// derive(Default) on Balance (R13-style expansion)
impl Default for Balance {
    fn default() -> (r: Balance) ensures r@ == Map::<Account, Map<Commodity, real>>::empty() {
        let r = Balance { accounts: HashMap::new() };
        proof { assert(r@ =~= Map::<Account, Map<Commodity, real>>::empty()); }
        r
    }
}
// thiserror #[from] on BalanceError::MultiCommodityWithPartialSet (R13)
impl vstd::std_specs::convert::FromSpecImpl<EvalError> for BalanceError {
    open spec fn obeys_from_spec() -> bool { true }
    open spec fn from_spec(e: EvalError) -> BalanceError { BalanceError::MultiCommodityWithPartialSet(e) }
}
impl From<EvalError> for BalanceError {
    fn from(e: EvalError) -> (r: BalanceError) { BalanceError::MultiCommodityWithPartialSet(e) }
}
