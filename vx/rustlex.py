"""Minimal Rust lexer utilities for the mechanical extractor.

mask(src) returns a string of the same length where the *contents* of comments,
string literals, raw strings, byte strings and char literals are blanked (spaces,
newlines kept), so that brace matching and regex anchoring on the mask cannot be
fooled by text inside literals.  Offsets in the mask are offsets in the source.
"""
import re


class LexError(Exception):
    pass


def mask(src: str, keep_comments: bool = False) -> str:
    out = list(src)
    i, n = 0, len(src)

    def blank(a, b):
        for k in range(a, b):
            if out[k] != "\n":
                out[k] = " "

    while i < n:
        c = src[i]
        if src.startswith("//", i):
            j = src.find("\n", i)
            j = n if j < 0 else j
            if not keep_comments:
                blank(i, j)
            i = j
        elif src.startswith("/*", i):
            depth, j = 1, i + 2
            while j < n and depth:
                if src.startswith("/*", j):
                    depth += 1
                    j += 2
                elif src.startswith("*/", j):
                    depth -= 1
                    j += 2
                else:
                    j += 1
            if not keep_comments:
                blank(i, j)
            i = j
        elif c == '"' or (c == "b" and src.startswith('b"', i) and not _ident_before(src, i)):
            s = i + (2 if c == "b" else 1)
            j = s
            while j < n and src[j] != '"':
                j += 2 if src[j] == "\\" else 1
            blank(s, j)
            i = j + 1
        elif (c == "r" or src.startswith("br", i)) and not _ident_before(src, i) and re.match(r'b?r#*"', src[i:i + 12]):
            m = re.match(r'b?r(#*)"', src[i:])
            hashes = m.group(1)
            s = i + m.end()
            j = src.find('"' + hashes, s)
            if j < 0:
                raise LexError("unterminated raw string")
            blank(s, j)
            i = j + 1 + len(hashes)
        elif c == "'" or (c == "b" and src.startswith("b'", i) and not _ident_before(src, i)):
            s = i + (2 if c == "b" else 1)
            # char literal or lifetime?
            m = re.match(r"(\\.[^']*|[^'\\])'", src[s:s + 12])
            if m:
                blank(s, s + m.end() - 1)
                i = s + m.end()
            else:
                i = s  # lifetime / label
        else:
            i += 1
    return "".join(out)


def _ident_before(src, i):
    return i > 0 and (src[i - 1].isalnum() or src[i - 1] == "_")


OPEN = {"{": "}", "(": ")", "[": "]"}
CLOSE = {v: k for k, v in OPEN.items()}


def match_close(m: str, i: int) -> int:
    """m[i] is an opening bracket; return index of its matching closer."""
    stack = []
    for k in range(i, len(m)):
        ch = m[k]
        if ch in OPEN:
            stack.append(ch)
        elif ch in CLOSE:
            if not stack or stack[-1] != CLOSE[ch]:
                raise LexError(f"unbalanced bracket at {k}")
            stack.pop()
            if not stack:
                return k
    raise LexError("no matching close")


def depth0_find(m: str, start: int, end: int, chars: str) -> int:
    """first index in [start,end) of any char of `chars` at bracket depth 0."""
    depth = 0
    k = start
    while k < end:
        ch = m[k]
        if depth == 0 and ch in chars:
            return k
        if ch in OPEN:
            depth += 1
        elif ch in CLOSE:
            depth -= 1
        k += 1
    return -1


def find_item(m: str, start: int, end: int, header_re: str):
    """Find an item whose header matches `header_re` at brace depth 0 of [start,end).
    Returns (item_start, body_open, item_end) where body_open is the index of the
    item's `{` (or -1 for `;`-terminated items) and item_end is one past the end."""
    rx = re.compile(header_re)
    pos = start
    while True:
        mt = rx.search(m, pos, end)
        if not mt:
            return None
        # brace depth of match start relative to region
        depth = 0
        for ch in m[start:mt.start()]:
            if ch == "{":
                depth += 1
            elif ch == "}":
                depth -= 1
        if depth != 0:
            pos = mt.end()
            continue
        k = depth0_find(m, mt.end(), end, "{;")
        if k < 0:
            return None
        if m[k] == ";":
            return (mt.start(), -1, k + 1)
        close = match_close(m, k)
        return (mt.start(), k, close + 1)
