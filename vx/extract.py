"""Mechanical extractor: /repo/**.rs -> one Verus file per group.

A *group* (see vx/groups/*.py) is an ordered list of parts:
  ("text", "<file under vx/prelude>")      assumed specs / pure spec fns / lemmas (hand written, never executable repo code)
  ("unit", {...})                          a function / impl / type copied from /repo's current working tree

A unit is located by (file, item path) -- a list of header regexes, outermost first --
its text is copied verbatim, then
  * the automatic rules R1 (lifetimes), R2 (attributes, doc comments, restricted visibility),
    R3 (log::*! statements) are applied,
  * the unit's declared rewrites are applied, each one an instance of a rule of the
    catalogue in vx/rules.md given as (rule, pattern, replacement, expected_count);
    a pattern that does not match the expected number of times is a *lost anchor*
    (exit 2, never a VIOLATION),
  * the contract is spliced in: requires/ensures before the body brace, invariants
    before the brace of the n-th loop, proof text before/after a literal anchor.
Every rule instance is logged (before/after) so the evidence file states exactly what
the emitted text differs in from the text in /repo.
"""
import re
from . import rustlex as L


class Lost(Exception):
    """lost anchor / construct outside the catalogue: inconclusive (exit 2)."""


LOOP_RE = re.compile(r"\b(while|for|loop)\b")


def locate(src, m, path):
    start, end = 0, len(src)
    found = None
    for hdr in path:
        found = L.find_item(m, start, end, hdr)
        if not found:
            raise Lost(f"item header /{hdr}/ not found")
        s, b, e = found
        if b >= 0:
            start, end = b + 1, e - 1
    return found


def _sub_logged(text, rx, repl, rule, log, masked=True):
    """regex substitution evaluated on the mask (so literals/comments are never touched)."""
    m = L.mask(text) if masked else text
    out, last, n = [], 0, 0
    for mt in re.finditer(rx, m):
        out.append(text[last:mt.start()])
        if isinstance(repl, str):
            # group references are filled from the ORIGINAL text (the mask blanks literals and comments inside a captured group);
            # everything else in the template (\\n and other escapes) is expanded as re.sub would
            tmpl = re.sub(r"\\(\d)", lambda g: "\x00G" + g.group(1) + "\x00", repl)
            r = mt.expand(tmpl)
            r = re.sub("\x00G(\\d)\x00", lambda g, mt=mt: (text[mt.start(int(g.group(1))):mt.end(int(g.group(1)))] if mt.group(int(g.group(1))) is not None else ""), r)
        else:
            r = repl(mt)
        out.append(r)
        last = mt.end()
        n += 1
        if len(log) < 400:
            log.append({"rule": rule, "before": text[mt.start():mt.end()], "after": r})
    out.append(text[last:])
    return "".join(out), n


def auto_rules(text, log, lifetimes="erase"):
    # R2: attributes, doc comments, restricted visibility
    m = L.mask(text, keep_comments=True)
    # doc comments: lines starting with /// or //!
    text2 = re.sub(r"(?m)^[ \t]*//[/!].*\n", "", text)
    if text2 != text:
        log.append({"rule": "R2-doc", "before": "<doc comments>", "after": ""})
    text = text2
    # attributes #[...] / #![...]
    while True:
        m = L.mask(text)
        mt = re.search(r"#!?\[", m)
        if not mt:
            break
        close = L.match_close(m, mt.end() - 1)
        log.append({"rule": "R2-attr", "before": text[mt.start():close + 1], "after": ""})
        text = text[:mt.start()] + text[close + 1:]
    text, _ = _sub_logged(text, r"\bpub\s*\(\s*(crate|super|in [\w:]+)\s*\)", "pub", "R2-vis", log)
    mt = re.match(r"\s*(enum|struct)\b", text)
    if mt:
        log.append({"rule": "R2-vis", "before": mt.group(1), "after": "pub " + mt.group(1)})
        text = text[:mt.start(1)] + "pub " + text[mt.start(1):]
    # R3: log macros as statements
    while True:
        m = L.mask(text)
        mt = re.search(r"\blog::(trace|debug|info|warn|error)!\s*\(", m)
        if not mt:
            break
        close = L.match_close(m, mt.end() - 1)
        k = close + 1
        while k < len(text) and text[k] in " \t":
            k += 1
        if k < len(text) and text[k] == ";":
            k += 1
        log.append({"rule": "R3-log", "before": text[mt.start():k], "after": ""})
        text = text[:mt.start()] + text[k:]
    # R1: lifetimes (labels are kept: 'x: loop / break 'x / continue 'x)
    m = L.mask(text)
    if re.search(r"'\w+\s*:\s*(loop|while|for|\{)|\b(break|continue)\s+'\w", m):
        raise Lost("loop label in unit (R1 cannot tell it from a lifetime)")
    if lifetimes == "keep":
        # the unit's lifetimes are left as written (Verus borrow-checks them); used for types that hold references
        return text
    if lifetimes == "static":
        text, _ = _sub_logged(text, r"&\s*'(?!static\b)\w+\s*", "&'static ", "R1-lifetime(static)", log)
        text, _ = _sub_logged(text, r"&\s*'static\s*", "&'static ", "R1-lifetime(static)", log)
        m0 = L.mask(text)
        text = text.replace("&'static ", "&\x00STATIC ")
    text, _ = _sub_logged(text, r"&\s*'\w+\s*", "&", "R1-lifetime", log)
    text, _ = _sub_logged(text, r"<\s*'\w+\s*(,\s*'\w+\s*)*>", "", "R1-lifetime", log)
    text, _ = _sub_logged(text, r"<\s*'\w+\s*(,\s*'\w+\s*)*,\s*", "<", "R1-lifetime", log)
    text, _ = _sub_logged(text, r",\s*'\w+\s*(?=[,>])", "", "R1-lifetime", log)
    text, _ = _sub_logged(text, r"\bfor\s*<\s*>\s*", "", "R1-lifetime", log)
    text = text.replace("&\x00STATIC ", "&'static ")
    m = L.mask(text).replace("&'static", "&       ")
    if re.search(r"(?<![\w'])'[A-Za-z_]\w*(?!')", m):
        bad = re.search(r"(?<![\w'])'[A-Za-z_]\w*(?!')", m)
        raise Lost(f"lifetime left after R1 near: {text[max(0,bad.start()-30):bad.end()+30]!r}")
    return text


def r5_for_bytes(text, log):
    """R5: `for (I, C) in S.bytes().enumerate() {B}` ->
    `let bytes = S.as_bytes(); let mut I: usize = 0; while I < bytes.len() { let C = bytes[I]; B; I += 1; }`
    (B must not contain `continue`: checked)."""
    m = L.mask(text)
    mt = re.search(r"\bfor\s*\(\s*(\w+)\s*,\s*(\w+)\s*\)\s*in\s*(\w+)\.bytes\(\)\.enumerate\(\)\s*\{", m)
    if not mt:
        raise Lost("R5: no `for (i, c) in S.bytes().enumerate()` loop")
    i, c, sv = mt.group(1), mt.group(2), mt.group(3)
    bo = mt.end() - 1
    bc = L.match_close(m, bo)
    if re.search(r"\bcontinue\b", m[bo:bc]):
        raise Lost("R5: loop body contains `continue`")
    head = f"let bytes = {sv}.as_bytes(); let mut {i}: usize = 0;\n        while {i} < bytes.len() {{ let {c} = bytes[{i}];"
    log.append({"rule": "R5-for-bytes", "before": text[mt.start():mt.end()], "after": head + f" ... {i} += 1; }}"})
    return text[:mt.start()] + head + text[bo + 1:bc] + f"    {i} += 1;\n        " + text[bc:]


def r7_mut_self(text, log):
    """R7: `fn f(mut self, ..) {B}` -> `fn f(self, ..) {let mut this = self; B[self:=this]}`"""
    m = L.mask(text)
    mt = re.search(r"\(\s*mut\s+self\b", m)
    if not mt:
        raise Lost("R7: no `mut self` parameter")
    text = text[:mt.start()] + "(self" + text[mt.end():]
    bo, bc = fn_body_open(text)
    m = L.mask(text)
    body = text[bo + 1:bc]
    mb = m[bo + 1:bc]
    out, last = [], 0
    for x in re.finditer(r"\bself\b", mb):
        out.append(body[last:x.start()])
        out.append("this")
        last = x.end()
    out.append(body[last:])
    log.append({"rule": "R7-mut-self", "before": "mut self", "after": "self; let mut this = self; (self -> this in body)"})
    return text[:bo + 1] + "\n        let mut this = self;" + "".join(out) + text[bc:]


def r0_named_return(text, log, name="r"):
    """R0: `fn f(..) -> T {` -> `fn f(..) -> (r: T) {` (Verus names the result in the signature)."""
    m = L.mask(text)
    mt = re.search(r"\bfn\s+\w+", m)
    if not mt:
        raise Lost("R0: no fn")
    k = mt.end()
    while m[k].isspace():
        k += 1
    if m[k] == "<":
        depth = 0
        while True:
            if m[k] == "<":
                depth += 1
            elif m[k] == ">" and m[k - 1] != "-":
                depth -= 1
                if depth == 0:
                    break
            k += 1
        k += 1
    po = m.index("(", k)
    pc = L.match_close(m, po)
    bo = L.depth0_find(m, pc + 1, len(m), "{;")
    arrow = m.find("->", pc, bo)
    if arrow < 0:
        raise Lost("R0: fn has no return type")
    wh = re.search(r"\bwhere\b", m[arrow:bo])
    end = arrow + wh.start() if wh else bo
    ty = text[arrow + 2:end].strip()
    log.append({"rule": "R0-named-return", "before": "-> " + ty, "after": f"-> ({name}: {ty})"})
    return text[:arrow] + f"-> ({name}: {ty}) " + text[end:]


def r4_format(text, log):
    """R4: `format!(..)` -> `opaque_string()` (message text only; arguments are Display adaptors)."""
    n = 0
    while True:
        m = L.mask(text)
        mt = re.search(r"\b(?:bumpalo::)?format!\s*\(", m)
        if not mt:
            break
        close = L.match_close(m, mt.end() - 1)
        log.append({"rule": "R4-format", "before": text[mt.start():close + 1], "after": "opaque_string()"})
        text = text[:mt.start()] + "opaque_string()" + text[close + 1:]
        n += 1
    if n == 0:
        raise Lost("R4: no format! found")
    return text


def r12_unreachable(text, log):
    """R12: `unreachable!(..)` -> `unreached()` (vstd: requires false), i.e. unreachability becomes an obligation."""
    n = 0
    while True:
        m = L.mask(text)
        mt = re.search(r"\bunreachable!\s*\(", m)
        if not mt:
            break
        close = L.match_close(m, mt.end() - 1)
        log.append({"rule": "R12-unreachable", "before": text[mt.start():close + 1], "after": "unreached()"})
        text = text[:mt.start()] + "unreached()" + text[close + 1:]
        n += 1
    if n == 0:
        raise Lost("R12: no unreachable! found")
    return text


def r6_for_enumerate(text, log):
    """R6: `for (I, X) in V.iter().enumerate() {B}` -> `for I in 0..V.len() { let X = &V[I]; B }`"""
    m = L.mask(text)
    mt = re.search(r"\bfor\s*\(\s*(\w+)\s*,\s*(\w+)\s*\)\s*in\s*([\w.]+)\.iter\(\)\.enumerate\(\)\s*\{", m)
    if not mt:
        raise Lost("R6: no `for (i, x) in V.iter().enumerate()` loop")
    i, x, v = mt.group(1), mt.group(2), mt.group(3)
    new = f"for {i} in 0..{v}.len() {{ let {x} = &{v}[{i}];"
    log.append({"rule": "R6-for-enumerate", "before": text[mt.start():mt.end()], "after": new})
    return text[:mt.start()] + new + text[mt.end():]


def r10_drop_loop(text, log):
    """R10: `for P in X.iter_mut() {B}` where B only assigns through P is replaced by
    one exec division per `A / B` in the body (so the divisor obligations stay) plus `havoc_loop_target(X)`."""
    m = L.mask(text)
    mt = re.search(r"\bfor\s+(\w+)\s+in\s+(\w+)\.iter_mut\(\)\s*\{", m)
    if not mt:
        raise Lost("R10: no `for p in X.iter_mut()` loop")
    p, x = mt.group(1), mt.group(2)
    bo = mt.end() - 1
    bc = L.match_close(m, bo)
    body, mbody = text[bo + 1:bc], m[bo + 1:bc]
    # assignments must go through the loop variable (let-bindings are fine)
    for am in re.finditer(r"(?m)^\s*([\w.\[\]*]+)\s*=[^=]", mbody):
        if not am.group(1).startswith(p + "."):
            raise Lost(f"R10: loop body assigns to {am.group(1)!r}, not through {p}")
    fields = sorted({am.group(1) for am in re.finditer(r"(?m)^\s*([\w.\[\]*]+)\s*=[^=]", mbody)})
    divs = re.findall(r"\(\s*([\w.]+)\s*/\s*([\w.]+)\s*\)", mbody)
    for a, b in divs:
        if a.split(".")[0] == p or b.split(".")[0] == p:
            raise Lost("R10: division operand depends on the loop variable")
    obl = "".join(f"        let _ = {a} / {b};   // R10: divisor obligation kept\n" for a, b in divs)
    new = "{\n" + obl + f"        havoc_loop_target({x});   // R10: loop body dropped; it assigns only {fields}\n    }}"
    log.append({"rule": "R10-drop-loop", "before": text[mt.start():bc + 1], "after": new})
    return text[:mt.start()] + new + text[bc + 1:]


def r12_debug_assert(text, log):
    """R12: `debug_assert!(COND, msg..)` -> `require_true(COND)` (exec fn with `requires b`): the assertion becomes an obligation."""
    n = 0
    while True:
        m = L.mask(text)
        mt = re.search(r"\bdebug_assert!\s*\(", m)
        if not mt:
            break
        close = L.match_close(m, mt.end() - 1)
        comma = L.depth0_find(m, mt.end(), close, ",")
        cond = text[mt.end():comma if comma > 0 else close].strip()
        log.append({"rule": "R12-debug-assert", "before": text[mt.start():close + 1], "after": f"require_true({cond})"})
        text = text[:mt.start()] + f"require_true({cond})" + text[close + 1:]
        n += 1
    if n == 0:
        raise Lost("R12: no debug_assert! found")
    return text


def r16_drop_methods(text, log, names):
    """R16: drop the named methods (with bodies) from a trait / impl; they are glue outside the verified kernel."""
    for nm in names:
        m = L.mask(text)
        mt = re.search(r"\bfn\s+" + re.escape(nm) + r"\b", m)
        if not mt:
            raise Lost(f"R16: method {nm} not found")
        k = L.depth0_find(m, mt.end(), len(m), "{;")
        end = L.match_close(m, k) + 1 if m[k] == "{" else k + 1
        start = text.rfind("\n", 0, mt.start()) + 1
        log.append({"rule": "R16-drop-method", "before": f"fn {nm} (default method)", "after": ""})
        text = text[:start] + text[end:]
    return text


def r14_all(text, log):
    """R14: a fn whose whole body is `X.iter().all(|PAT| C)` becomes the std definition of Iterator::all as a loop:
    `for kv__ in it: X.iter() { let PAT = kv__; if !(C) { return false; } } true`."""
    bo, bc = fn_body_open(text)
    m = L.mask(text)
    body = text[bo + 1:bc]
    mt = re.fullmatch(r"\s*([\w.]+)\.iter\(\)\.all\(\|(.+?)\|\s*(.+)\)\s*", body, re.S)
    if not mt:
        raise Lost("R14: body is not a single `X.iter().all(|PAT| C)` expression")
    x, pat, cond = mt.group(1), mt.group(2).strip(), mt.group(3).strip()
    new = f"\n        for kv__ in it: {x}.iter() {{\n            let {pat} = kv__;\n            if !({cond}) {{\n                return false;\n            }}\n        }}\n        true\n    "
    log.append({"rule": "R14-all", "before": body.strip(), "after": new.strip()})
    return text[:bo + 1] + new + text[bc:]


def r11_closure(text, log, spec):
    """R11: give the closure bound by `let NAME = |params| BODY;` typed parameters and a requires/ensures clause.
    The parameter names must be the ones the contract was written for (else lost anchor)."""
    m = L.mask(text)
    mt = re.search(r"\blet\s+" + re.escape(spec["name"]) + r"\s*=\s*\|", m)
    if not mt:
        raise Lost(f"R11: closure `{spec['name']}` not found")
    p0 = mt.end()
    p1 = m.index("|", p0)
    names = [x.split(":")[0].strip() for x in text[p0:p1].split(",") if x.strip()]
    want = [n for n, _ in spec["params"]]
    if names != want:
        raise Lost(f"R11: closure `{spec['name']}` has parameters {names}, contract written for {want}")
    end = L.depth0_find(m, p1 + 1, len(m), ";")
    if end < 0:
        raise Lost("R11: closure end not found")
    body = text[p1 + 1:end].strip()
    # a typed closure may already carry `-> T`: drop it, the contract names the result
    body = re.sub(r"^->\s*[\w<>:]+\s*", "", body)
    typed = ", ".join(f"{n}: {t}" for n, t in spec["params"])
    head = f"|{typed}| -> ({spec['ret']})\n"
    if spec.get("requires"):
        head += f"            requires {spec['requires']},\n"
    head += f"            ensures {spec['ensures']},\n        "
    log.append({"rule": "R11-closure-spec", "before": text[mt.end() - 1:p1 + 1], "after": head.strip()})
    return text[:mt.end() - 1] + head + "{ " + body + " }" + text[end:]


def r25_hashmap_iter_mut(text, log):
    """R25: `for (K, V) in M.iter_mut() {B}` over a HashMap with Copy values ->
    `let keys__ = hashmap_keys(&M); let mut i__ = 0; while i__ < keys__.len() { let K = &keys__[i__];
     let mut V__ = *M.get(K).unwrap(); B[*V := V__, V.f( := V__.f(, V op= := V__ op=]; M.insert(*K, V__); i__ += 1; }`
    (B must not contain `continue`/`break` and must use V only as `*V`, `V.method(`, `V op= ..`: checked).
    ASSUMED: iter_mut visits every entry exactly once and gives access to the value only."""
    m = L.mask(text)
    mt = re.search(r"\bfor\s*\(\s*(\w+)\s*,\s*(mut\s+)?(\w+)\s*\)\s*in\s*([\w.]+)\.iter_mut\(\)\s*\{", m)
    if not mt:
        raise Lost("R25: no `for (k, v) in M.iter_mut()` loop")
    k, v, mp = mt.group(1), mt.group(3), mt.group(4)
    if k == "_":
        k = "k__"
    bo = mt.end() - 1
    bc = L.match_close(m, bo)
    body, mbody = text[bo + 1:bc], m[bo + 1:bc]
    if re.search(r"\b(continue|break)\b", mbody):
        raise Lost("R25: loop body contains continue/break")
    out, last = [], 0
    for x in re.finditer(r"(\*\s*)?\b" + re.escape(v) + r"\b", mbody):
        after = mbody[x.end():x.end() + 4]
        deref = x.group(1) is not None
        if deref or after.startswith(".") or re.match(r"\s*[-+*/]=", after):
            out.append(body[last:x.start()]); out.append(v + "__"); last = x.end()
        else:
            raise Lost(f"R25: loop variable {v} used in an unsupported way near {body[max(0, x.start() - 20):x.end() + 20]!r}")
    out.append(body[last:])
    head = (f"let keys__ = hashmap_keys(&{mp}); let mut i__: usize = 0;\n        while i__ < keys__.len() {{ let {k} = &keys__[i__]; "
            f"let mut {v}__ = *{mp}.get({k}).unwrap(); {{")
    tail = f"    }};\n            {mp}.insert(*{k}, {v}__); i__ += 1;\n        "
    log.append({"rule": "R25-hashmap-iter-mut", "before": text[mt.start():mt.end()], "after": head + " ... " + tail.strip() + " }"})
    return text[:mt.start()] + head + "".join(out) + tail + text[bc:]


def r25b_hashmap_into_iter(text, log):
    """R25b: `for (K, V) in M {B}` consuming a HashMap with Copy keys/values ->
    `let entries__ = hashmap_into_entries(M); let mut i__ = 0; while i__ < entries__.len() { let K = entries__[i__].0; let V = entries__[i__].1; B; i__ += 1; }`
    ASSUMED: into_iter yields every entry exactly once."""
    m = L.mask(text)
    mt = re.search(r"\bfor\s*\(\s*(\w+)\s*,\s*(\w+)\s*\)\s*in\s*([\w.]+)\s*\{", m)
    if not mt:
        raise Lost("R25b: no `for (k, v) in M` loop")
    k, v, mp = mt.group(1), mt.group(2), mt.group(3)
    bo = mt.end() - 1
    bc = L.match_close(m, bo)
    if re.search(r"\b(continue|break)\b", m[bo:bc]):
        raise Lost("R25b: loop body contains continue/break")
    head = (f"let entries__ = hashmap_into_entries({mp}); let mut i__: usize = 0;\n        while i__ < entries__.len() {{ "
            f"let {k} = entries__[i__].0; let {v} = entries__[i__].1;")
    log.append({"rule": "R25b-hashmap-into-iter", "before": text[mt.start():mt.end()], "after": head + " ... i__ += 1; }"})
    return text[:mt.start()] + head + text[bo + 1:bc] + "    i__ += 1;\n        " + text[bc:]


def r25c_hashmap_retain(text, log):
    """R25c: `M.retain(|_, V| COND);` over a HashMap with Copy values ->
    `let keys__ = hashmap_keys(&M); let mut i__ = 0; while i__ < keys__.len() { let k__ = &keys__[i__];
     let v__ = *M.get(k__).unwrap(); let V = &v__; if !(COND) { M.remove(k__); } i__ += 1; }`
    ASSUMED: retain visits every entry exactly once and removes exactly those for which the closure returns false."""
    m = L.mask(text)
    mt = re.search(r"([\w.]+)\.retain\(\s*\|\s*_\s*,\s*(\w+)\s*\|", m)
    if not mt:
        raise Lost("R25c: no `M.retain(|_, v| ..)` call")
    mp, v = mt.group(1), mt.group(2)
    po = m.index("(", mt.start(0) + len(mp))
    pc = L.match_close(m, po)
    cond = text[mt.end():pc].strip()
    semi = m.index(";", pc)
    new = (f"let keys__ = hashmap_keys(&{mp}); let mut i__: usize = 0;\n        while i__ < keys__.len() {{ let k__ = &keys__[i__]; "
           f"let v__ = *{mp}.get(k__).unwrap(); let {v} = &v__;\n            if !({cond}) {{ {mp}.remove(k__); }}\n            i__ += 1;\n        }}")
    log.append({"rule": "R25c-hashmap-retain", "before": text[mt.start():semi + 1], "after": new})
    return text[:mt.start()] + new + text[semi + 1:]


def r25d_amount_iter(text, log):
    """R25d: `for V in A.iter() {B}` over `Amount::iter()` -> `let items__ = amount_items(A); let mut i__ = 0;
    while i__ < items__.len() { let V = items__[i__]; B; i__ += 1; }`.  ASSUMED: Amount::iter yields `A.iter_listing()`:
    every commodity of the amount exactly once as a SingleAmount (Amount::iter is tied to the proved Amount::sorted_values
    by a textual anchor in group `determinism`)."""
    m = L.mask(text)
    mt = re.search(r"\bfor\s+(\w+)\s+in\s+(\w+)\.iter\(\)\s*\{", m)
    if not mt:
        raise Lost("R25d: no `for v in A.iter()` loop")
    v, a = mt.group(1), mt.group(2)
    bo = mt.end() - 1
    bc = L.match_close(m, bo)
    if re.search(r"\b(continue|break)\b", m[bo:bc]):
        raise Lost("R25d: loop body contains continue/break")
    head = f"let items__ = amount_items({a}); let mut i__: usize = 0;\n    while i__ < items__.len() {{ let {v} = items__[i__];"
    log.append({"rule": "R25d-amount-iter", "before": text[mt.start():mt.end()], "after": head + " ... i__ += 1; }"})
    return text[:mt.start()] + head + text[bo + 1:bc] + "    i__ += 1;\n    " + text[bc:]


def r26_forward_ref_op(text, log):
    """R26: a binding `let [mut] N = ...or_insert(..)/or_default();` is a `&mut Decimal`; `N op= X;` on it forwards to
    `*N op= X;` (rust_decimal implements OpAssign<Decimal> for &mut Decimal by forwarding).  The binding name is taken
    from the code, not from the rule."""
    m = L.mask(text)
    names = [mt.group(1) for mt in re.finditer(r"\blet\s+(?:mut\s+)?(\w+)\s*=[^;]*\.(?:or_insert\([^;]*\)|or_default\(\))\s*;", m)]
    if not names:
        raise Lost("R26: no binding to an entry's value found")
    n = 0
    for name in names:
        text, k = _sub_logged(text, r"(?<![\w*.])" + re.escape(name) + r"(\s*[-+*/]=)", "*" + name + r"\1", "R26-forward-ref-op", log)
        n += k
    if n == 0:
        raise Lost("R26: no `N op= X` on an entry binding")
    return text


def r27_entry_match(text, log):
    """R27: `match M.entry(K) { [hash_map::]Entry::Occupied([mut] E) => A, [hash_map::]Entry::Vacant(F) => B }` where the arms
    use the entries only as `E.get()` and `E.insert(X);` / `F.insert(X);` (value of insert discarded) ->
    `match M.get(&(K)) { Some(E) => A[E.get() := E, E.insert(X) := M.insert(K, X)], None => B[F.insert(X) := M.insert(K, X)] }`.
    ASSUMED (std entry API): Occupied iff K is present; `get()` is the present value; both `insert`s store X under K."""
    m = L.mask(text)
    mt = re.search(r"\bmatch\s+(\w+)\.entry\(", m)
    if not mt:
        raise Lost("R27: no `match M.entry(K) {`")
    mp = mt.group(1)
    po = mt.end() - 1
    pc = L.match_close(m, po)
    key = text[po + 1:pc].strip()
    bo = m.index("{", pc)
    if m[pc + 1:bo].strip():
        raise Lost("R27: unexpected text between `entry(K)` and `{`")
    bc = L.match_close(m, bo)
    body = text[bo:bc + 1]
    mb = m[bo:bc + 1]
    occ = re.search(r"(?:\w+::)*Entry::Occupied\((?:mut\s+)?(\w+)\)\s*=>", mb)
    vac = re.search(r"(?:\w+::)*Entry::Vacant\((\w+)\)\s*=>", mb)
    if not occ or not vac or len(re.findall(r"=>", re.sub(r"<=|>=|==", "  ", mb))) < 2:
        raise Lost("R27: arms are not `Entry::Occupied(e) => ..` and `Entry::Vacant(e) => ..`")
    e, f = occ.group(1), vac.group(1)
    before = text[mt.start():bc + 1]
    body = body[:occ.start()] + "Some(" + e + ") =>" + body[occ.end():] if occ.start() < vac.start() else body
    # redo on the rewritten text, arm by arm (positions moved)
    mb = L.mask(body)
    vac = re.search(r"(?:\w+::)*Entry::Vacant\((\w+)\)\s*=>", mb)
    body = body[:vac.start()] + "None =>" + body[vac.end():]
    body, n_get = re.subn(r"\b" + re.escape(e) + r"\.get\(\)", e, body)
    n_ins = 0
    for name in {e, f}:
        while True:
            mb = L.mask(body)
            mi = re.search(r"\b" + re.escape(name) + r"\.insert\(", mb)
            if not mi:
                break
            ic = L.match_close(mb, mi.end() - 1)
            if not re.match(r"\s*;", mb[ic + 1:]):
                raise Lost("R27: the value of `insert` on an entry is used")
            body = body[:mi.start()] + f"{mp}.insert({key}, " + body[mi.end():]
            n_ins += 1
    mb = L.mask(body)
    left = [x for x in (e, f) if re.search(r"\b" + re.escape(x) + r"\s*\.", mb)]
    if left:
        raise Lost(f"R27: entry binding {left[0]} is used other than through get() / insert(..);")
    if n_ins == 0:
        raise Lost("R27: no insert through the entry")
    after = f"match {mp}.get(&({key})) " + body
    log.append({"rule": "R27-entry-match", "before": before, "after": after, "assumed": "std entry API: Occupied iff present; get() = present value; insert stores under K"})
    return text[:mt.start()] + after + text[bc + 1:]


def r28_nested_entry_binding(text, log):
    """R28: `let PAT: &mut _ = RECV.entry(K1).or_default().entry(K2).or_insert(INIT);  REST` (PAT a tuple-struct pattern of plain
    names, REST the remainder of the function body, using the names only as `*name` or `name.method(..)`) ->
    take the inner map out (or an empty one), take the slot out (or INIT), bind PAT by value, run REST with `*name` := `name`,
    put the slot and the inner map back under the same keys.
    ASSUMED (std entry API): `entry(k).or_default()` / `.or_insert(v)` is a mutable reference to the value stored under k,
    storing `Default::default()` (an empty HashMap) / `v` first when k is absent."""
    m = L.mask(text)
    mt = re.search(r"\blet\s+(\w+)\(([\w\s,]*)\)\s*:\s*&mut\s+_\s*=\s*", m)
    if not mt:
        raise Lost("R28: no `let PAT: &mut _ = ..` binding")
    ctor = mt.group(1)
    names = [x.strip() for x in mt.group(2).split(",") if x.strip()]
    semi = m.index(";", mt.end())
    chain = re.sub(r"\s+", "", m[mt.end():semi])
    cm = re.fullmatch(r"([\w.]+)\.entry\((.*?)\)\.or_default\(\)\.entry\((.*?)\)\.or_insert\((.*)\)", chain)
    if not cm:
        raise Lost("R28: the bound expression is not `R.entry(K1).or_default().entry(K2).or_insert(INIT)`")
    raw = re.sub(r"\s+", " ", text[mt.end():semi]).replace(" .", ".").strip()
    rm = re.fullmatch(r"([\w.]+)\.entry\((.*?)\)\.or_default\(\)\.entry\((.*?)\)\.or_insert\((.*)\)", raw)
    recv, k1, k2, init = rm.group(1), rm.group(2), rm.group(3), rm.group(4)
    # REST: up to the closing brace of the enclosing block
    depth, end = 0, None
    for i in range(semi + 1, len(m)):
        if m[i] == "{":
            depth += 1
        elif m[i] == "}":
            if depth == 0:
                end = i
                break
            depth -= 1
    if end is None:
        raise Lost("R28: enclosing block not found")
    rest = text[semi + 1:end]
    for nm in names:
        rest = re.sub(r"\*\s*" + re.escape(nm) + r"\b", nm, rest)
        if re.search(r"(?<![\w.])" + re.escape(nm) + r"\s*=[^=]", L.mask(rest).replace(nm + " = ", nm + " = ", 1)) and False:
            pass
    if re.search(r"\breturn\b", L.mask(rest)):
        raise Lost("R28: `return` after the entry binding")
    head = (f"let mut inner__ = match {recv}.remove(&({k1})) {{ Some(m__) => m__, None => HashMap::new() }};\n"
            f"        let slot__ = match inner__.remove(&({k2})) {{ Some(e__) => e__, None => {init} }};\n"
            f"        let {ctor}({', '.join('mut ' + n for n in names)}) = slot__;")
    tail = (f"        inner__.insert({k2}, {ctor}({', '.join(names)}));\n"
            f"        {recv}.insert({k1}, inner__);\n    ")
    log.append({"rule": "R28-nested-entry-binding", "before": text[mt.start():semi + 1],
                "after": head + " ..; " + tail.strip(), "assumed": "std entry API: or_default / or_insert give the slot under the key, storing the default / the given value first when absent"})
    return text[:mt.start()] + head + rest.rstrip() + "\n" + tail + text[end:]


def r29_entry_or_insert_with(text, log):
    """R29: `M.entry(K).or_insert_with(|| E)` (M a place expression, K of Copy parts) ->
    `{ if !M.contains_key(&K) { let v__ = E; M.insert(K, v__); } M.get(&K).unwrap() }` (shared reference: the result must not be
    written through - checked: it is only followed by `.get(`).
    ASSUMED (std entry API): or_insert_with evaluates the closure and stores its value only when K is absent, and gives the value under K."""
    m = L.mask(text)
    mt = re.search(r"([\w.]+?)\s*\.entry\(", re.sub(r"\s+(?=\.)", lambda x: " " * len(x.group(0)), m))
    mt = re.search(r"((?:\w+\s*\.\s*)*\w+)\s*\.\s*entry\(", m)
    if not mt:
        raise Lost("R29: no `M.entry(K)`")
    recv = re.sub(r"\s+", "", mt.group(1))
    po = mt.end() - 1
    pc = L.match_close(m, po)
    key = text[po + 1:pc].strip()
    mo = re.match(r"\s*\.\s*or_insert_with\(\s*\|\|", m[pc + 1:])
    if not mo:
        raise Lost("R29: `entry(K)` is not followed by `.or_insert_with(|| ..)`")
    oo = pc + 1 + m[pc + 1:].index("(", 0)
    oc = L.match_close(m, oo)
    clos = text[oo + 1:oc].strip()
    body = clos[clos.index("||") + 2:].strip()
    if not re.match(r"\s*\.\s*get\(", m[oc + 1:]):
        raise Lost("R29: the entry value is used other than through `.get(..)`")
    after = f"{{ if !{recv}.contains_key(&{key}) {{ let v__ = {body}; {recv}.insert({key}, v__); }} {recv}.get(&{key}).unwrap() }}"
    log.append({"rule": "R29-entry-or-insert-with", "before": re.sub(r"\s+", " ", text[mt.start():oc + 1]), "after": after,
                "assumed": "std entry API: or_insert_with runs the closure and stores its value only when the key is absent"})
    return text[:mt.start()] + after + text[oc + 1:]


def r30_flat_map_filter_map(text, log):
    """R30: `for (A, B) in RECV.iter().flat_map(|A| { A.F.iter().filter_map(move |B| { if COND { return None; } Some((A, B)) }) }) {BODY}` ->
    `for ti__ in 0..RECV.len() { let A = &RECV[ti__]; for pi__ in 0..A.F.len() { let B = &A.F[pi__]; if !(COND) {BODY} } }`
    (the std definitions of flat_map / filter_map: outer elements in order, inner elements in order, only those for which the
    closure returns Some; BODY without continue/break: checked).  Nothing is lost."""
    m = L.mask(text)
    mt = re.search(r"\bfor\s*\(\s*(\w+)\s*,\s*(\w+)\s*\)\s*in\s*([\w.]+)\s*\.iter\(\)\s*\.flat_map\(", m)
    if not mt:
        raise Lost("R30: no `for (a, b) in X.iter().flat_map(..)` loop")
    a, b, recv = mt.group(1), mt.group(2), mt.group(3)
    po = mt.end() - 1
    pc = L.match_close(m, po)
    inner = re.sub(r"\s+", " ", m[po + 1:pc]).strip()
    raw = re.sub(r"\s+", " ", text[po + 1:pc]).strip()
    rx = (r"\|" + a + r"\| \{ " + a + r"\.([\w.]+)\.iter\(\)\.filter_map\(move \|" + b + r"\| \{ if (.+?) \{ return None; \} Some\(\(" + a + ", " + b + r"\)\) \}\) \}")
    norm = lambda t: re.sub(r"\s*\.\s*", ".", t)
    im = re.fullmatch(rx, norm(inner))
    if not im:
        raise Lost("R30: the flat_map closure is not `|a| { a.F.iter().filter_map(move |b| { if COND { return None; } Some((a, b)) }) }`")
    rm = re.fullmatch(rx, norm(raw))
    field, cond = rm.group(1), rm.group(2)
    bo = L.depth0_find(m, pc + 1, len(m), "{")
    if bo < 0 or m[pc + 1:bo].strip():
        raise Lost("R30: unexpected text between the iterator expression and the loop body")
    bc = L.match_close(m, bo)
    if re.search(r"\b(continue|break)\b", m[bo:bc]):
        raise Lost("R30: loop body contains continue/break")
    head = (f"for ti__ in 0..{recv}.len() {{ let {a} = &{recv}[ti__];\n            for pi__ in 0..{a}.{field}.len() {{ let {b} = &{a}.{field}[pi__];\n            if !({cond}) {{")
    log.append({"rule": "R30-flat-map-filter-map", "before": re.sub(r"\s+", " ", text[mt.start():bo + 1]), "after": head + " ... } } }"})
    return text[:mt.start()] + head + text[bo + 1:bc] + "} } }" + text[bc + 1:]


def r6b_for_tuple_in_vec(text, log, vec):
    """R6b: `for (A, B) in V {BODY}` over a Vec of Copy pairs -> `for i__ in 0..V.len() { let (A, B) = V[i__]; BODY }`"""
    m = L.mask(text)
    mt = re.search(r"\bfor\s*\(\s*(\w+)\s*,\s*(\w+)\s*\)\s*in\s*" + re.escape(vec) + r"\s*\{", m)
    if not mt:
        raise Lost(f"R6b: no `for (a, b) in {vec}` loop")
    a, b = mt.group(1), mt.group(2)
    bo = mt.end() - 1
    bc = L.match_close(m, bo)
    if re.search(r"\b(continue|break)\b", m[bo:bc]):
        raise Lost("R6b: loop body contains continue/break")
    head = f"for i__ in 0..{vec}.len() {{ let ({a}, {b}) = {vec}[i__];"
    log.append({"rule": "R6b-for-tuple-in-vec", "before": text[mt.start():mt.end()], "after": head + " ... }"})
    return text[:mt.start()] + head + text[bo + 1:]


def r25e_values_mut(text, log):
    """R25e: `for V in M.values_mut() { V.f(ARGS); }` over a HashMap with Copy keys -> key snapshot; each value is taken out,
    the method is run on it, and it is put back under its key:
    `let keys__ = hashmap_keys(&M); let mut i__ = 0; while i__ < keys__.len() { let k__ = keys__[i__]; let mut V = M.remove(&k__).unwrap(); V.f(ARGS); M.insert(k__, V); i__ += 1; }`
    ASSUMED: values_mut visits every value exactly once and gives access to the value only."""
    m = L.mask(text)
    mt = re.search(r"\bfor\s+(\w+)\s+in\s+([\w.]+)\.values_mut\(\)\s*\{", m)
    if not mt:
        raise Lost("R25e: no `for v in M.values_mut()` loop")
    v, mp = mt.group(1), mt.group(2)
    bo = mt.end() - 1
    bc = L.match_close(m, bo)
    body = text[bo + 1:bc].strip()
    if not re.fullmatch(re.escape(v) + r"\.\w+\([^;{}]*\);", L.mask(body).strip()):
        raise Lost("R25e: loop body is not a single method call on the value")
    new = (f"let keys__ = hashmap_keys(&{mp}); let mut i__: usize = 0;\n        while i__ < keys__.len() {{ let k__ = keys__[i__]; let mut {v} = {mp}.remove(&k__).unwrap();\n"
           f"            {body}\n            {mp}.insert(k__, {v}); i__ += 1;\n        }}")
    log.append({"rule": "R25e-values-mut", "before": re.sub(r"\s+", " ", text[mt.start():bc + 1]), "after": new,
                "assumed": "values_mut visits every value exactly once"})
    return text[:mt.start()] + new + text[bc + 1:]


def r34b_map_transpose_try(text, log):
    """R34b: every `X.map(|P| E).transpose()?` (X an Option, E a Result) -> `match X { Some(P) => Some(E?), None => None }`
    (the std definitions of Option::map and Option::transpose followed by `?`).  The receiver X is the expression that starts
    after the preceding `=` of the statement (checked: the statement is `let N = X.map(..).transpose()?;`)."""
    n = 0
    while True:
        m = L.mask(text)
        mt = re.search(r"\blet\s+(\w+)\s*=\s*", m)
        found = None
        for mt in re.finditer(r"\blet\s+(\w+)\s*=\s*", m):
            semi = L.depth0_find(m, mt.end(), len(m), ";")
            if semi < 0:
                continue
            stmt = m[mt.end():semi]
            mm = re.search(r"\.map\(", stmt)
            if not mm or not re.search(r"\)\s*\.transpose\(\)\s*\?\s*$", stmt):
                continue
            found = (mt, semi, mm)
            break
        if not found:
            break
        mt, semi, mm = found
        recv = text[mt.end():mt.end() + mm.start()].strip()
        po = mt.end() + mm.end() - 1
        pc = L.match_close(m, po)
        clos = text[po + 1:pc].strip()
        cm = re.match(r"\|\s*(\w+)\s*\|\s*", clos)
        if not cm or not re.fullmatch(r"\s*\.transpose\(\)\s*\?\s*", m[pc + 1:semi]):
            raise Lost("R34b: not `X.map(|p| E).transpose()?`")
        pat, body = cm.group(1), clos[cm.end():].strip()
        after = f"let {mt.group(1)} = match {recv} {{ Some({pat}) => Some({body}?), None => None }}"
        log.append({"rule": "R34b-map-transpose-try", "before": re.sub(r"\s+", " ", text[mt.start():semi]), "after": after})
        text = text[:mt.start()] + after + text[semi:]
        n += 1
    if n == 0:
        raise Lost("R34b: no `let N = X.map(|p| E).transpose()?;` statement")
    return text


def r20s_let_try_into(text, log):
    """R20s: `let N: T = CHAIN.try_into()?;` -> `let N: T = T::try_from(CHAIN)?;` (std blanket impl of TryInto; the target type is the
    one the `let` is annotated with).  At least one such statement must exist."""
    n = 0
    while True:
        m = L.mask(text)
        mt = re.search(r"\blet\s+(\w+)\s*:\s*(\w+)\s*=\s*", m)
        found = None
        for mt in re.finditer(r"\blet\s+(\w+)\s*:\s*(\w+)\s*=\s*", m):
            semi = L.depth0_find(m, mt.end(), len(m), ";")
            if semi < 0:
                continue
            tail = re.search(r"\s*\.\s*try_into\(\)\s*\?\s*$", m[mt.end():semi])
            if tail:
                found = (mt, semi, tail)
                break
        if not found:
            break
        mt, semi, tail = found
        chain = re.sub(r"\s+", " ", text[mt.end():mt.end() + tail.start()]).replace(" .", ".").strip()
        after = f"let {mt.group(1)}: {mt.group(2)} = {mt.group(2)}::try_from({chain})?"
        log.append({"rule": "R20s-let-try-into", "before": re.sub(r"\s+", " ", text[mt.start():semi]), "after": after})
        text = text[:mt.start()] + after + text[semi:]
        n += 1
    if n == 0:
        raise Lost("R20s: no `let N: T = CHAIN.try_into()?;` statement")
    return text



def _split_top_commas(text, m):
    parts, depth, last = [], 0, 0
    for k, ch in enumerate(m):
        if ch in "([{":
            depth += 1
        elif ch in ")]}":
            depth -= 1
        elif ch == "," and depth == 0:
            parts.append(text[last:k]); last = k + 1
    parts.append(text[last:])
    return [x.strip() for x in parts if x.strip()]


def r40_write(text, log):
    """R50: `write!(F, "lit{}lit{:>w$}", a, b, w = E)` / `writeln!(..)` -> the sequence of sink operations the macro stands for
    (std: format_args! pieces are sent to the sink in order, stopping at the first error):
        { put_str(F, "lit")?; put_display(F, &(a))?; put_str(F, "lit")?; put_padded_right(F, b, E)?; .. last }
    Only `{}` (Display) and `{:>NAME$}` (right-aligned in width NAME) placeholders are in the catalogue; anything else is a lost anchor.
    Every literal piece is preceded by `proof { reveal_strlit("lit"); }` so that its characters are known to the verifier."""
    n = 0
    while True:
        m = L.mask(text)
        mt = re.search(r"\b(write|writeln)!\s*\(", m)
        if not mt:
            break
        close = L.match_close(m, mt.end() - 1)
        inner, minner = text[mt.end():close], m[mt.end():close]
        args = _split_top_commas(inner, minner)
        if len(args) < 1:
            raise Lost("R50: write! without sink")
        sink = args[0]
        fmt = args[1] if len(args) > 1 else '""'
        if not re.fullmatch(r'"(?:[^"\\]|\\.)*"', fmt):
            raise Lost(f"R50: format string is not a plain literal: {fmt!r}")
        body = fmt[1:-1]
        pos, named = [], {}
        for a in args[2:]:
            nm = re.match(r"(\w+)\s*=(?!=)\s*(.*)", a, re.S)
            if nm:
                named[nm.group(1)] = nm.group(2)
            else:
                pos.append(a)
        ops, lit, k, ai = [], "", 0, 0
        def flush():
            nonlocal lit
            if lit:
                ops.append(("lit", lit)); lit = ""
        while k < len(body):
            c = body[k]
            if c == "{" and body[k + 1:k + 2] == "{":
                lit += "{"; k += 2
            elif c == "}" and body[k + 1:k + 2] == "}":
                lit += "}"; k += 2
            elif c == "{":
                e = body.index("}", k)
                spec = body[k + 1:e]
                flush()
                if ai >= len(pos):
                    raise Lost("R50: more placeholders than arguments")
                if spec == "":
                    ops.append(("disp", pos[ai]))
                else:
                    sm = re.fullmatch(r":>(\w+)\$", spec)
                    if not sm or sm.group(1) not in named:
                        raise Lost(f"R50: placeholder {{{spec}}} outside the catalogue")
                    ops.append(("padr", pos[ai], named[sm.group(1)]))
                ai += 1; k = e + 1
            elif c == "\\":
                lit += body[k:k + 2]; k += 2
            else:
                lit += c; k += 1
        if mt.group(1) == "writeln":
            lit += "\\n"
        flush()
        if ai != len(pos):
            raise Lost("R50: unused positional arguments")
        stm = []
        for op in ops:
            if op[0] == "lit":
                stm.append(f'{{ proof {{ reveal_strlit("{op[1]}"); }} put_str({sink}, "{op[1]}") }}')
            elif op[0] == "disp":
                stm.append(f"put_display({sink}, &({op[1]}))")
            else:
                stm.append(f"put_padded_right({sink}, {op[1]}, {op[2]})")
        if not stm:
            stm = [f'put_str({sink}, "")']
        out = "{ " + " ".join(x + "?;" for x in stm[:-1]) + " " + stm[-1] + " }"
        log.append({"rule": "R50-write", "before": text[mt.start():close + 1], "after": out})
        text = text[:mt.start()] + out + text[close + 1:]
        n += 1
    if n == 0:
        raise Lost("R50: no write! found")
    return text


STRUCTURAL = {"R11c": r11_closure, "R14": r14_all, "R16m": r16_drop_methods, "R12d": r12_debug_assert, "R5": r5_for_bytes, "R7": r7_mut_self, "R0": r0_named_return, "R4": r4_format, "R12": r12_unreachable,
              "R6": r6_for_enumerate, "R10": r10_drop_loop, "R25": r25_hashmap_iter_mut, "R25b": r25b_hashmap_into_iter, "R25c": r25c_hashmap_retain, "R25d": r25d_amount_iter, "R26": r26_forward_ref_op, "R27": r27_entry_match, "R28": r28_nested_entry_binding, "R29": r29_entry_or_insert_with,
              "R30": r30_flat_map_filter_map, "R34b": r34b_map_transpose_try, "R20s": r20s_let_try_into, "R6b": r6b_for_tuple_in_vec, "R25e": r25e_values_mut, "R50": r40_write}


def apply_rewrites(text, rewrites, log):
    for rw in rewrites:
        if len(rw) == 1:
            text = STRUCTURAL[rw[0]](text, log)
            continue
        if len(rw) == 2 and rw[0] in STRUCTURAL:
            text = STRUCTURAL[rw[0]](text, log, rw[1])
            continue
        rule, pat, repl = rw[0], rw[1], rw[2]
        count = rw[3] if len(rw) > 3 else 1
        if pat.startswith("re:"):
            new, n = _sub_logged(text, pat[3:], repl, rule, log)
        else:
            n = text.count(pat)
            new = text.replace(pat, repl)
            if n:
                log.append({"rule": rule, "before": pat, "after": repl, "times": n})
        if count == "opt":
            # optional statement: absent is not a lost anchor, the contract then has to hold without it
            if n > 1:
                raise Lost(f"rewrite {rule}: pattern {pat!r} matched {n} times, expected at most 1")
            text = new
            continue
        if count is not None and n != count:
            raise Lost(f"rewrite {rule}: pattern {pat!r} matched {n} times, expected {count}")
        if count is None and n == 0:
            raise Lost(f"rewrite {rule}: pattern {pat!r} did not match")
        text = new
    return text


def fn_body_open(text, fn_name=None):
    m = L.mask(text)
    rx = r"\bfn\s+" + (re.escape(fn_name) if fn_name else r"\w+") + r"\b"
    mt = re.search(rx, m)
    if not mt:
        raise Lost(f"fn {fn_name} not found for contract splice")
    k = L.depth0_find(m, mt.end(), len(m), "{;")
    if k < 0 or m[k] != "{":
        raise Lost("fn body not found")
    return k, L.match_close(m, k)


def splice(text, unit):
    """contract / loop invariants / proof inserts.  Returns text."""
    # 1. proof inserts at literal anchors (done first: anchors are repo text)
    for ins in unit.get("inserts", []):
        where, anchor, occ, add = ins
        idxs = [mt.start() for mt in re.finditer(re.escape(anchor), text)]
        if len(idxs) <= occ:
            raise Lost(f"insert anchor {anchor!r}#{occ} not found")
        at = idxs[occ] if where == "before" else idxs[occ] + len(anchor)
        text = text[:at] + add + text[at:]
    # 2. loop contracts by ordinal (n-th loop keyword inside the fn body): invariant before the body brace,
    #    proof text right after the body's opening brace, proof text right after the loop
    loops = unit.get("loops", {})
    lstart = unit.get("loop_body_start", {})
    lafter = unit.get("after_loop", {})
    lend = unit.get("loop_body_end", {})
    for ordinal in sorted(set(loops) | set(lstart) | set(lafter) | set(lend), reverse=True):
        bo, bc = fn_body_open(text, unit.get("fn"))
        m = L.mask(text)
        kws = [mt for mt in LOOP_RE.finditer(m, bo, bc)]
        if len(kws) <= ordinal:
            raise Lost(f"loop #{ordinal} not found")
        k = L.depth0_find(m, kws[ordinal].end(), bc, "{")
        if k < 0:
            raise Lost(f"loop #{ordinal}: no body brace")
        kc = L.match_close(m, k)
        if ordinal in lafter:
            text = text[:kc + 1] + "\n" + lafter[ordinal].rstrip() + "\n" + text[kc + 1:]
        if ordinal in lend:
            text = text[:kc] + "\n" + lend[ordinal].rstrip() + "\n" + text[kc:]
        if ordinal in lstart:
            text = text[:k + 1] + "\n" + lstart[ordinal].rstrip() + "\n" + text[k + 1:]
        if ordinal in loops:
            text = text[:k] + "\n" + loops[ordinal].rstrip() + "\n" + text[k:]
    # proof text after the n-th top-level `if ... {} else {}` statement of the fn body (ordinal anchor)
    for ordinal in sorted(unit.get("after_top_if", {}), reverse=True):
        bo, bc = fn_body_open(text, unit.get("fn"))
        m = L.mask(text)
        tops, depth, k = [], 0, bo + 1
        while k < bc:
            ch = m[k]
            if ch in "{([":
                depth += 1
            elif ch in "})]":
                depth -= 1
            elif depth == 0 and m.startswith("if", k) and not (m[k - 1].isalnum() or m[k - 1] == "_") and not (m[k + 2].isalnum() or m[k + 2] == "_"):
                # skip `else if` continuations
                if not re.search(r"\belse\s*$", m[bo:k]):
                    tops.append(k)
            k += 1
        if len(tops) <= ordinal:
            raise Lost(f"top-level if #{ordinal} not found")
        k = tops[ordinal]
        while True:
            b = L.depth0_find(m, k, bc, "{")
            e = L.match_close(m, b)
            nxt = re.match(r"\s*else\b", m[e + 1:bc])
            if not nxt:
                break
            k = e + 1 + nxt.end()
        text = text[:e + 1] + "\n" + unit["after_top_if"][ordinal].rstrip() + "\n" + text[e + 1:]
    if unit.get("body_start"):
        bo, _ = fn_body_open(text, unit.get("fn"))
        text = text[:bo + 1] + "\n" + unit["body_start"].rstrip() + "\n" + text[bo + 1:]
    # 3. fn contract
    if unit.get("contract"):
        bo, _ = fn_body_open(text, unit.get("fn"))
        text = text[:bo] + "\n" + unit["contract"].rstrip() + "\n" + text[bo:]
    return text


def extract_unit(repo, unit, log, canary=False):
    try:
        return _extract_unit(repo, unit, log, canary)
    except Lost as e:
        raise Lost(f"unit {unit['name']}: {e}")


def _extract_unit(repo, unit, log, canary=False):
    path = f"{repo}/{unit['file']}"
    try:
        src = open(path, encoding="utf-8").read()
    except OSError as e:
        raise Lost(f"cannot read {unit['file']}: {e}")
    try:
        m = L.mask(src)
        s, b, e = locate(src, m, unit["path"])
    except L.LexError as ex:
        raise Lost(f"lexer: {ex}")
    if unit.get("part") == "body":
        text = src[b + 1:e - 1]
    else:
        text = src[s:e]
    ulog = []
    if unit.get("slice"):
        # call-site slice: one expression cut out of the located item and wrapped into a fn of its free variables
        mm = text if unit.get("slice_raw") else L.mask(text)
        hits = [x for x in re.finditer(unit["slice"], mm)]
        occ = unit.get("slice_occurrence", 0)
        if unit.get("slice_count") is not None and len(hits) != unit["slice_count"]:
            raise Lost(f"slice /{unit['slice']}/ matched {len(hits)} times, expected {unit['slice_count']}")
        if len(hits) <= occ:
            raise Lost(f"slice /{unit['slice']}/ occurrence {occ} not found")
        if hits[occ].re.groups and unit.get("slice_groups") == "all":
            # several statements of one block, with what lies between them (logging, look-ups handed in as parameters) left out
            expr = "\n    ".join(text[hits[occ].start(g):hits[occ].end(g)] for g in range(1, hits[occ].re.groups + 1))
        elif hits[occ].re.groups:
            expr = text[hits[occ].start(1):hits[occ].end(1)]
        else:
            st = hits[occ].start()
            if mm[hits[occ].end() - 1] == "{":
                # statement slice: `match X {..}` / `if X {..}` up to its closing brace
                en = L.match_close(mm, hits[occ].end() - 1) + 1
            else:
                k = mm.index("(", st)
                en = L.match_close(mm, k) + 1
            expr = text[st:en]
        ulog.append({"rule": "R17-callsite-slice", "before": f"<{unit['path'][-1]}>", "after": expr})
        if unit.get("slice_template"):
            text = unit["slice_template"].replace("{EXPR}", expr)
        else:
            text = unit["slice_header"] + " {\n    " + expr + "\n}"
    try:
        text = auto_rules(text, ulog, unit.get("lifetimes", "erase"))
        text = apply_rewrites(text, unit.get("rewrites", []), ulog)
        if unit.get("reveal_literals"):
            # R53: the characters of every string literal of the unit are made known to the verifier (`reveal_strlit`, a proof-only statement at the top of the body)
            mm0 = L.mask(text)
            lits = []
            for lm in re.finditer(r'"(?:[^"\\]|\\.)*"', text):
                if mm0[lm.start()] == '"' and lm.group(0) not in lits and not text[max(0, lm.start() - 14):lm.start()].endswith("reveal_strlit("):
                    lits.append(lm.group(0))
            if lits:
                bo0, _ = fn_body_open(text, unit.get("fn"))
                ins = " proof { " + " ".join(f"reveal_strlit({x});" for x in lits) + " }\n"
                text = text[:bo0 + 1] + ins + text[bo0 + 1:]
                ulog.append({"rule": "R53-reveal-literals", "before": "", "after": ins.strip()})
        if unit.get("pub_fields") or re.match(r"\s*pub struct\b", text):
            # R2-vis: private fields made `pub` (visibility only; needed for lemmas in a sibling module)
            text, n = re.subn(r"(?m)^(\s*)(?!pub\b)(\w+\s*:\s)", r"\1pub \2", text)
            tm = re.match(r"\s*pub struct \w+\s*(<[^>]*>)?\s*\(", text)
            if tm:
                mm = L.mask(text)
                po = tm.end() - 1
                pc = L.match_close(mm, po)
                parts, depth, last = [], 0, po + 1
                for k in range(po + 1, pc):
                    if mm[k] in "(<[":
                        depth += 1
                    elif mm[k] in ")>]":
                        depth -= 1
                    elif mm[k] == "," and depth == 0:
                        parts.append(text[last:k]); last = k + 1
                parts.append(text[last:pc])
                parts = [(" pub " + x.strip()) if x.strip() and not x.strip().startswith("pub") else x for x in parts]
                text = text[:po + 1] + ",".join(parts) + text[pc:]
                n += len(parts)
            ulog.append({"rule": "R2-vis", "before": "private fields", "after": f"pub ({n} fields)"})
        if unit.get("opaque"):
            # R16: body dropped, signature kept (assumed contract, L1)
            bo, bc = fn_body_open(text, unit.get("fn"))
            ulog.append({"rule": "R16-opaque-body", "before": "<body of %s>" % unit["name"], "after": "unimplemented!()"})
            text = text[:bo] + "{ unimplemented!() }" + text[bc + 1:]
            text = re.sub(r"\(\s*mut\s+self\b", "(self", text, count=1)
            mm = L.mask(text)
            fm = re.search(r"\bfn\s+" + (re.escape(unit["fn"]) if unit.get("fn") else r"\w+") + r"\b", mm)
            ls = text.rfind("\n", 0, fm.start()) + 1
            text = text[:ls] + "#[verifier::external_body]\n" + text[ls:]
        u = dict(unit)
        if canary:
            u["contract"] = canary_contract(unit["contract"])
            fn = unit.get("fn") or re.search(r"\bfn\s+(\w+)", L.mask(text)).group(1)
            text, n = re.subn(r"\bfn\s+" + re.escape(fn) + r"\b", "fn " + fn + "__canary", text, count=1)
            u["fn"] = fn + "__canary"
            if unit.get("canary_rlimit"):
                # a large function with many exits: the solver may search long before giving up on `false`; running out of the
                # stated resource limit is as good as a failure for a vacuity canary (what must not happen is that it VERIFIES)
                mm = L.mask(text)
                fm = re.search(r"\bfn\s+" + re.escape(fn) + r"__canary\b", mm)
                ls = text.rfind("\n", 0, fm.start()) + 1
                text = text[:ls] + f"#[verifier::rlimit({unit['canary_rlimit']})]\n" + text[ls:]
        text = splice(text, u)
    except L.LexError as ex:
        raise Lost(f"lexer: {ex}")
    pre, post = unit.get("wrap", ("", ""))
    if unit.get("derive"):
        ulog.append({"rule": "R2-derive", "before": "<derive list dropped by R2-attr>", "after": f"#[derive({unit['derive']})]"})
        pre = pre + f"\n#[derive({unit['derive']})]"

    if not canary:
      log.append({"unit": unit["name"], "file": unit["file"], "path": unit["path"],
                "source_lines": [src.count("\n", 0, s) + 1, src.count("\n", 0, e) + 1],
                "rules": ulog})
    tag = " (CANARY copy)" if canary else ""
    return f"// ---- unit {unit['name']}{tag} from {unit['file']} ----\n{pre}\n{text}\n{post}\n"


def canary_contract(contract):
    """vacuity canary: same requires, `ensures false`.  Must FAIL to verify."""
    c = contract.rstrip()
    # cut ensures..(up to decreases/opens_invariants/end) and replace by ensures false
    mt = re.search(r"(?m)^\s*ensures\b", c)
    dec = re.search(r"(?m)^\s*(decreases|no_unwind|opens_invariants)\b", c)
    tail = c[dec.start():] if dec and (not mt or dec.start() > mt.start()) else ""
    head = c[:mt.start()] if mt else (c[:dec.start()] if dec else c)
    return head.rstrip() + "\n    ensures false, // CANARY\n" + tail


def can_canary(repo, unit):
    """canary copies are renamed fns: only free fns / inherent methods (not items of a trait impl)"""
    if unit.get("slice"):
        return True
    last = unit["path"][-1]
    return "fn" in last and not re.search(r"\bimpl\b.*\bfor\b", unit["path"][0] if len(unit["path"]) > 1 and not unit.get("wrap") else "")
