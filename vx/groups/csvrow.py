"""C16: the statements of csv::import that build the transaction of one row (account amount, balance assertion, pending mark),
checked against the real Txn setters (proved in group `camt`, bodies dropped here)."""
from ._amount_units import U, RET, opaque
from . import camt as _camt
CSV = "cli/src/import/csv.rs"
_parts = _camt.GROUP["parts"]
_cut = next(i for i, p in enumerate(_parts) if p[0] == "unit" and p[1]["name"].startswith("callsite:import."))
_later = [p for p in _parts[_cut:] if p[0] == "unit" and p[1]["name"] in ("Txn::transferred_amount", "Txn::add_charge")]
TXN_PARTS = _parts[:_cut] + _later

GROUP = {
    "name": "csvrow",
    "uses": _camt.GROUP["uses"],
    "parts": [
        *opaque(TXN_PARTS),
        ("raw", """
/// extract::Fragment as csv::import reads it (code and counter account come from the rewrite rules)
pub struct RowFragment { pub cleared: bool, pub payee: Option<&'static str>, pub account: Option<&'static str>, pub code: Option<&'static str> }
"""),
        U("callsite:csv::import.row_transaction", CSV, [r"pub fn import<R: std::io::Read>"], fn="row_txn", no_canary=True,
          slice=r"(let mut txn = single_entry::Txn::new\([^;]*;)\s*(txn\s*\.code_option\([^;]*;)", slice_count=1, slice_raw=True, slice_groups="all",
          rewrites=[("R1-path", "single_entry::Txn::new(", "Txn::new(", 1), ("R9-cow-str", "commodity.clone().into_owned()", "string_clone(commodity)", 1)],
          slice_template="""fn row_txn(date: NaiveDate, payee: &str, amount: Decimal, commodity: &String, fragment: &RowFragment) -> (txn: Txn)
    ensures
        // C16: the imported transaction moves the configured account by the row's (signed) amount, in the row's commodity, on the row's date;
        //      no balance assertion and no transferred amount unless the row has the columns for them (set by the statements that follow)
        txn.amount.value == amount, txn.amount.commodity@ == commodity@, txn.date == date,   // @csv.import.account_moves_by_the_row_amount
        txn.balance is None, txn.transferred_amount is None, txn.charges@.len() == 0,
        txn.dest_account is Some <==> fragment.account is Some,
{
    {EXPR}
    txn
}"""),
        U("callsite:csv::import.running_balance", CSV, [r"pub fn import<R: std::io::Read>"], fn="row_balance", no_canary=True,
          slice=r"(if let Some\(b\) = balance \{\s*txn\.balance\([^;]*;\s*\})", slice_count=1, slice_raw=True,
          rewrites=[("R9-cow-str", "commodity.clone().into_owned()", "string_clone(commodity)", 1)],
          slice_template="""fn row_balance(txn: &mut Txn, balance: Option<Decimal>, commodity: &String)
    ensures
        // C16: a running-balance column becomes the balance assertion of the account posting - exactly the column's value, in the row's commodity;
        //      no column (or an empty cell) = no assertion; nothing else about the transaction changes
        balance matches Some(b) ==> (final(txn).balance matches Some(x) && x.value == b && x.commodity@ == commodity@),   // @csv.import.running_balance_becomes_the_assertion
        balance is None ==> final(txn).balance == old(txn).balance,
        final(txn).amount == old(txn).amount, final(txn).date == old(txn).date, final(txn).transferred_amount == old(txn).transferred_amount,
{
    {EXPR}
}"""),
        U("callsite:csv::import.pending_unless_cleared", CSV, [r"pub fn import<R: std::io::Read>"], fn="row_pending", no_canary=True,
          slice=r"(if !fragment\.cleared \{\s*txn\.clear_state\(syntax::ClearState::Pending\);\s*\})", slice_count=1, slice_raw=True,
          slice_template="""fn row_pending(txn: &mut Txn, fragment: &RowFragment)
    ensures
        final(txn).clear_state == (if fragment.cleared { old(txn).clear_state } else { Some(syntax::ClearState::Pending) }),   // @csv.import.pending_unless_cleared
        final(txn).amount == old(txn).amount, final(txn).balance == old(txn).balance,
{
    {EXPR}
}"""),
        U("callsite:csv::import.charge_included", CSV, [r"pub fn import<R: std::io::Read>"], fn="row_charge", no_canary=True,
          slice=r"Some\(value\) if !value\.is_zero\(\) => \{\s*(txn\.add_charge\([^;]*;)", slice_count=1, slice_raw=True,
          rewrites=[("R9-cow-str", "commodity.clone().into_owned()", "string_clone(commodity)", 1)],
          slice_template="""fn row_charge(txn: &mut Txn, payee: &String, value: Decimal, commodity: &String)
    ensures
        // a charge column adds a charge posting and leaves the account posting (amount, assertion) as it is
        final(txn).amount == old(txn).amount, final(txn).balance == old(txn).balance, final(txn).transferred_amount == old(txn).transferred_amount,   // @csv.import.charge_leaves_the_account_posting
        final(txn).charges@.len() == old(txn).charges@.len() + 1, final(txn).charges@.last().amount.value == value,
{
    {EXPR}
}"""),
    ],
}
