"""C16: the statements of csv::import that build the transaction of one row (account amount, balance assertion, pending mark),
checked against the real Txn setters (proved in group `camt`, bodies dropped here)."""
from ._amount_units import U, RET, opaque
from . import camt as _camt
CSV = "cli/src/import/csv.rs"
_parts = _camt.GROUP["parts"]
_cut = next(i for i, p in enumerate(_parts) if p[0] == "unit" and p[1]["name"].startswith("callsite:import."))
_later = [p for p in _parts[_cut:] if p[0] == "unit" and p[1]["name"] in ("Txn::transferred_amount", "Txn::add_charge")]
TXN_PARTS = _parts[:_cut] + _later

GROUP = {
    "name": "csvrow",
    "uses": _camt.GROUP["uses"],
    "parts": [
        *opaque(TXN_PARTS),
        ("text", "std_gaps_option.rs"),
        ("raw", """
/// extract::Fragment as csv::import reads it (code and counter account come from the rewrite rules)
pub struct RowFragment { pub cleared: bool, pub payee: Option<&'static str>, pub account: Option<&'static str>, pub code: Option<&'static str> }
"""),
        U("callsite:csv::import.row_transaction", CSV, [r"pub fn import<R: std::io::Read>"], fn="row_txn", no_canary=True,
          slice=r"((?:let \w+ = [^;]*;\s*)?)(let mut txn = single_entry::Txn::new\([^;]*;)\s*(txn\s*\.code_option\([^;]*;)", slice_count=1, slice_raw=True, slice_groups="all",
          rewrites=[("R1-path", "single_entry::Txn::new(", "Txn::new(", 1), ("R9-cow-str", "commodity.clone().into_owned()", "string_clone(commodity)", 1)],
          slice_template="""fn row_txn(date: NaiveDate, payee: &str, amount: Decimal, commodity: &String, fragment: &RowFragment) -> (txn: Txn)
    ensures
        // C16: the imported transaction moves the configured account by the row's (signed) amount, in the row's commodity, on the row's date;
        //      no balance assertion and no transferred amount unless the row has the columns for them (set by the statements that follow)
        txn.amount.value == amount, txn.amount.commodity@ == commodity@, txn.date == date,   // @csv.import.account_moves_by_the_row_amount
        txn.balance is None, txn.transferred_amount is None, txn.charges@.len() == 0,
        txn.dest_account is Some <==> fragment.account is Some,
{
    {EXPR}
    txn
}"""),
        U("callsite:csv::import.running_balance", CSV, [r"pub fn import<R: std::io::Read>"], fn="row_balance", no_canary=True,
          slice=r"(if let Some\(b\) = balance \{\s*txn\.balance\([^;]*;\s*\})", slice_count=1, slice_raw=True,
          rewrites=[("R9-cow-str", "commodity.clone().into_owned()", "string_clone(commodity)", 1)],
          slice_template="""fn row_balance(txn: &mut Txn, balance: Option<Decimal>, commodity: &String)
    ensures
        // C16: a running-balance column becomes the balance assertion of the account posting - exactly the column's value, in the row's commodity;
        //      no column (or an empty cell) = no assertion; nothing else about the transaction changes
        balance matches Some(b) ==> (final(txn).balance matches Some(x) && x.value == b && x.commodity@ == commodity@),   // @csv.import.running_balance_becomes_the_assertion
        balance is None ==> final(txn).balance == old(txn).balance,
        final(txn).amount == old(txn).amount, final(txn).date == old(txn).date, final(txn).transferred_amount == old(txn).transferred_amount,
{
    {EXPR}
}"""),
        U("callsite:csv::import.pending_unless_cleared", CSV, [r"pub fn import<R: std::io::Read>"], fn="row_pending", no_canary=True,
          slice=r"(if !fragment\.cleared \{\s*txn\.clear_state\(syntax::ClearState::Pending\);\s*\})", slice_count=1, slice_raw=True,
          slice_template="""fn row_pending(txn: &mut Txn, fragment: &RowFragment)
    ensures
        final(txn).clear_state == (if fragment.cleared { old(txn).clear_state } else { Some(syntax::ClearState::Pending) }),   // @csv.import.pending_unless_cleared
        final(txn).amount == old(txn).amount, final(txn).balance == old(txn).balance,
{
    {EXPR}
}"""),
        U("callsite:csv::import.charge_included", CSV, [r"pub fn import<R: std::io::Read>"], fn="row_charge", no_canary=True,
          slice=r"Some\(value\) if !value\.is_zero\(\) => \{\s*(txn\.add_charge\([^;]*;)", slice_count=1, slice_raw=True,
          rewrites=[("R9-cow-str", "commodity.clone().into_owned()", "string_clone(commodity)", 1)],
          slice_template="""fn row_charge(txn: &mut Txn, payee: &String, value: Decimal, commodity: &String)
    ensures
        // a charge column adds a charge posting and leaves the account posting (amount, assertion) as it is
        final(txn).amount == old(txn).amount, final(txn).balance == old(txn).balance, final(txn).transferred_amount == old(txn).transferred_amount,   // @csv.import.charge_leaves_the_account_posting
        final(txn).charges@.len() == old(txn).charges@.len() + 1, final(txn).charges@.last().amount.value == value,
{
    {EXPR}
}"""),
        # ---- the conversion block: which conversion applies, which commodity it converts into, which commodity the rate prices
        ("raw", "pub mod config2 {\nuse super::*;\n"),
        U("config::ConversionAmountMode", "cli/src/import/config.rs", [r"pub enum ConversionAmountMode\b"]),
        U("config::ConversionRateMode", "cli/src/import/config.rs", [r"pub enum ConversionRateMode\b"]),
        U("config::CommodityConversionSpec", "cli/src/import/config.rs", [r"pub struct CommodityConversionSpec\b"]),
        ("raw", "}\n"),
        U("CommodityPair(type)", "cli/src/import/single_entry.rs", [r"pub struct CommodityPair\b"]),

        ("raw", """
/// `opt.filter(|x| !x.disabled)` (std: Some only if the predicate holds)
pub fn keep_enabled(o: Option<&'static config2::CommodityConversionSpec>) -> (r: Option<&'static config2::CommodityConversionSpec>)
    ensures r == (match o { Some(x) => if !x.disabled { Some(x) } else { None::<&'static config2::CommodityConversionSpec> }, None => None }),
{
    match o { Some(x) => if !x.disabled { Some(x) } else { None }, None => None }
}
"""),
        U("callsite:csv::import.which_conversion", CSV, [r"pub fn import<R: std::io::Read>"], fn="which_conversion", no_canary=True, lifetimes="static",
          slice=r"(let default_conversion =\s*if [^;]*;\s*let conversion = fragment\s*\.conversion[^;]*;)", slice_count=1, slice_raw=True,
          rewrites=[("R17-free-var", "re:fragment\\s*\\.conversion\\b", "fragment_conversion", 1),
                    # `RECV.filter(|x| !x.disabled)` -> `keep_enabled(RECV)` (Option::filter with that predicate, std definition), wherever it stands in the chain
                    ("R34-option-filter", "re:let conversion = ([\\s\\S]*?)\\s*\\.filter\\(\\|x\\| !x\\.disabled\\)", "let conversion = keep_enabled(\\1)", 1)],
          slice_template="""fn which_conversion<'a>(rate: Option<Decimal>, secondary_amount: Option<Decimal>, secondary_commodity: Option<&'a str>,
    fragment_conversion: Option<&'a config2::CommodityConversionSpec>, default_conversion: &'a config2::CommodityConversionSpec) -> (conversion: Option<&'a config2::CommodityConversionSpec>)
    ensures
        // C16: a conversion applies when the matching rule carries one, else the account's default one - the latter only if the row has a rate,
        //      a secondary amount and a secondary commodity; a conversion flagged `disabled` means: no conversion (it does NOT fall back to another one)
        conversion == (match fragment_conversion {
            Some(c) => if c.disabled { None } else { Some(c) },
            None => if rate is Some && secondary_amount is Some && secondary_commodity is Some && !default_conversion.disabled { Some(default_conversion) } else { None },
        }),   // @csv.import.rule_conversion_else_default_disabled_means_none
{
    {EXPR}
    conversion
}"""),
        U("callsite:csv::import.target_commodity", CSV, [r"pub fn import<R: std::io::Read>"], fn="target_commodity", no_canary=True, lifetimes="static",
          slice=r"if let Some\(conv\) = conversion \{[\s\S]*?let secondary_commodity = ([^;]*?)\s*\.ok_or_else\(", slice_count=1, slice_raw=True,
          rewrites=[("R24-std-model", "conv.commodity.as_deref()", "opt_string_as_deref(&conv.commodity)", 1), ("R24-std-model", "secondary_commodity.as_deref()", "opt_string_as_deref(secondary_commodity)", 1)],
          slice_template="""fn target_commodity<'a>(conv: &'a config2::CommodityConversionSpec, secondary_commodity: &'a Option<String>) -> (r: Option<&'a str>)
    ensures
        // C16: the counter amount is in the commodity the conversion names; the row's secondary-commodity column only when it names none
        conv.commodity matches Some(c) ==> (r matches Some(x) && x@ == c@),   // @csv.import.conversion_commodity_wins_over_the_column
        conv.commodity is None ==> (match *secondary_commodity { Some(c) => r matches Some(x) && x@ == c@, None => r is None }),
{
    {EXPR}
}"""),
        U("callsite:csv::import.rate_direction", CSV, [r"pub fn import<R: std::io::Read>"], fn="rate_direction", no_canary=True,
          slice=r"let \(rate_key, computed_transferred\) = (match conv\.rate \{[\s\S]*?\n            \});", slice_count=1, slice_raw=True,
          rewrites=[("R9-cow-str", "commodity.into_owned()", "string_clone(commodity)", 2), ("R24-std-model", "secondary_commodity.to_owned()", "str_to_string(secondary_commodity)", 2),
                    ("R1-path", "config::ConversionRateMode::", "config2::ConversionRateMode::", 2)],
          slice_template="""fn rate_direction(conv: &config2::CommodityConversionSpec, commodity: &String, secondary_commodity: &str, amount: Decimal, rate: Decimal) -> (r: (CommodityPair, Decimal))
    requires rate.val() != 0real,   // NOT established by csv::import: a zero `rate` cell with `price_of_secondary` divides by zero (import is outside C06's list of commands; noted in DESIGN)
    ensures
        // C16: the stated rate is attached to the commodity it prices (CommodityPair.target; Txn::add_rate records `1 target = rate source`):
        //      price_of_secondary: 1 secondary = rate primary, the counter amount is amount / rate;
        //      price_of_primary:   1 primary = rate secondary, the counter amount is amount * rate
        conv.rate is PriceOfSecondary ==> (r.0.target@ == secondary_commodity@ && r.0.source@ == commodity@ && r.1.val() * rate.val() == amount.val()),   // @csv.import.price_of_secondary_prices_the_secondary_commodity
        conv.rate is PriceOfPrimary ==> (r.0.target@ == commodity@ && r.0.source@ == secondary_commodity@ && r.1.val() == amount.val() * rate.val()),       // @csv.import.price_of_primary_prices_the_primary_commodity
{
    {EXPR}
}"""),
        # ---- Txn::to_double_entry: where an unmatched record goes and when the counter-posting is pending (C17's last sentence; C16's counter-posting)
        ("raw", """
#[verifier::external_body]
pub fn opt_string_as_deref_or<'a>(o: &'a Option<String>, default: &'a str) -> (r: &'a str)
    ensures r@ == (match *o { Some(s) => s@, None => default@ }),
{ unimplemented!() }
"""),
        U("callsite:to_double_entry.counter_posting_state", "cli/src/import/single_entry.rs", [r"impl Txn\b", r"pub fn to_double_entry<'a>"], fn="counter_state", no_canary=True,
          slice=r"let post_clear = (self\.clear_state\.unwrap_or\([\s\S]*?\}\));", slice_count=1, slice_raw=True,
          rewrites=[("R17-free-var", "re:\\bself\\b", "this", None)],
          slice_template="""fn counter_state(this: &Txn) -> (r: syntax::ClearState)
    ensures
        // C17: an explicit state (the importer sets Pending when no matching account rule cleared the record) wins; otherwise the counter-posting
        //      is pending exactly when no rule assigned an account
        r == (match this.clear_state { Some(c) => c, None => if this.dest_account is Some { syntax::ClearState::Uncleared } else { syntax::ClearState::Pending } }),   // @to_double_entry.pending_unless_cleared_or_assigned
{
    {EXPR}
}"""),
        U("callsite:to_double_entry.unmatched_income", "cli/src/import/single_entry.rs", [r"impl Txn\b", r"pub fn to_double_entry<'a>"], fn="counter_account_in", no_canary=True,
          slice=r"if self\.amount\.value\.is_sign_positive\(\) \{[\s\S]*?syntax::Posting::new_untracked\(\s*(self\.dest_account\.as_deref\(\)\.unwrap_or\([^)]*\)),", slice_count=1, slice_raw=True,
          rewrites=[("R24-std-model", "re:self\\.dest_account\\.as_deref\\(\\)\\.unwrap_or\\(", "opt_string_as_deref_or(&this.dest_account, ", 1)],
          slice_template="""fn counter_account_in(this: &Txn) -> (r: &str)
    ensures
        // C17: money coming in that no account-assigning rule matched goes to Income:Unknown
        r@ == (match this.dest_account { Some(a) => a@, None => "Income:Unknown"@ }),   // @to_double_entry.unmatched_credit_goes_to_income_unknown
{
    {EXPR}
}"""),
        U("callsite:to_double_entry.unmatched_expense", "cli/src/import/single_entry.rs", [r"impl Txn\b", r"pub fn to_double_entry<'a>"], fn="counter_account_out", no_canary=True,
          slice=r"else if self\.amount\.value\.is_sign_negative\(\) \{[\s\S]*?syntax::Posting::new_untracked\(\s*(self\.dest_account\.as_deref\(\)\.unwrap_or\([^)]*\)),", slice_count=1, slice_raw=True,
          rewrites=[("R24-std-model", "re:self\\.dest_account\\.as_deref\\(\\)\\.unwrap_or\\(", "opt_string_as_deref_or(&this.dest_account, ", 1)],
          slice_template="""fn counter_account_out(this: &Txn) -> (r: &str)
    ensures
        // C17: money going out that no account-assigning rule matched goes to Expenses:Unknown
        r@ == (match this.dest_account { Some(a) => a@, None => "Expenses:Unknown"@ }),   // @to_double_entry.unmatched_debit_goes_to_expenses_unknown
{
    {EXPR}
}"""),
        # ---- Txn::add_rate / rate / to_posting_amount: the recorded rate is keyed by the commodity it prices and printed as the cost of a posting in THAT commodity
        U("callsite:Txn::add_rate.recorded_entry", "cli/src/import/single_entry.rs", [r"impl Txn\b", r"pub fn add_rate\b"], fn="rate_entry", no_canary=True,
          slice=r"match self\.rates\.insert\(\s*([^;]*?\}),\s*\) \{", slice_count=1, slice_raw=True,
          rewrites=[("R24-std-model", "key.target.clone()", "string_clone(&key.target)", 1), ("R24-std-model", "key.source.clone()", "string_clone(&key.source)", 1)],
          slice_template="""fn rate_entry(key: &CommodityPair, rate: Decimal) -> (r: (String, OwnedAmount))
    ensures
        // C16: `1 target = rate source` is recorded under the TARGET commodity - the commodity the rate prices
        r.0@ == key.target@, r.1.value == rate, r.1.commodity@ == key.source@,   // @Txn.add_rate.rate_is_recorded_under_the_commodity_it_prices
{
    ({EXPR})
}"""),
        U("anchor:Txn::rate looks the posting's commodity up", "cli/src/import/single_entry.rs", [r"impl Txn\b", r"fn rate\b"], no_canary=True,
          slice=r"(self\.rates\s*\.get\(target\)\s*\.map\(\|x\| syntax::Exchange::Rate\(as_syntax_amount\(x\)\.into\(\)\)\))", slice_count=1, slice_template="/* anchor: {EXPR} */\n"),
        U("anchor:a posting's cost is the rate recorded for its own commodity", "cli/src/import/single_entry.rs", [r"impl Txn\b", r"fn to_posting_amount<'a>"], no_canary=True,
          slice=r"(cost: self\.rate\(amount\.commodity\),)", slice_count=1, slice_template="/* anchor: {EXPR} */\n"),
    ],
}
