"""C04 (a): the date window of balance queries."""
F = "core/src/report/query.rs"

GROUP = {
    "name": "daterange",
    "uses": "use vstd::std_specs::cmp::*;\n",
    "parts": [
        ("text", "chrono.rs"),
        ("text", "commodity_stub.rs"),
        ("unit", {"name": "ConversionStrategy", "file": F, "path": [r"pub enum ConversionStrategy\b"], "derive": "PartialEq, Eq, Clone, Copy"}),
        ("unit", {"name": "Conversion", "file": F, "path": [r"pub struct Conversion\b"]}),
        ("unit", {"name": "DateRange", "file": F, "path": [r"pub struct DateRange\b"]}),
        ("unit", {"name": "BalanceQuery", "file": F, "path": [r"pub struct BalanceQuery\b"]}),
        ("text", "daterange_spec.rs"),
        ("unit", {
            "name": "DateRange::is_bypass", "file": F, "path": [r"impl DateRange\b", r"fn is_bypass\b"], "fn": "is_bypass",
            "wrap": ("impl DateRange {", "}"),
            "rewrites": [("R0-named-return", "-> bool", "-> (r: bool)", 1)],
            "contract": """
    ensures r == (self.start is None && self.end is None),   // @is_bypass.iff_unbounded
""",
        }),
        ("unit", {
            "name": "DateRange::contains", "file": F, "path": [r"impl DateRange\b", r"fn contains\b"], "fn": "contains",
            "wrap": ("impl DateRange {", "}"),
            "rewrites": [("R0-named-return", "-> bool", "-> (r: bool)", 1)],
            "contract": """
    ensures r == in_range(self.start, self.end, date),   // @contains.start_inclusive_end_exclusive
""",
        }),
        ("unit", {
            "name": "BalanceQuery::require_recompute", "file": F, "path": [r"impl BalanceQuery<'_>", r"fn require_recompute\b"], "fn": "require_recompute",
            "wrap": ("impl BalanceQuery {", "}"),
            "rewrites": [("R0-named-return", "-> bool", "-> (r: bool)", 1)],
            "contract": """
    ensures
        // the stored whole-history balance may be reused only for an unbounded window without per-posting conversion
        r == (self.date_range.start is Some || self.date_range.end is Some
              || (self.conversion matches Some(c) && c.strategy is Historical)),   // @require_recompute.iff_window_or_historical
""",
        }),
    ],
}
