"""C04: the running total `okane register` prints (the loop of RegisterCmd::run, cli/src/cmd.rs), as a statement slice."""
from ._amount_units import U, RET
from . import query as _q
CMD = "cli/src/cmd.rs"

def _upto(parts, last_text):
    out = []
    for p in parts:
        out.append(p)
        if p[0] == "text" and p[1] == last_text:
            return out
    raise KeyError(last_text)

GROUP = {
    "name": "registercmd",
    "uses": _q.GROUP["uses"],
    "broadcast": _q.GROUP["broadcast"],
    "parts": [
        *_upto(_q.GROUP["parts"], "register_listing.rs"),
        ("text", "fmt_model.rs"),
        ("text", "registercmd_spec.rs"),
        U("callsite:RegisterCmd::run.lines", CMD, [r"impl RegisterCmd\b", r"pub fn run<W>"], fn="register_lines",
          slice=r"let mut balance = report::Amount::default\(\);\s*for posting in postings \{", slice_count=1,
          rewrites=[("R50",),
                    ("R9-path", "report::Amount::default()", "Amount::default()", 1),
                    ("R6c-for-vec", "for posting in postings {", "for pi__ in 0..postings.len() { let posting = postings[pi__];", 1),
                    ("R24-display-adaptor", "re:(\\w+(?:\\.\\w+)?)\\.as_inline_display\\(\\)", "inline_display(&\\1)", 2),
                    ("R24-str-model", "posting.account.as_str()", "account_str(&posting.account)", 1)],
          loops={0: """
        invariant
            totals__.len() == pi__,
            w.text() == reg_lines(old(w).text(), refs_of(postings@), totals__, pi__ as int),   // @register.each_line_is_account_amount_running_total
            forall|c: Commodity| #![trigger mget(balance@, c)] #![trigger seq_sum(refs_of(postings@), pi__ as int, c)] mget(balance@, c) == seq_sum(refs_of(postings@), pi__ as int, c),   // @register.running_total_accumulates_every_listed_amount
            forall|i: int, c: Commodity| 0 <= i < pi__ ==> #[trigger] mget(totals__[i]@, c) == seq_sum(refs_of(postings@), i + 1, c),
"""},
          loop_body_start={0: "        let ghost totals_before__ = totals__; let ghost bal_before__ = balance@; proof { reveal_strlit(\" \"); reveal_strlit(\"\\n\"); assert(\" \"@ =~= seq![' ']); let nl = seq!['\\n']; assert(\"\\n\"@ =~= nl); }"},
          loop_body_end={0: """        proof {
            totals__ = totals__.push(balance);
            lemma_reg_lines_frame(old(w).text(), refs_of(postings@), totals_before__, totals__, pi__ as int);
            assert(refs_of(postings@)[pi__ as int] == *posting);
            assert(balance@ == madd(bal_before__, posting.amount@));   // @register.total_grows_by_the_posting_amount
            assert forall|c: Commodity| mget(balance@, c) == #[trigger] seq_sum(refs_of(postings@), pi__ as int + 1, c) by {
                assert(mget(balance@, c) == mget(bal_before__, c) + mget(posting.amount@, c));
                assert(mget(bal_before__, c) == seq_sum(refs_of(postings@), pi__ as int, c));
                assert(seq_sum(refs_of(postings@), pi__ as int + 1, c) == seq_sum(refs_of(postings@), pi__ as int, c) + mget(refs_of(postings@)[pi__ as int].amount@, c));
            }
        }"""},
          slice_template="""fn register_lines<W: fmt::Write>(postings: Vec<&Posting>, w: &mut W) -> (r: Result<Ghost<Seq<Amount>>, fmt::Error>)
    ensures
        // C04: the register prints, per listed posting and in the listed order, the account, the posting's amount and a running total, and that
        // running total is - per commodity - the sum of the amounts of the lines printed so far (this one included)
        r matches Ok(tot) ==> tot@.len() == postings@.len()
            && final(w).text() == reg_lines(old(w).text(), refs_of(postings@), tot@, postings@.len() as int),   // @register.one_line_per_listed_posting_in_order
        r matches Ok(tot) ==> forall|i: int, c: Commodity| 0 <= i < postings@.len() ==>
            #[trigger] mget(tot@[i]@, c) == seq_sum(refs_of(postings@), i + 1, c),   // @register.running_total_is_the_sum_of_the_lines_so_far
{
    let ghost mut totals__: Seq<Amount> = Seq::empty();
    {EXPR}
    Ok(Ghost(totals__))
}"""),
        U("anchor:RegisterCmd::run lists what Ledger::postings returns for the account argument", CMD, [r"impl RegisterCmd\b", r"pub fn run<W>"], no_canary=True,
          slice=r"(let postings = ledger\.postings\(\s*&ctx,\s*&query::PostingQuery \{\s*account: self\.account\.clone\(\),\s*\},\s*\);)", slice_count=1, slice_template="/* anchor: {EXPR} */\n"),
    ],
}
