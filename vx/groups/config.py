"""C17 (layered configuration, merge step): ConfigFragment::merge."""
from ._amount_units import U, RET
CFG = "cli/src/import/config.rs"
GROUP = {
    "name": "config",
    "parts": [
        ("text", "config_stub.rs"),
        ("text", "std_gaps_option.rs"),
        U("AccountType", CFG, [r"pub enum AccountType\b"], derive="Clone, Copy"),
        U("ConfigFragment(type)", CFG, [r"struct ConfigFragment\b"]),
        U("ConfigFragment::merge", CFG, [r"impl ConfigFragment\b", r"fn merge\b"], fn="merge", wrap=("impl ConfigFragment {", "}"),
          rewrites=[RET()],
          contract="""
        ensures
            // C17: the later (longer-path) document overrides scalar settings, rewrite rules are concatenated in that order
            r.path == other.path,
            r.encoding == (if other.encoding is Some { other.encoding } else { self.encoding }),               // @merge.later_overrides_encoding
            r.account == (if other.account is Some { other.account } else { self.account }),                  // @merge.later_overrides_account
            r.account_type == (if other.account_type is Some { other.account_type } else { self.account_type }),
            r.operator == (if other.operator is Some { other.operator } else { self.operator }),
            r.commodity == (if other.commodity is Some { other.commodity } else { self.commodity }),
            r.format == (if other.format is Some { other.format } else { self.format }),
            r.rewrite@ == self.rewrite@ + other.rewrite@,                                                      // @merge.rewrite_rules_concatenated_in_order
"""),
        # ---- ConfigSet::select_impl: which documents apply to a file, in which order, merged how
        U("ConfigSet(type)", CFG, [r"pub struct ConfigSet\b"], pub_fields=True),
        ("text", "select_stub.rs"),
        U("ConfigSet::select_impl::has_matches", CFG, [r"impl ConfigSet\b", r"fn select_impl\b", r"fn has_matches<'a>"], fn="has_matches",
          rewrites=[RET(), ("R1-keep-lifetime", "fn has_matches(", "fn has_matches<'a>(", 1), ("R1-keep-lifetime", "entry: &ConfigFragment,", "entry: &'a ConfigFragment,", 1),
                    ("R1-keep-lifetime", "Option<(usize, &ConfigFragment)>", "Option<(usize, &'a ConfigFragment)>", 1),
                    ("R24-str-model", "Some(ep) if fp.contains(ep) =>", "Some(ep) if str_contains(fp, ep) =>", 1),
                    ("R24-str-model", "Some((entry.path.len(), entry))", "Some((string_len(&entry.path), entry))", 1)],
          contract="""
    ensures
        // a document applies iff its `path` occurs in the file's path; it is kept with the length of its `path`
        r is Some <==> doc_matches(*entry, fp@),   // @select.document_applies_iff_its_path_occurs_in_the_file_path
        r matches Some(x) ==> x.0 == byte_len(entry.path@) && *x.1 == *entry,
"""),
        U("ConfigSet::select_impl", CFG, [r"impl ConfigSet\b", r"fn select_impl\b"], fn="select_impl", wrap=("impl ConfigSet {", "}"),
          rewrites=[RET(),
                    ("R17-hoist-nested-fn", "re:fn has_matches\\([^{]*\\{(?:[^{}]|\\{(?:[^{}]|\\{[^{}]*\\})*\\})*\\}\\s*", "", 1),
                    ("R35-filter-map-collect", "re:let mut (\\w+): Vec<\\(usize, &ConfigFragment\\)> = self\\s*\\.entries\\s*\\.iter\\(\\)\\s*\\.filter_map\\(\\|x\\| has_matches\\(x, fp\\)\\)\\s*\\.collect\\(\\);",
                     "let mut matched: Vec<(usize, &ConfigFragment)> = Vec::new(); let ghost mut pos__: Seq<int> = Seq::empty();\n        for i__ in 0..self.entries.len() { let x = &self.entries[i__]; match has_matches(x, fp) { Some(y__) => { matched.push(y__); proof { pos__ = pos__.push(i__ as int); } } None => {} } }", 1),
                    # the name the code gives the vector is irrelevant: the remaining statements are brought to the name the contract uses
                    ("R0-local-name", "re:\\b(?!matched\\b)(\\w+)\\.sort_by_key\\(\\|x\\| x\\.0\\);", "matched.sort_by_key(|x| x.0);", "opt"),
                    ("R0-local-name", "re:\\b(?!matched\\b)(\\w+)(\\s*\\.into_iter\\(\\)\\s*\\.fold\\(None,)", "matched\\2", "opt"),
                    ("R24-sort-by-key", "matched.sort_by_key(|x| x.0);", "let ghost pos0__ = pos__; let ghost matched0__ = matched@; let perm__ = sort_by_key_stable(&mut matched); proof { pos__ = Seq::new(pos0__.len(), |k: int| pos0__[perm__@[k]]); }", 1),
                    ("R36-fold", "re:matched\\s*\\.into_iter\\(\\)\\s*\\.fold\\(None, \\|res, item\\| match res \\{\\s*None => Some\\(item\\.1\\.clone\\(\\)\\),\\s*Some\\(prev\\) => Some\\(prev\\.merge\\(item\\.1\\.clone\\(\\)\\)\\),\\s*\\}\\)\\s*\\.map\\(\\|x\\| x\\.try_into\\(\\)\\)",
                     "{ let mut res: Option<ConfigFragment> = None;\n          for k__ in 0..matched.len() { let item = matched[k__]; res = match res { None => Some(item.1.clone()), Some(prev) => Some(prev.merge(item.1.clone())) }; }\n          match res { Some(x) => Some(config_entry_try_from(x)), None => None } }", 1)],
          contract="""
        ensures
            p.text() is None ==> r is None,
            // C17: the configuration in force is the merge of every document whose `path` occurs in the file's path, shortest `path` first
            //      (same length: document order); no document applies = no configuration
            p.text() matches Some(fp) ==> exists|s: Seq<(usize, &ConfigFragment)>, pos: Seq<int>, m: Option<ConfigFragment>|
                #[trigger] is_selection(s, self.entries@, fp, pos) && #[trigger] opt_fv(m) == merged(s, s.len() as int)
                && r == (match m { Some(x) => Some(entry_of(x)), None => None::<Result<ConfigEntry, ImportError>> }),   // @select.merge_of_the_applying_documents_shortest_path_first
""",
          loops={0: """
            invariant
                pos__.len() == matched@.len(),
                forall|k: int| 0 <= k < matched@.len() ==> 0 <= #[trigger] pos__[k] < i__ && *matched@[k].1 == self.entries@[pos__[k]]
                    && matched@[k].0 == byte_len(self.entries@[pos__[k]].path@) && doc_matches(self.entries@[pos__[k]], fp@),
                forall|i: int| 0 <= i < i__ && doc_matches(self.entries@[i], fp@) ==> exists|k: int| 0 <= k < matched@.len() && #[trigger] pos__[k] == i,
                forall|a: int, b: int| 0 <= a < b < matched@.len() ==> pos__[a] < pos__[b],
""", 1: """
            invariant opt_fv(res) == merged(matched@, k__ as int), k__ > 0 ==> res is Some,
"""},
          loop_body_end={0: """            proof {
                assert forall|i: int| 0 <= i < i__ + 1 && doc_matches(self.entries@[i], fp@) implies exists|k: int| 0 <= k < matched@.len() && #[trigger] pos__[k] == i by {
                    if i < i__ {
                        let k0 = choose|k: int| 0 <= k < pos_before__.len() && #[trigger] pos_before__[k] == i;
                        assert(pos__[k0] == i);
                    } else {
                        assert(pos__[matched@.len() - 1] == i);
                    }
                }
            }""",
                         1: """            proof {
                if k__ > 0 {
                    let prev = res_before__->Some_0;
                    assert(fv(res->Some_0).rewrite =~= merge_v(fv(prev), fv(*matched@[k__ as int].1)).rewrite);
                    assert(fv(res->Some_0) == merge_v(fv(prev), fv(*matched@[k__ as int].1)));
                }
            }"""},
          loop_body_start={0: "            let ghost pos_before__ = pos__;",
                           1: "            let ghost res_before__ = res;"},
          inserts=[("before", "match res { Some(x) => Some(config_entry_try_from(x)), None => None }", 0, """proof {
              assert forall|k: int| 0 <= k < matched@.len() implies 0 <= #[trigger] pos__[k] < self.entries@.len() && *matched@[k].1 == self.entries@[pos__[k]]
                    && matched@[k].0 == byte_len(self.entries@[pos__[k]].path@) && doc_matches(self.entries@[pos__[k]], fp@) by {
                  let j = perm__@[k];
                  assert(matched@[k] == matched0__[j]);
                  assert(pos__[k] == pos0__[j]);
              }
              assert forall|i: int, j: int| 0 <= i < j < matched@.len() implies (matched@[i].0 < matched@[j].0 || (matched@[i].0 == matched@[j].0 && pos__[i] < pos__[j])) by {
                  assert(pos__[i] == pos0__[perm__@[i]] && pos__[j] == pos0__[perm__@[j]]);
                  if perm__@[i] < perm__@[j] { assert(pos0__[perm__@[i]] < pos0__[perm__@[j]]); }
              }
              assert(pos__.len() == matched@.len());
              assert(forall|i: int| 0 <= i < self.entries@.len() && doc_matches(self.entries@[i], fp@) ==> exists|k: int| 0 <= k < matched@.len() && #[trigger] pos__[k] == i) by {
                  assert forall|i: int| 0 <= i < self.entries@.len() && doc_matches(self.entries@[i], fp@) implies exists|k: int| 0 <= k < matched@.len() && #[trigger] pos__[k] == i by {
                      let k0 = choose|k: int| 0 <= k < pos0__.len() && #[trigger] pos0__[k] == i;
                      assert(perm_hits(perm__@, k0));
                      let k = choose|k: int| 0 <= k < perm__@.len() && #[trigger] perm__@[k] == k0;
                      assert(pos__[k] == i);
                  }
              }
              assert(is_selection(matched@, self.entries@, fp@, pos__)) by {
                  assert forall|i: int| 0 <= i < self.entries@.len() && doc_matches(self.entries@[i], fp@) implies exists|k: int| 0 <= k < matched@.len() && #[trigger] pos__[k] == i by {
                      let k0 = choose|k: int| 0 <= k < pos0__.len() && #[trigger] pos0__[k] == i;
                      assert(perm_hits(perm__@, k0));
                      let k = choose|k: int| 0 <= k < perm__@.len() && #[trigger] perm__@[k] == k0;
                      assert(pos__[k] == i);
                  }
              }
          }
          """)]),
    ],
}
