"""C17 (layered configuration, merge step): ConfigFragment::merge."""
from ._amount_units import U, RET
CFG = "cli/src/import/config.rs"
GROUP = {
    "name": "config",
    "parts": [
        ("text", "config_stub.rs"),
        ("text", "std_gaps_option.rs"),
        U("AccountType", CFG, [r"pub enum AccountType\b"], derive="Clone, Copy"),
        U("ConfigFragment(type)", CFG, [r"struct ConfigFragment\b"]),
        U("ConfigFragment::merge", CFG, [r"impl ConfigFragment\b", r"fn merge\b"], fn="merge", wrap=("impl ConfigFragment {", "}"),
          rewrites=[RET()],
          contract="""
        ensures
            // C17: the later (longer-path) document overrides scalar settings, rewrite rules are concatenated in that order
            r.path == other.path,
            r.encoding == (if other.encoding is Some { other.encoding } else { self.encoding }),               // @merge.later_overrides_encoding
            r.account == (if other.account is Some { other.account } else { self.account }),                  // @merge.later_overrides_account
            r.account_type == (if other.account_type is Some { other.account_type } else { self.account_type }),
            r.operator == (if other.operator is Some { other.operator } else { self.operator }),
            r.commodity == (if other.commodity is Some { other.commodity } else { self.commodity }),
            r.format == (if other.format is Some { other.format } else { self.format }),
            r.rewrite@ == self.rewrite@ + other.rewrite@,                                                      // @merge.rewrite_rules_concatenated_in_order
"""),
    ],
}
