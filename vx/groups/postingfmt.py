"""C19: the whole `Display for WithContext<Posting>`: what a posting line consists of, and where its number ends."""
import copy
from ._amount_units import U, RET
from . import alignment as _a
from . import columns as _columns
D = "core/src/syntax/display.rs"
SY = "core/src/syntax.rs"
POSTING_HDR = r"impl<Deco: Decoration> fmt::Display for WithContext<'_, Posting<'_, Deco>>"

def _opaque_units(parts):
    out = []
    for kind, val in parts:
        if kind == "unit" and (val.get("fn") or "impl" in val["path"][-1]) and val.get("contract") is not None and "type" not in val["name"] and not val["name"].endswith("(trait)"):
            out.append((kind, dict(val, no_canary=True, body_start=None)))
        else:
            out.append((kind, val))
    return out

GROUP = {
    "name": "postingfmt",
    "features": ["allocator_api"],
    "uses": _a.GROUP["uses"],
    "broadcast": _a.GROUP["broadcast"],
    "parts": [
        *[p for p in _a.GROUP["parts"]],
        _a._part(_columns.GROUP, "get_column", no_canary=True),
        U("ClearState", SY, [r"pub enum ClearState\b"], derive="Clone, Copy"),
        ("text", "posting_fmt_stub.rs"),
        ("text", "posting_fmt_spec.rs"),
        ("text", "alignment_width.rs"),
        ("text", "posting_fmt_theorems.rs"),
        U("print_clear_state", D, [r"fn print_clear_state\b"], fn="print_clear_state", lifetimes="keep", reveal_literals=True, rewrites=[RET()],
          contract="""
    ensures r@ == clear_mark(v),   // @print_clear_state.mark_of_the_state
"""),
        U("Display for Posting", D, [POSTING_HDR], fn="fmt", lifetimes="keep", reveal_literals=True,
          rewrites=[RET(), ("R50",), ("R1-formatter", "fmt::Formatter<'_>", "fmt::Formatter", 1),
                    ("R31-gat-standin", "impl<Deco: Decoration> fmt::Display for WithContext<'_, Posting<'_, Deco>>", "impl WithContext<'_, Posting>", 1),
                    ("R24-str-model", "re:UnicodeWidthStr::width_cjk\\(([\\w.()]+?)\\.as_ref\\(\\)\\)", "UnicodeWidthStr::width_cjk(\\1.as_str())", 1),
                    ("R24-str-model", "re:\\bpost_clear\\.len\\(\\)", "str_byte_len(post_clear)", "opt"),
                    ("R6c-for-ref-vec", "for m in &post.metadata {", "for mi__ in 0..post.metadata.len() { let m = &post.metadata[mi__];", 1)],
          loops={0: """
            invariant
                f.text() == after_meta(posting_line(old(f).text(), *post, *self.context), post.metadata@, mi__ as int),   // @Posting.fmt.metadata_lines_indented_by_four_spaces
"""},
          body_start="""        proof {
            lemma_clear_mark_width(self.value.clear_state);
            if self.value.amount is Some { lemma_value_align_inside(self.value.amount->Some_0.amount.v, *self.context); }
            if self.value.balance is Some { lemma_value_align_inside(self.value.balance->Some_0.v, *self.context); lemma_abs_le_width(self.value.balance->Some_0.v, *self.context); }
            reveal_strlit("    "); reveal_strlit(" @ "); reveal_strlit(" @@ "); reveal_strlit(" ="); reveal_strlit(" "); reveal_strlit(""); reveal_strlit("\\n"); reveal_strlit("    ; ");
            assert("    "@ =~= seq![' ', ' ', ' ', ' ']); assert(" @ "@ =~= seq![' ', '@', ' ']); assert(" @@ "@ =~= seq![' ', '@', '@', ' ']);
            assert(" ="@ =~= seq![' ', '=']); assert(" "@ =~= seq![' ']); assert(""@ =~= Seq::<char>::empty());
            let nl = seq!['\\n']; assert("\\n"@ =~= nl); assert("    ; "@ =~= seq![' ', ' ', ' ', ' ', ';', ' ']);
        }""",
          inserts=[("before", "if let Some(amount) = &post.amount {", 0, "proof {\n            assert(f.text() == after_head(old(f).text(), *post));   // @Posting.fmt.starts_with_four_spaces_mark_account\n        }\n        "),
                   ("before", "if let Some(balance) = &post.balance {", 0, "proof {\n            assert(f.text() == after_amount(after_head(old(f).text(), *post), *post, *self.context));   // @Posting.fmt.amount_padded_to_its_column_then_lot_and_cost\n        }\n        "),
                   ("before", "for mi__ in 0..", 0, "proof {\n            assert(f.text() == posting_line(old(f).text(), *post, *self.context));   // @Posting.fmt.assertion_padded_like_after_an_amount\n        }\n        ")],
          contract="""
        requires posting_fits(*self.value, *self.context),
        ensures r is Ok ==> final(f).text() == posting_lines(old(f).text(), *self.value, *self.context),   // @Posting.fmt.line_is_indent_account_padding_amount_assertion
"""),
        # ---- entry separation (core/src/format.rs): one line end after every entry's own text
        U("callsite:FormatOptions::format.entry_separator", "core/src/format.rs", [r"impl FormatOptions\b", r"pub fn format<R, W>"], fn="entry_separator",
      slice=r"((?:writeln|write)!\(w, \"[^\"]*\", ctx\.as_display\(&entry\)\)\?;)", slice_count=1, slice_raw=True,
      rewrites=[("R50",), ("R17-free-variable", "ctx.as_display(&entry)", "*shown", 1)],
      slice_template="""fn entry_separator<W: fmt::Write, T: DisplayText>(w: &mut W, shown: &T) -> (r: Result<(), fmt::Error>)
    ensures
        // C19: after every entry's own text exactly ONE more line end is written: since an entry's text ends with a line end (for a transaction: posting_line
        // ends with '\\n', proved above), consecutive entries are separated by exactly one blank line
        r is Ok ==> final(w).text() == old(w).text() + shown.display_text() + seq!['\\n'],   // @format.one_line_end_after_every_entry
{
    proof { reveal_strlit("\\n"); let nl = seq!['\\n']; assert("\\n"@ =~= nl); }
    {EXPR}
    Ok(())
}"""),
    ],
}
