"""Shared unit definitions: report/eval/{single_amount,posting_amount,amount,error}.rs"""
SA = "core/src/report/eval/single_amount.rs"
PA = "core/src/report/eval/posting_amount.rs"
AM = "core/src/report/eval/amount.rs"
ER = "core/src/report/eval/error.rs"


def U(name, file, path, fn=None, contract=None, rewrites=(), **kw):
    d = {"name": name, "file": file, "path": path, "rewrites": list(rewrites)}
    if fn:
        d["fn"] = fn
    if contract is not None:
        d["contract"] = contract
    d.update(kw)
    return ("unit", d)


def opaque(units):
    """same units, bodies dropped: their contracts are proved in the group that owns them"""
    out = []
    for kind, u in units:
        is_code = kind == "unit" and (u.get("fn") or "impl" in u["path"][-1] or "fn" in u["path"][-1])
        if is_code and not u.get("keep_body"):
            out.append((kind, dict(u, opaque=True, no_canary=True, loops={}, loop_body_start={}, loop_body_end={}, after_loop={}, inserts=[], body_start=None,
                                    rewrites=[r for r in u.get("rewrites", []) if r[0] not in ("R25", "R25b", "R25c", "R26", "R26-forward-ref-op", "R7")])))
        else:
            out.append((kind, u))
    return out


RET = lambda a=None, b=None: ("R0",)

_INV = lambda post: """
            invariant
                i__ <= keys__@.len(),
                keys__@.no_duplicates(),
                forall|c: Commodity| keys__@.contains(c) <==> old_values.contains_key(c),
                SELF.values@.dom() == old_values.dom(),
                forall|j: int| 0 <= j < i__ ==> (#[trigger] SELF.values@[keys__@[j]]).val() == %s,
                forall|j: int| i__ <= j < keys__@.len() ==> #[trigger] SELF.values@[keys__@[j]] == old_values[keys__@[j]],
            decreases keys__@.len() - i__,
""" % post
_END = lambda post: """            proof {
                assert forall|j: int| 0 <= j < i__ implies (#[trigger] SELF.values@[keys__@[j]]).val() == %s by {
                    if j < i__ - 1 { assert(keys__@[j] != keys__@[i__ - 1]); }
                }
                assert forall|j: int| i__ <= j < keys__@.len() implies #[trigger] SELF.values@[keys__@[j]] == old_values[keys__@[j]] by {
                    assert(keys__@[j] != keys__@[i__ - 1]);
                }
                assert(SELF.values@.dom() =~= old_values.dom());
            }""" % post
_START = "            proof { assert(keys__@.contains(keys__@[i__ as int])); }"


def _mk(selfname, post, extra=""):
    """loop contract of an R25 key-snapshot loop: entries before i__ carry `post`, the rest are untouched"""
    return dict(loops={0: _INV(post).replace("SELF", selfname).replace("            decreases", extra + "            decreases")}, loop_body_start={0: _START}, loop_body_end={0: _END(post).replace("SELF", selfname)})


MK_NEG = _mk("this", "-old_values[keys__@[j]].val()")
MK_DIV = _mk("this", "old_values[keys__@[j]].val() / rhs.val()", "                rhs.val() != 0real,\n")
MK_MUL = _mk("self", "old_values[keys__@[j]].val() * rhs.val()")
IMPL_SA = ("impl SingleAmount {", "}")
IMPL_PA = ("impl PostingAmount {", "}")
IMPL_AM = ("impl Amount {", "}")

TYPES = [
    U("EvalError", ER, [r"pub enum EvalError\b"]),
    U("SingleAmount(type)", SA, [r"pub struct SingleAmount\b"], derive="Clone, Copy"),
    U("PostingAmount(type)", PA, [r"pub\(crate\) enum PostingAmount\b"], derive="Clone, Copy"),
    U("Amount(type)", AM, [r"pub struct Amount\b"], pub_fields=True),
]

SINGLE = [
    U("Neg for SingleAmount", SA, [r"impl Neg for SingleAmount<'_>"], fn="neg",
      rewrites=[RET("-> Self::Output", "-> (r: Self)")],
      contract="""
        ensures r.commodity == self.commodity, r.v() == -self.v(), r.value.negbit() == !self.value.negbit(),   // @SingleAmount.neg.negates
"""),
    U("Mul<Decimal> for SingleAmount", SA, [r"impl Mul<Decimal> for SingleAmount<'_>"], fn="mul",
      rewrites=[RET("-> Self::Output", "-> (r: Self)")],
      contract="""
        ensures r.commodity == self.commodity, r.v() == self.v() * rhs.val(),   // @SingleAmount.mul.scales
"""),
    U("SingleAmount::from_value", SA, [r"impl<'ctx> SingleAmount<'ctx>", r"pub fn from_value\b"], fn="from_value", wrap=IMPL_SA,
      rewrites=[RET("-> Self", "-> (r: Self)")],
      contract="""
        ensures r.value == value, r.commodity == commodity,   // @SingleAmount.from_value
"""),
    U("SingleAmount::check_add", SA, [r"impl<'ctx> SingleAmount<'ctx>", r"pub fn check_add\b"], fn="check_add", wrap=IMPL_SA,
      rewrites=[RET("-> Result<Self, EvalError>", "-> (r: Result<Self, EvalError>)")],
      contract="""
        ensures
            // different commodities are kept apart: never added
            self.commodity != rhs.commodity ==> r matches Err(EvalError::UnmatchingCommodities(_, _)),   // @SingleAmount.check_add.rejects_other_commodity
            self.commodity == rhs.commodity ==> (r matches Ok(x) && x.commodity == self.commodity && x.v() == self.v() + rhs.v())
                                                || r == Err::<Self, EvalError>(EvalError::NumberOverflow),   // @SingleAmount.check_add.exact_sum
"""),
    U("SingleAmount::check_sub", SA, [r"impl<'ctx> SingleAmount<'ctx>", r"pub fn check_sub\b"], fn="check_sub", wrap=IMPL_SA,
      rewrites=[RET("-> Result<Self, EvalError>", "-> (r: Result<Self, EvalError>)")],
      contract="""
        ensures
            self.commodity != rhs.commodity ==> r matches Err(EvalError::UnmatchingCommodities(_, _)),   // @SingleAmount.check_sub.rejects_other_commodity
            self.commodity == rhs.commodity ==> (r matches Ok(x) && x.commodity == self.commodity && x.v() == self.v() - rhs.v())
                                                || r == Err::<Self, EvalError>(EvalError::NumberOverflow),   // @SingleAmount.check_sub.exact_difference
"""),
    U("SingleAmount::check_div", SA, [r"impl<'ctx> SingleAmount<'ctx>", r"pub fn check_div\b"], fn="check_div", wrap=IMPL_SA,
      rewrites=[RET("-> Result<Self, EvalError>", "-> (r: Result<Self, EvalError>)")],
      contract="""
        ensures
            rhs.val() == 0real ==> r == Err::<Self, EvalError>(EvalError::DivideByZero),   // @SingleAmount.check_div.rejects_zero
            rhs.val() != 0real ==> (r matches Ok(x) && x.commodity == self.commodity && x.v() * rhs.val() == self.v() && x.v() == self.v() / rhs.val())
                                   || r == Err::<Self, EvalError>(EvalError::NumberOverflow),   // @SingleAmount.check_div.exact_quotient
"""),
    U("SingleAmount::abs", SA, [r"impl<'ctx> SingleAmount<'ctx>", r"pub fn abs\b"], fn="abs", wrap=IMPL_SA,
      rewrites=[RET("-> Self", "-> (r: Self)")],
      contract="""
        ensures r.commodity == self.commodity, r.v() >= 0real, r.v() == self.v() || r.v() == -self.v(), !r.value.negbit(),   // @SingleAmount.abs
"""),
    U("SingleAmount::round", SA, [r"impl<'ctx> SingleAmount<'ctx>", r"pub fn round\b"], fn="round", wrap=IMPL_SA,
      rewrites=[RET("-> Self", "-> (r: Self)"), ("R1-path", "rust_decimal::RoundingStrategy::MidpointNearestEven", "rust_decimal::RoundingStrategy::MidpointNearestEven", 1)],
      contract="""
        ensures r.commodity == self.commodity, r.v() == ctx_round(ctx, self.commodity, self.v()),   // @SingleAmount.round.declared_precision
"""),
    U("SingleAmount::with_sign_of", SA, [r"impl<'ctx> SingleAmount<'ctx>", r"fn with_sign_of\b"], fn="with_sign_of", wrap=IMPL_SA,
      rewrites=[("R7",), RET("-> Self", "-> (r: Self)")],
      contract="""
        ensures
            r.commodity == self.commodity,
            r.value.negbit() == sign.value.negbit(),                                                    // @SingleAmount.with_sign_of.takes_sign
            r.v() == (if sign.value.negbit() == self.value.negbit() { self.v() } else { -self.v() }),   // @SingleAmount.with_sign_of.keeps_magnitude
"""),
]

POSTING = [
    ("text", "posting_amount_default.rs"),
    U("TryFrom<PostingAmount> for SingleAmount", PA, [r"impl<'ctx> TryFrom<PostingAmount<'ctx>> for SingleAmount<'ctx>"]),
    U("From<SingleAmount> for PostingAmount", PA, [r"impl<'ctx> From<SingleAmount<'ctx>> for PostingAmount<'ctx>"]),
    U("Neg for PostingAmount", PA, [r"impl Neg for PostingAmount<'_>"], fn="neg",
      rewrites=[RET("-> Self::Output", "-> (r: Self)")],
      contract="""
        ensures
            self is Zero ==> r is Zero,
            self matches PostingAmount::Single(a) ==> (r matches PostingAmount::Single(b) && b.commodity == a.commodity && b.v() == -a.v()),   // @PostingAmount.neg.negates
"""),
    U("PostingAmount::zero", PA, [r"impl PostingAmount<'_>", r"pub fn zero\b"], fn="zero", wrap=IMPL_PA,
      rewrites=[RET("-> Self", "-> (r: Self)")],
      contract="""
        ensures r is Zero,   // @PostingAmount.zero
"""),
    U("PostingAmount::check_add", PA, [r"impl PostingAmount<'_>", r"pub fn check_add\b"], fn="check_add", wrap=IMPL_PA,
      rewrites=[RET("-> Result<Self, EvalError>", "-> (r: Result<Self, EvalError>)"), ("R11-ctor-as-fn", "map(Self::Single)", "map(|x: SingleAmount| -> (y: PostingAmount) ensures y == PostingAmount::Single(x) { PostingAmount::Single(x) })", 1)],
      contract="""
        ensures
            self is Zero ==> r == Ok::<Self, EvalError>(rhs),
            rhs is Zero ==> r == Ok::<Self, EvalError>(self),
            (self matches PostingAmount::Single(a) && rhs matches PostingAmount::Single(b)) ==> {
                let a = self->Single_0; let b = rhs->Single_0;
                &&& (a.commodity != b.commodity ==> r is Err)                                               // @PostingAmount.check_add.rejects_other_commodity
                &&& (a.commodity == b.commodity ==> (r matches Ok(PostingAmount::Single(x)) && x.commodity == a.commodity && x.v() == a.v() + b.v())
                                                    || r == Err::<Self, EvalError>(EvalError::NumberOverflow))   // @PostingAmount.check_add.exact_sum
            },
"""),
    U("PostingAmount::check_sub", PA, [r"impl PostingAmount<'_>", r"pub fn check_sub\b"], fn="check_sub", wrap=IMPL_PA,
      rewrites=[RET("-> Result<Self, EvalError>", "-> (r: Result<Self, EvalError>)")],
      contract="""
        ensures
            // X - 0 = X ; 0 - Y = -Y ; same commodity: exact difference ; different commodities: rejected
            rhs is Zero ==> r == Ok::<Self, EvalError>(self),
            (self is Zero && rhs matches PostingAmount::Single(b)) ==> (r matches Ok(PostingAmount::Single(x)) && x.commodity == rhs->Single_0.commodity && x.v() == -rhs->Single_0.v()),   // @PostingAmount.check_sub.zero_minus
            (self matches PostingAmount::Single(a) && rhs matches PostingAmount::Single(b)) ==> {
                let a = self->Single_0; let b = rhs->Single_0;
                &&& (a.commodity != b.commodity ==> r is Err)                                               // @PostingAmount.check_sub.rejects_other_commodity
                &&& (a.commodity == b.commodity ==> (r matches Ok(PostingAmount::Single(x)) && x.commodity == a.commodity && x.v() == a.v() - b.v())
                                                    || r == Err::<Self, EvalError>(EvalError::NumberOverflow))   // @PostingAmount.check_sub.exact_difference
            },
"""),
]

POSTING[0] = U("Default for PostingAmount", PA, [r"impl Default for PostingAmount<'_>"], fn="default",
               rewrites=[RET("-> Self", "-> (r: Self)")],
               contract="""
        ensures r is Zero,   // @PostingAmount.default_is_zero
""")

AMOUNT = [
    U("TryFrom<Amount> for SingleAmount", AM, [r"impl<'ctx> TryFrom<Amount<'ctx>> for SingleAmount<'ctx>"]),
    U("TryFrom<Amount> for PostingAmount", AM, [r"impl<'ctx> TryFrom<Amount<'ctx>> for PostingAmount<'ctx>"]),
    U("TryFrom<&Amount> for SingleAmount", AM, [r"impl<'ctx> TryFrom<&Amount<'ctx>> for SingleAmount<'ctx>"], fn="try_from",
      body_start="        proof { value.lemma_view(); }"),
    U("TryFrom<&Amount> for PostingAmount", AM, [r"impl<'ctx> TryFrom<&Amount<'ctx>> for PostingAmount<'ctx>"], fn="try_from",
      rewrites=[("R11-closure-spec", ".map(|(commodity, value)| {",
                 ".map(|kv: (&Commodity, &Decimal)| -> (pa: PostingAmount)\n"
                 "                    ensures pa == PostingAmount::Single(SingleAmount { value: *kv.1, commodity: *kv.0 })\n"
                 "                { let (commodity, value) = kv;", 1)],
      body_start="        proof { value.lemma_view(); }"),
    U("From<PostingAmount> for Amount", AM, [r"impl<'ctx> From<PostingAmount<'ctx>> for Amount<'ctx>"], fn="from",
      rewrites=[RET("-> Self", "-> (r: Self)")],
      contract="""
        ensures r@ == value.as_map(),   // @Amount.from_posting_amount
"""),
    U("From<SingleAmount> for Amount", AM, [r"impl<'ctx> From<SingleAmount<'ctx>> for Amount<'ctx>"], fn="from",
      rewrites=[RET("-> Self", "-> (r: Self)")],
      contract="""
        ensures r@ == value.as_map(),   // @Amount.from_single_amount
"""),
    U("Amount::zero", AM, [r"impl<'ctx> Amount<'ctx>", r"pub fn zero\b"], fn="zero", wrap=IMPL_AM,
      rewrites=[RET("-> Self", "-> (r: Self)")],
      contract="""
        ensures r@ == Map::<Commodity, real>::empty(), r.ncomm() == 0,   // @Amount.zero
"""),
    U("Amount::from_value", AM, [r"impl<'ctx> Amount<'ctx>", r"pub fn from_value\b"], fn="from_value", wrap=IMPL_AM,
      rewrites=[RET("-> Self", "-> (r: Self)")],
      contract="""
        ensures r@ == Map::<Commodity, real>::empty().insert(commodity, amount.val()),   // @Amount.from_value
"""),
    U("Amount::is_absolute_zero", AM, [r"impl<'ctx> Amount<'ctx>", r"pub fn is_absolute_zero\b"], fn="is_absolute_zero", wrap=IMPL_AM,
      rewrites=[RET("-> bool", "-> (r: bool)")],
      body_start="        proof { self.lemma_view(); }",
      contract="""
        ensures r == (self@.dom() == Set::<Commodity>::empty()),   // @Amount.is_absolute_zero.no_commodity_at_all
"""),
    U("Amount::is_zero", AM, [r"impl<'ctx> Amount<'ctx>", r"pub fn is_zero\b"], fn="is_zero", wrap=IMPL_AM,
      rewrites=[RET(), ("R14",)],
      body_start="        proof { self.lemma_view(); }",
      loops={0: """
            invariant
                it.history@ + vstd::std_specs::iter::IteratorSpec::remaining(&it.iter) == vstd::std_specs::iter::IteratorSpec::remaining(&it.snapshot@),
                forall|j: int| 0 <= j < it.history@.len() ==> (#[trigger] it.history@[j]).1.val() == 0real,
                forall|k: Commodity| self.values@.contains_key(k) ==> exists|j: int| 0 <= j < vstd::std_specs::iter::IteratorSpec::remaining(&it.snapshot@).len()
                    && *(#[trigger] vstd::std_specs::iter::IteratorSpec::remaining(&it.snapshot@)[j]).0 == k,
                forall|j: int| 0 <= j < vstd::std_specs::iter::IteratorSpec::remaining(&it.snapshot@).len() ==>
                    self.values@.contains_key(*(#[trigger] vstd::std_specs::iter::IteratorSpec::remaining(&it.snapshot@)[j]).0)
                    && self.values@[*vstd::std_specs::iter::IteratorSpec::remaining(&it.snapshot@)[j].0] == *vstd::std_specs::iter::IteratorSpec::remaining(&it.snapshot@)[j].1,
                self@.dom() == self.values@.dom(),
                forall|c: Commodity| self.values@.contains_key(c) ==> #[trigger] self@[c] == self.values@[c].val(),
                forall|c: Commodity| self.values@.contains_key(c) ==> self@[c] == (#[trigger] self.values@[c]).val(),
"""},
      contract="""
        ensures r == all_zero(self@),   // @Amount.is_zero.every_commodity_zero
"""),
    U("Amount::remove_zero_entries", AM, [r"impl<'ctx> Amount<'ctx>", r"pub fn remove_zero_entries\b"], fn="remove_zero_entries", wrap=IMPL_AM,
      rewrites=[("R25c",)],
      contract="""
        ensures final(self)@ == nz(old(self)@),   // @Amount.remove_zero_entries.drops_exactly_the_zero_valued_commodities
""",
      body_start="        let ghost old_values = self.values@;",
      loops={0: """
            invariant
                i__ <= keys__@.len(),
                keys__@.no_duplicates(),
                forall|c: Commodity| keys__@.contains(c) <==> old_values.contains_key(c),
                forall|c: Commodity| #[trigger] self.values@.contains_key(c) ==> old_values.contains_key(c) && self.values@[c] == old_values[c],
                forall|j: int| 0 <= j < i__ ==> (self.values@.contains_key(#[trigger] keys__@[j]) <==> old_values[keys__@[j]].val() != 0real),
                forall|j: int| i__ <= j < keys__@.len() ==> self.values@.contains_key(#[trigger] keys__@[j]),
            decreases keys__@.len() - i__,
"""},
      inserts=[("before", "while i__ < keys__.len()", 0, """proof {
            assert forall|j: int| 0 <= j < keys__@.len() implies self.values@.contains_key(#[trigger] keys__@[j]) by { assert(keys__@.contains(keys__@[j])); }
        }
        """)],
      loop_body_start={0: "            proof { assert(keys__@.contains(keys__@[i__ as int])); }\n            let ghost before = self.values@;"},
      loop_body_end={0: """            proof {
                let ki = keys__@[i__ - 1];
                assert(self.values@ =~= before || self.values@ =~= before.remove(ki));
                assert(self.values@.contains_key(ki) <==> old_values[ki].val() != 0real);
                assert forall|c: Commodity| self.values@.contains_key(c) implies old_values.contains_key(c) && self.values@[c] == old_values[c] by {
                    assert(before.contains_key(c));
                    assert(self.values@[c] == before[c]);
                }
                assert forall|j: int| 0 <= j < i__ implies (self.values@.contains_key(#[trigger] keys__@[j]) <==> old_values[keys__@[j]].val() != 0real) by {
                    if j < i__ - 1 { assert(keys__@[j] != keys__@[i__ - 1]); }
                }
                assert forall|j: int| i__ <= j < keys__@.len() implies self.values@.contains_key(#[trigger] keys__@[j]) by {
                    assert(keys__@[j] != keys__@[i__ - 1]);
                }
            }"""},
      after_loop={0: """        proof {
            self.lemma_view(); old(self).lemma_view();
            let want = nz(old(self)@);
            assert forall|c: Commodity| self@.contains_key(c) <==> want.contains_key(c) by {
                assert(want.contains_key(c) <==> (old(self)@.contains_key(c) && old(self)@[c] != 0real));
                if old_values.contains_key(c) {
                    assert(old(self)@[c] == old_values[c].val());
                    assert(keys__@.contains(c));
                    let j = choose|j: int| 0 <= j < keys__@.len() && keys__@[j] == c;
                    assert(self.values@.contains_key(keys__@[j]) <==> old_values[keys__@[j]].val() != 0real);
                }
            }
            assert forall|c: Commodity| self@.contains_key(c) implies #[trigger] self@[c] == want[c] by {
                assert(self.values@.contains_key(c));
                assert(self@[c] == self.values@[c].val());
                assert(old(self)@[c] == old_values[c].val());
            }
            assert(self@ =~= want);
        }"""}),
    U("Amount::set_partial", AM, [r"impl<'ctx> Amount<'ctx>", r"pub\(crate\) fn set_partial\b"], fn="set_partial", wrap=IMPL_AM,
      rewrites=[RET("-> SingleAmount<'ctx>", "-> (r: SingleAmount)")],
      body_start="        proof { self.lemma_view(); }",
      contract="""
        ensures
            r.commodity == amount.commodity,
            r.v() == mget(old(self)@, amount.commodity),                                             // @Amount.set_partial.returns_previous
            final(self)@ == (if amount.v() == 0real { old(self)@.remove(amount.commodity) }
                             else { old(self)@.insert(amount.commodity, amount.v()) }),              // @Amount.set_partial.replaces_one_commodity
"""),
    U("Amount::get_part", AM, [r"impl<'ctx> Amount<'ctx>", r"fn get_part\b"], fn="get_part", wrap=IMPL_AM,
      rewrites=[RET("-> Decimal", "-> (r: Decimal)")],
      body_start="        proof { self.lemma_view(); }",
      contract="""
        ensures r.val() == mget(self@, commodity),   // @Amount.get_part
"""),
    U("Amount::maybe_pair", AM, [r"impl<'ctx> Amount<'ctx>", r"pub fn maybe_pair\b"], fn="maybe_pair", wrap=IMPL_AM,
      rewrites=[RET("-> Option<(SingleAmount<'ctx>, SingleAmount<'ctx>)>", "-> (r: Option<(SingleAmount, SingleAmount)>)"),
                ("R24-first-two", "self.values.iter().zip(self.values.iter().skip(1)).next()?", "hashmap_first_two(&self.values)?", 1)],
      body_start="        proof { self.lemma_view(); }",
      contract="""
        ensures
            r is Some <==> self@.dom().len() == 2,                                                      // @Amount.maybe_pair.some_iff_exactly_two_commodities
            r matches Some((a, b)) ==> a.commodity != b.commodity && self@.dom() == set![a.commodity, b.commodity]
                && a.v() == self@[a.commodity] && b.v() == self@[b.commodity],                          // @Amount.maybe_pair.the_two_entries
""",
      inserts=[("before", "Some((", 0, """proof {
            broadcast use vstd::set_lib::group_set_lib_default;
            let d = self.values@.dom();
            assert(d.contains(*c1) && d.contains(*c2));
            assert(d.remove(*c1).remove(*c2).len() == 0);
            assert(d =~= set![*c1, *c2]);
        }
        """)]),
    U("Amount::round", AM, [r"impl<'ctx> Amount<'ctx>", r"pub fn round\b"], fn="round", wrap=IMPL_AM,
      rewrites=[("R7",), RET("-> Self", "-> (r: Self)")],
      contract="""
        ensures r@ == rounded(ctx, self@),   // @Amount.round.every_commodity_to_its_declared_precision
"""),
    U("Amount::round_mut", AM, [r"impl<'ctx> Amount<'ctx>", r"pub fn round_mut\b"], fn="round_mut", wrap=IMPL_AM,
      rewrites=[("R25",), ("R1-path", "rust_decimal::RoundingStrategy::MidpointNearestEven", "rust_decimal::RoundingStrategy::MidpointNearestEven", 1)],
      contract="""
        ensures final(self)@ == rounded(ctx, old(self)@),   // @Amount.round_mut.every_commodity_to_its_declared_precision_none_added_or_dropped
""",
      loops={0: """
            invariant
                i__ <= keys__@.len(),
                keys__@.no_duplicates(),
                forall|c: Commodity| keys__@.contains(c) <==> old(self).values@.contains_key(c),
                self.values@.dom() == old(self).values@.dom(),
                forall|j: int| 0 <= j < i__ ==> (#[trigger] self.values@[keys__@[j]]).val() == ctx_round(ctx, keys__@[j], old(self).values@[keys__@[j]].val()),
                forall|j: int| i__ <= j < keys__@.len() ==> #[trigger] self.values@[keys__@[j]] == old(self).values@[keys__@[j]],
            decreases keys__@.len() - i__,
"""},
      loop_body_start={0: "            proof { assert(keys__@.contains(keys__@[i__ as int])); }"},
      loop_body_end={0: """            proof {
                assert forall|j: int| 0 <= j < i__ implies (#[trigger] self.values@[keys__@[j]]).val() == ctx_round(ctx, keys__@[j], old(self).values@[keys__@[j]].val()) by {
                    if j < i__ - 1 { assert(keys__@[j] != keys__@[i__ - 1]); }
                }
                assert forall|j: int| i__ <= j < keys__@.len() implies #[trigger] self.values@[keys__@[j]] == old(self).values@[keys__@[j]] by {
                    assert(keys__@[j] != keys__@[i__ - 1]);
                }
                assert(self.values@.dom() =~= old(self).values@.dom());
            }"""},
      after_loop={0: """        proof {
            self.lemma_view(); old(self).lemma_view();
            assert forall|c: Commodity| self@.contains_key(c) implies #[trigger] self@[c] == rounded(ctx, old(self)@)[c] by {
                assert(keys__@.contains(c));
                let j = choose|j: int| 0 <= j < keys__@.len() && keys__@[j] == c;
                assert(self.values@[keys__@[j]].val() == ctx_round(ctx, keys__@[j], old(self).values@[keys__@[j]].val()));
            }
            assert(self@ =~= rounded(ctx, old(self)@));
        }"""}),
    U("Amount::negate", AM, [r"impl<'ctx> Amount<'ctx>", r"pub fn negate\b"], fn="negate", wrap=IMPL_AM,
      rewrites=[("R7",), RET("-> Self", "-> (r: Self)"), ("R25",)],
      contract="""
        ensures r@ == mneg(self@),   // @Amount.negate.every_commodity_negated_none_added_or_dropped
""",
      body_start="        let ghost old_values = self.values@;",
      after_loop={0: """        proof {
            this.lemma_view(); self.lemma_view();
            assert forall|c: Commodity| this@.contains_key(c) implies #[trigger] this@[c] == mneg(self@)[c] by {
                assert(keys__@.contains(c));
                let j = choose|j: int| 0 <= j < keys__@.len() && keys__@[j] == c;
                assert(this.values@[keys__@[j]].val() == -old_values[keys__@[j]].val());
            }
            assert(this@ =~= mneg(self@));
        }"""},
      **MK_NEG),
    U("Amount::check_div", AM, [r"impl<'ctx> Amount<'ctx>", r"pub fn check_div\b"], fn="check_div", wrap=IMPL_AM,
      rewrites=[("R7",), RET("-> Result<Self, EvalError>", "-> (r: Result<Self, EvalError>)"), ("R25",)],
      contract="""
        ensures
            rhs.val() == 0real ==> r == Err::<Self, EvalError>(EvalError::DivideByZero),                 // @Amount.check_div.rejects_zero_divisor
            rhs.val() != 0real ==> (r matches Ok(x) && x@ == mdiv(self@, rhs.val()))
                                   || r == Err::<Self, EvalError>(EvalError::NumberOverflow),           // @Amount.check_div.every_commodity_divided_or_overflow
""",
      body_start="        let ghost old_values = self.values@;",
      after_loop={0: """        proof {
            this.lemma_view(); self.lemma_view();
            assert forall|c: Commodity| this@.contains_key(c) implies #[trigger] this@[c] == mdiv(self@, rhs.val())[c] by {
                assert(keys__@.contains(c));
                let j = choose|j: int| 0 <= j < keys__@.len() && keys__@[j] == c;
                assert(this.values@[keys__@[j]].val() == old_values[keys__@[j]].val() / rhs.val());
            }
            assert(this@ =~= mdiv(self@, rhs.val()));
        }"""},
      **MK_DIV),
    U("Neg for Amount", AM, [r"impl Neg for Amount<'_>"], fn="neg",
      rewrites=[RET("-> Self::Output", "-> (r: Self)")],
      contract="""
        ensures r@ == mneg(self@),   // @Amount.neg
"""),
    U("AddAssign<Amount> for Amount", AM, [r"impl AddAssign for Amount<'_>"], fn="add_assign",
      rewrites=[("R25b",), ("R26",)],
      contract="""
        ensures final(self)@ == madd(old(self)@, rhs@),   // @Amount.add_assign.pointwise_sum_keeps_every_commodity_of_either_side
""",
      body_start="        let ghost old_values = self.values@;",
      loops={0: """
            invariant
                i__ <= entries__@.len(),
                lists_entries(entries__@, rhs.values@),
                forall|j: int| 0 <= j < i__ ==> self.values@.contains_key((#[trigger] entries__@[j]).0)
                    && self.values@[entries__@[j].0].val() == (if old_values.contains_key(entries__@[j].0) { old_values[entries__@[j].0].val() } else { 0real }) + entries__@[j].1.val(),
                forall|c: Commodity| #[trigger] untouched(entries__@, i__ as int, c) ==>
                    (self.values@.contains_key(c) <==> old_values.contains_key(c)) && (old_values.contains_key(c) ==> self.values@[c] == old_values[c]),
            decreases entries__@.len() - i__,
"""},
      loop_body_start={0: """            proof {
                assert forall|j: int| 0 <= j < i__ implies (#[trigger] entries__@[j]).0 != entries__@[i__ as int].0 by { }
                assert(untouched(entries__@, i__ as int, entries__@[i__ as int].0));
            }
            let ghost before = self.values@;"""},
      loop_body_end={0: """            proof {
                let ci = entries__@[i__ - 1].0;
                assert(self.values@ =~= before.insert(ci, self.values@[ci]));
                assert forall|j: int| 0 <= j < i__ implies self.values@.contains_key((#[trigger] entries__@[j]).0)
                    && self.values@[entries__@[j].0].val() == (if old_values.contains_key(entries__@[j].0) { old_values[entries__@[j].0].val() } else { 0real }) + entries__@[j].1.val() by {
                    if j < i__ - 1 { assert(entries__@[j].0 != ci); }
                }
                assert forall|c: Commodity| #[trigger] untouched(entries__@, i__ as int, c) implies
                    (self.values@.contains_key(c) <==> old_values.contains_key(c)) && (old_values.contains_key(c) ==> self.values@[c] == old_values[c]) by {
                    assert(entries__@[i__ - 1].0 != c);
                    assert(untouched(entries__@, i__ - 1, c));
                }
            }"""},
      after_loop={0: """        proof {
            self.lemma_view(); old(self).lemma_view(); rhs.lemma_view();
            let want = madd(old(self)@, rhs@);
            assert forall|c: Commodity| self@.contains_key(c) <==> want.contains_key(c) by {
                if rhs.values@.contains_key(c) {
                    let j = choose|j: int| 0 <= j < entries__@.len() && (#[trigger] entries__@[j]).0 == c;
                    assert(self.values@.contains_key(entries__@[j].0));
                } else {
                    assert(untouched(entries__@, entries__@.len() as int, c));
                }
            }
            assert forall|c: Commodity| self@.contains_key(c) implies #[trigger] self@[c] == want[c] by {
                if rhs.values@.contains_key(c) {
                    let j = choose|j: int| 0 <= j < entries__@.len() && (#[trigger] entries__@[j]).0 == c;
                    assert(self.values@[entries__@[j].0].val() == (if old_values.contains_key(c) { old_values[c].val() } else { 0real }) + entries__@[j].1.val());
                    assert(rhs.values@[c] == entries__@[j].1);
                } else {
                    assert(untouched(entries__@, entries__@.len() as int, c));
                }
            }
            assert(self@ =~= want);
        }"""}),
    U("Add<Amount> for Amount", AM, [r"impl Add for Amount<'_>"], fn="add",
      rewrites=[("R7",), RET("-> Self::Output", "-> (r: Self)")],
      contract="""
        ensures r@ == madd(self@, rhs@),   // @Amount.add.pointwise_keeps_zero_entries
"""),
    U("AddAssign<SingleAmount> for Amount", AM, [r"impl<'ctx> AddAssign<SingleAmount<'ctx>> for Amount<'ctx>"], fn="add_assign",
      body_start="        proof { self.lemma_view(); }",
      contract="""
        ensures final(self)@ == old(self)@.insert(rhs.commodity, mget(old(self)@, rhs.commodity) + rhs.v()),   // @Amount.add_assign_single.adds_to_its_commodity_only
"""),
    U("Add<SingleAmount> for Amount", AM, [r"impl<'ctx> Add<SingleAmount<'ctx>> for Amount<'ctx>"], fn="add",
      rewrites=[("R7",), RET("-> Self::Output", "-> (r: Amount)")],
      contract="""
        ensures r@ == self@.insert(rhs.commodity, mget(self@, rhs.commodity) + rhs.v()),   // @Amount.add_single
"""),
    U("AddAssign<PostingAmount> for Amount", AM, [r"impl<'ctx> AddAssign<PostingAmount<'ctx>> for Amount<'ctx>"], fn="add_assign",
      contract="""
        ensures
            rhs is Zero ==> final(self)@ == old(self)@,
            rhs matches PostingAmount::Single(s) ==> final(self)@ == old(self)@.insert(s.commodity, mget(old(self)@, s.commodity) + s.v()),   // @Amount.add_assign_posting
"""),
    U("SubAssign for Amount", AM, [r"impl SubAssign for Amount<'_>"], fn="sub_assign",
      rewrites=[("R25b",), ("R26",)],
      contract="""
        ensures final(self)@ == msub(old(self)@, rhs@),   // @Amount.sub_assign.pointwise_difference_keeps_every_commodity_of_either_side
""",
      body_start="        let ghost old_values = self.values@;",
      loops={0: """
            invariant
                i__ <= entries__@.len(),
                lists_entries(entries__@, rhs.values@),
                forall|j: int| 0 <= j < i__ ==> self.values@.contains_key((#[trigger] entries__@[j]).0)
                    && self.values@[entries__@[j].0].val() == (if old_values.contains_key(entries__@[j].0) { old_values[entries__@[j].0].val() } else { 0real }) - entries__@[j].1.val(),
                forall|c: Commodity| #[trigger] untouched(entries__@, i__ as int, c) ==>
                    (self.values@.contains_key(c) <==> old_values.contains_key(c)) && (old_values.contains_key(c) ==> self.values@[c] == old_values[c]),
            decreases entries__@.len() - i__,
"""},
      loop_body_start={0: """            proof {
                assert forall|j: int| 0 <= j < i__ implies (#[trigger] entries__@[j]).0 != entries__@[i__ as int].0 by { }
                assert(untouched(entries__@, i__ as int, entries__@[i__ as int].0));
            }
            let ghost before = self.values@;"""},
      loop_body_end={0: """            proof {
                let ci = entries__@[i__ - 1].0;
                assert(self.values@ =~= before.insert(ci, self.values@[ci]));
                assert forall|j: int| 0 <= j < i__ implies self.values@.contains_key((#[trigger] entries__@[j]).0)
                    && self.values@[entries__@[j].0].val() == (if old_values.contains_key(entries__@[j].0) { old_values[entries__@[j].0].val() } else { 0real }) - entries__@[j].1.val() by {
                    if j < i__ - 1 { assert(entries__@[j].0 != ci); }
                }
                assert forall|c: Commodity| #[trigger] untouched(entries__@, i__ as int, c) implies
                    (self.values@.contains_key(c) <==> old_values.contains_key(c)) && (old_values.contains_key(c) ==> self.values@[c] == old_values[c]) by {
                    assert(entries__@[i__ - 1].0 != c);
                    assert(untouched(entries__@, i__ - 1, c));
                }
            }"""},
      after_loop={0: """        proof {
            self.lemma_view(); old(self).lemma_view(); rhs.lemma_view();
            let want = msub(old(self)@, rhs@);
            assert forall|c: Commodity| self@.contains_key(c) <==> want.contains_key(c) by {
                if rhs.values@.contains_key(c) {
                    let j = choose|j: int| 0 <= j < entries__@.len() && (#[trigger] entries__@[j]).0 == c;
                    assert(self.values@.contains_key(entries__@[j].0));
                } else {
                    assert(untouched(entries__@, entries__@.len() as int, c));
                }
            }
            assert forall|c: Commodity| self@.contains_key(c) implies #[trigger] self@[c] == want[c] by {
                if rhs.values@.contains_key(c) {
                    let j = choose|j: int| 0 <= j < entries__@.len() && (#[trigger] entries__@[j]).0 == c;
                    assert(self.values@[entries__@[j].0].val() == (if old_values.contains_key(c) { old_values[c].val() } else { 0real }) - entries__@[j].1.val());
                    assert(rhs.values@[c] == entries__@[j].1);
                } else {
                    assert(untouched(entries__@, entries__@.len() as int, c));
                }
            }
            assert(self@ =~= want);
        }"""}),
    U("Sub for Amount", AM, [r"impl Sub for Amount<'_>"], fn="sub",
      rewrites=[("R7",), RET("-> Self::Output", "-> (r: Self)")],
      contract="""
        ensures r@ == msub(self@, rhs@),   // @Amount.sub.pointwise
"""),
    U("MulAssign<Decimal> for Amount", AM, [r"impl MulAssign<Decimal> for Amount<'_>"], fn="mul_assign",
      rewrites=[("R25",)],
      contract="""
        ensures final(self)@ == mscale(old(self)@, rhs.val()),   // @Amount.mul_assign.every_commodity_scaled_none_added_or_dropped
""",
      body_start="        let ghost old_values = self.values@;",
      after_loop={0: """        proof {
            self.lemma_view(); old(self).lemma_view();
            assert forall|c: Commodity| self@.contains_key(c) implies #[trigger] self@[c] == mscale(old(self)@, rhs.val())[c] by {
                assert(keys__@.contains(c));
                let j = choose|j: int| 0 <= j < keys__@.len() && keys__@[j] == c;
                assert(self.values@[keys__@[j]].val() == old_values[keys__@[j]].val() * rhs.val());
            }
            assert(self@ =~= mscale(old(self)@, rhs.val()));
        }"""},
      **MK_MUL),
    U("Mul<Decimal> for Amount", AM, [r"impl Mul<Decimal> for Amount<'_>"], fn="mul",
      rewrites=[("R7",), RET("-> Self::Output", "-> (r: Self)")],
      contract="""
        ensures r@ == mscale(self@, rhs.val()),   // @Amount.mul.scales_every_commodity
"""),
    U("Amount::assert_balance", AM, [r"impl<'ctx> Amount<'ctx>", r"pub\(crate\) fn assert_balance\b"], fn="assert_balance", wrap=IMPL_AM,
      rewrites=[RET("-> Self", "-> (r: Self)")],
      contract="""
        ensures
            // C02: bare `= 0` holds iff the account holds nothing non-zero in any commodity;
            //      `= X c` holds iff the balance in c equals X exactly (absent = 0)
            (r@.dom() == Set::<Commodity>::empty()) <==> (match *expected {
                PostingAmount::Zero => all_zero(self@),
                PostingAmount::Single(s) => mget(self@, s.commodity) == s.v(),
            }),                                                                                  // @Amount.assert_balance.empty_iff_assertion_holds
            // otherwise the result is (expected - actual) on that commodity, or minus the whole balance
            (expected matches PostingAmount::Single(s) && mget(self@, s.commodity) != s.v()) ==>
                r@ == Map::<Commodity, real>::empty().insert(expected->Single_0.commodity, expected->Single_0.v() - mget(self@, expected->Single_0.commodity)),   // @Amount.assert_balance.diff_on_commodity
            (expected is Zero && !all_zero(self@)) ==> r@ == mneg(self@),                        // @Amount.assert_balance.diff_whole
"""),
]
