"""C07 / C15 (numeric clause): printing pads to the configured precision and never changes the value."""
from ._amount_units import U, RET
from ._eval_units import EXPR_TYPES
D = "core/src/syntax/display.rs"
PD = "core/src/syntax/pretty_decimal.rs"
GROUP = {
    "name": "rescale",
    "uses": "use std::collections::HashMap;\n",
    "broadcast": ["rust_decimal::axiom_round", "rust_decimal::axiom_sign"],
    "parts": [
        ("text", "rust_decimal.rs"),
        ("text", "handles.rs"),
        *EXPR_TYPES,
        ("text", "rescale_stub.rs"),
        U("PrettyDecimal::scale", PD, [r"impl PrettyDecimal\b", r"pub const fn scale\b"], fn="scale", wrap=("impl PrettyDecimal {", "}"),
          rewrites=[RET(), ("R2-const", "pub const fn scale", "pub fn scale", 1)],
          contract="\n        ensures r == self.value.dscale(), r <= 28,   // @PrettyDecimal.scale\n"),
        U("PrettyDecimal::rescale", PD, [r"impl PrettyDecimal\b", r"pub fn rescale\b"], fn="rescale", wrap=("impl PrettyDecimal {", "}"),
          contract="""
        ensures
            final(self).format == old(self).format,
            (scale >= old(self).value.dscale() && scale <= 28) ==> final(self).value.val() == old(self).value.val() && final(self).value.dscale() == scale,   // @PrettyDecimal.rescale.raising_keeps_value
"""),
        U("display::rescale", D, [r"fn rescale\b"], fn="rescale",
          rewrites=[RET(), ("R9-stub-lookup", "re:(?s)context\\s*\\.precisions\\s*\\.get\\(x\\.commodity\\.as_ref\\(\\)\\)\\s*\\.cloned\\(\\)", "context.precisions.get_precision(x.commodity.as_str())", 1)],
          contract="""
        ensures
            // C07/C15: numeric values are printed without change of value, only padded to the configured precision
            // (the scale is never lowered)
            r.format == x.value.format,                                                                    // @rescale.keeps_grouping_style
            ({ let p = match context.precisions.lookup(x.commodity@) { Some(p) => p as nat, None => 0 };
               p <= 28 ==> r.value.val() == x.value.value.val()                                             // @rescale.value_unchanged
                   && r.value.dscale() == (if x.value.value.dscale() >= p { x.value.value.dscale() } else { p }) }),   // @rescale.scale_is_max_of_written_and_configured
"""),
    ],
}
