"""C09: the deductive fragments of price selection (the search itself is decided only by the bounded family c09)."""
from ._amount_units import U, RET, TYPES
PD = "core/src/report/price_db.rs"
CPT = [r"impl<'ctx> NaivePriceRepository<'ctx>", r"fn compute_price_table\b"]

GROUP = {
    "name": "prices",
    "uses": "use std::collections::HashMap;\nuse vstd::std_specs::hash::*;\nuse vstd::std_specs::cmp::*;\n",
    "broadcast": ["key_axioms::axiom_commodity_key_model"],
    "parts": [
        ("text", "rust_decimal.rs"),
        ("text", "handles.rs"),
        ("text", "hashmap_iter_models.rs"),
        ("text", "chrono.rs"),
        ("text", "prices_base.rs"),
        ("text", "prices_spec.rs"),
        U("Distance(type)", PD, [r"struct Distance\b"], derive="Clone"),
        # the criteria are compared lexicographically in field order (derive(Ord)): the order of the fields is the priority
        U("anchor:Distance field order", PD, [r"struct Distance\b"], no_canary=True,
          slice=r"(num_ledger_conversions: usize,\s*num_all_conversions: usize,\s*staleness: TimeDelta,)", slice_count=1, slice_template="/* anchor: {EXPR} */\n"),
        U("Distance::extend", PD, [r"impl Distance\b", r"fn extend\b"], fn="extend", wrap=("impl Distance {", "}"),
          rewrites=[RET(), ("R24-cmp-max", "std::cmp::max(self.staleness, staleness)", "timedelta_max(self.staleness, staleness)", 1)],
          contract="""
        requires self.num_ledger_conversions < usize::MAX, self.num_all_conversions < usize::MAX,
        ensures
            // C09: a step through a ledger-derived price counts as a ledger step, a price-DB step does not; every step counts;
            //      the staleness of a chain is that of its stalest step
            r.num_ledger_conversions == self.num_ledger_conversions + (if source is Ledger { 1int } else { 0int }),   // @Distance.extend.ledger_steps_counted
            r.num_all_conversions == self.num_all_conversions + 1,                                                   // @Distance.extend.every_step_counted
            r.staleness == (if self.staleness.secs >= staleness.secs { self.staleness } else { staleness }),           // @Distance.extend.stalest_step
"""),
        # which prices may be used as of `date`: the predicate handed to partition_point
        U("callsite:compute_price_table.usable_price", PD, CPT, fn="price_usable", no_canary=True,
          slice=r"rates\.partition_point\(\|\(record_date, _\)\|\s*([^)]*)\)", slice_count=1,
          slice_template="""fn price_usable(record_date: &NaiveDate, date: NaiveDate) -> (b: bool)
    ensures
        // C09: only prices dated on or before the date are used
        b == (record_date.day() <= date.day()),   // @compute_price_table.only_prices_dated_on_or_before_the_date
{
    {EXPR}
}"""),
        # which of the usable prices is taken: the last of the usable prefix of the date-sorted vector = the most recent one
        U("callsite:compute_price_table.latest_usable", PD, CPT, fn="latest_usable", no_canary=True,
          slice=r"let \(record_date, rate\) = (rates\[[^\]]*\]);", slice_count=1,
          slice_template="""fn latest_usable(rates: &Vec<(NaiveDate, Decimal)>, bound: usize) -> (r: (NaiveDate, Decimal))
    requires
        0 < bound <= rates@.len(),
        // partition_point (std): the usable prices are exactly the first `bound` ones; build_naive sorted the vector by date
        forall|i: int, j: int| 0 <= i <= j < rates@.len() ==> (#[trigger] rates@[i]).0.day() <= (#[trigger] rates@[j]).0.day(),
    ensures
        // C09: among the usable prices (indices < bound) the most recent one is used
        r == rates@[bound - 1],
        forall|i: int| 0 <= i < bound ==> (#[trigger] rates@[i]).0.day() <= r.0.day(),   // @compute_price_table.most_recent_usable_price
{
    {EXPR}
}"""),
        U("anchor:no usable price means no edge", PD, CPT, no_canary=True,
          slice=r"(if bound == 0 \{)", slice_count=1, slice_template="/* anchor: {EXPR} */\n"),
        # ---- recording a price: source precedence (the price database replaces ledger-derived prices of the same pair) ----
        U("anchor:PriceSource variant order", PD, [r"enum PriceSource\b"], no_canary=True,
          slice=r"(enum PriceSource \{\s*Ledger,\s*PriceDB,\s*\})", slice_count=1, slice_template="/* anchor: {EXPR} */\n"),
        U("Entry(type)", PD, [r"struct Entry\b"]),
        U("PriceRepositoryBuilder(type)", PD, [r"struct PriceRepositoryBuilder<'ctx>"]),
        U("PriceRepositoryBuilder::insert_impl", PD, [r"impl<'ctx> PriceRepositoryBuilder<'ctx>", r"fn insert_impl\b"], fn="insert_impl",
          wrap=("impl PriceRepositoryBuilder {", "}"),
          rewrites=[("R9-stub", "SingleAmount", "SingleAmountStub", 2), ("R28",)],
          contract="""
        requires
            price_of.value.val() != 0real,   // insert_price filters zero amounts (proved in the bookkeep group)
            // call-order precondition (NOT proved at the call sites, see assumptions): a price of a lower-ranking source never arrives
            // after a higher-ranking one of the same pair - `process` loads the price database after the whole ledger
            slot(old(self).records@, price_with.commodity, price_of.commodity) matches Some(e) ==> source_rank(e.0) <= source_rank(source),
        ensures
            // C09: a price of a higher-ranking source (the price database) REPLACES everything recorded for the pair from a lower-ranking
            //      one (the ledger); a price of the same source is added to what is recorded; the rate is price_with / price_of
            slot(final(self).records@, price_with.commodity, price_of.commodity) matches Some(e) && e.0 == source && (
                match slot(old(self).records@, price_with.commodity, price_of.commodity) {
                    Some(o) if o.0 == source => e.1@.len() == o.1@.len() + 1 && e.1@.subrange(0, o.1@.len() as int) == o.1@,   // @insert_impl.same_source_price_is_added
                    _ => e.1@.len() == 1,                                                                                      // @insert_impl.higher_source_replaces_recorded_prices
                }),
            ({ let e = slot(final(self).records@, price_with.commodity, price_of.commodity)->0;
               e.1@.last().0 == date && e.1@.last().1.val() == price_with.value.val() / price_of.value.val() }),                 // @insert_impl.rate_is_price_with_over_price_of
            // no other pair's prices are touched
            forall|w: Commodity, o: Commodity| !(w == price_with.commodity && o == price_of.commodity) ==>
                #[trigger] slot(final(self).records@, w, o) == slot(old(self).records@, w, o),                                   // @insert_impl.other_pairs_untouched
"""),
        # the call order that discharges insert_impl's precondition: `process` reads the price database after the whole ledger
        U("anchor:process loads the price database after the ledger", "core/src/report/book_keeping.rs", [r"pub fn process<"], no_canary=True,
          slice=r"(?s)loader\.borrow\(\)\.load\(.*?(accum\.price_repos\.load_price_db\(ctx, price_db_path\))", slice_count=1,
          slice_template="/* anchor: loader.borrow().load(..) .. {EXPR} */\n"),
        # ---- the search step (label correcting): what is compared, what is recorded, what a step costs ----
        U("WithDistance(type)", PD, [r"struct WithDistance<T>"]),
        U("WithDistance::eq(Distance)", PD, [r"impl<T> PartialEq<Distance> for WithDistance<T>"], no_canary=True),
        U("WithDistance::partial_cmp(Distance)", PD, [r"impl<T: Eq> PartialOrd<Distance> for WithDistance<T>"], no_canary=True),
        U("callsite:compute_price_table.relax", PD, CPT, fn="relax", no_canary=True,
          slice=r"match distances\.entry\(\*j\) \{", slice_count=1, rewrites=[("R27",)],
          slice_template="""fn relax(distances: &mut HashMap<Commodity, WithDistance<Decimal>>, j: &Commodity, next_dist: Distance, rate: Decimal) -> (updated: bool)
    ensures
        // C09: the chain recorded for `j` is replaced by a strictly better one - by (ledger-derived steps, steps, staleness) - and kept
        //      against a strictly worse one; which of two equally good chains stays is not decided by the property (either, but
        //      `updated` must say which); no other commodity's entry is touched
        (!old(distances)@.contains_key(*j) || dist_cmp(old(distances)@[*j].0, next_dist) is Greater) ==> updated,   // @compute_price_table.better_chain_replaces_recorded_one
        (old(distances)@.contains_key(*j) && dist_cmp(old(distances)@[*j].0, next_dist) is Less) ==> !updated,       // @compute_price_table.worse_chain_is_not_recorded
        updated ==> final(distances)@ == old(distances)@.insert(*j, WithDistance(next_dist, rate)),                   // @compute_price_table.recorded_chain_is_the_new_one
        !updated ==> final(distances)@ == old(distances)@,                                                              // @compute_price_table.rejected_chain_changes_nothing
{
    let updated = {EXPR};
    updated
}"""),
        U("callsite:compute_price_table.stale_queue_entry", PD, CPT, fn="stale_queue_entry", no_canary=True,
          slice=r"if (\*prev_dist < curr_dist) \{", slice_count=1,
          slice_template="""fn stale_queue_entry(prev_dist: &Distance, curr_dist: Distance) -> (b: bool)
    ensures
        // C09: a queued chain is dropped unexpanded only when a strictly better chain to the same commodity is already recorded
        b == (dist_cmp(*prev_dist, curr_dist) is Less),   // @compute_price_table.only_strictly_worse_queue_entries_are_skipped
{
    {EXPR}
}"""),
        U("callsite:compute_price_table.step_age", PD, CPT, fn="step_age", no_canary=True,
          slice=r"curr_dist\.extend\(\*source, ([^)]*)\)", slice_count=1,
          slice_template="""fn step_age(date: NaiveDate, record_date: NaiveDate) -> (r: TimeDelta)
    ensures
        // C09: the staleness of a step is the query date minus the date of the price used
        r.secs == (date.day() - record_date.day()) * SECS_PER_DAY,   // @compute_price_table.staleness_is_query_date_minus_price_date
{
    {EXPR}
}"""),
        U("callsite:compute_price_table.chain_rate", PD, CPT, fn="chain_rate", no_canary=True,
          slice=r"let rate = (prev_rate \* rate);", slice_count=1,
          slice_template="""fn chain_rate(prev_rate: Decimal, rate: Decimal) -> (r: Decimal)
    ensures
        // C09: the rate of a chain is the product of the rates of its steps
        r.val() == prev_rate.val() * rate.val(),   // @compute_price_table.chain_rate_is_the_product_of_step_rates
{
    {EXPR}
}"""),
        U("callsite:compute_price_table.start", PD, CPT, fn="start_distance", no_canary=True,
          slice=r"queue\.push\(WithDistance\(\s*(Distance \{[^}]*\}),\s*\(price_with, Decimal::ONE\),", slice_count=1,
          slice_template="""fn start_distance() -> (r: Distance)
    ensures
        // C09: the target commodity itself is at distance zero (rate one: textually `Decimal::ONE` in the same statement)
        r.num_ledger_conversions == 0, r.num_all_conversions == 0, r.staleness.secs == 0,   // @compute_price_table.search_starts_at_zero_distance
{
    {EXPR}
}"""),
        # A into A is the identity
        U("callsite:convert_single.identity", PD, [r"impl<'ctx> PriceRepository<'ctx>", r"pub fn convert_single\b"], fn="is_identity_case", no_canary=True,
          slice=r"if (value\.commodity == commodity_with) \{\s*return Ok\(value\);", slice_count=1,
          slice_template="""fn is_identity_case(value: SingleAmountStub, commodity_with: Commodity) -> (b: bool)
    ensures b == (value.commodity == commodity_with),   // @convert_single.same_commodity_is_identity
{
    {EXPR}
}"""),
        # ---- build_naive: every pair's prices end up sorted by date (what `latest_usable` above relies on), nothing added, dropped or re-sourced
        U("NaivePriceRepository(type)", PD, [r"struct NaivePriceRepository<'ctx>"]),
        ("raw", """
/// `Vec<(NaiveDate, Decimal)>::sort()` (ASSUMED std: a permutation, ordered by the tuple order - hence by date)
#[verifier::external_body]
pub fn sort_rates(v: &mut Vec<(NaiveDate, Decimal)>)
    ensures final(v)@.to_multiset() == old(v)@.to_multiset(),
        forall|i: int, j: int| 0 <= i <= j < final(v)@.len() ==> (#[trigger] final(v)@[i]).0.day() <= (#[trigger] final(v)@[j]).0.day(),
{ unimplemented!() }
/// e2 is e with its prices sorted by date: same source, same prices
pub open spec fn sorted_entry(e2: Entry, e: Entry) -> bool {
    &&& e2.0 == e.0
    &&& e2.1@.to_multiset() == e.1@.to_multiset()
    &&& forall|i: int, j: int| 0 <= i <= j < e2.1@.len() ==> (#[trigger] e2.1@[i]).0.day() <= (#[trigger] e2.1@[j]).0.day()
}
pub open spec fn sorted_inner(n: HashMap<Commodity, Entry>, o: HashMap<Commodity, Entry>) -> bool {
    &&& n@.dom() == o@.dom()
    &&& forall|c: Commodity| o@.contains_key(c) ==> sorted_entry(#[trigger] n@[c], o@[c])
}
"""),
        U("PriceRepositoryBuilder::build_naive", PD, [r"impl<'ctx> PriceRepositoryBuilder<'ctx>", r"fn build_naive\b"], fn="build_naive", wrap=("impl PriceRepositoryBuilder {", "}"),
          rewrites=[("R7",), RET(),
                    ("R41-nested-values-mut-for-each", "re:this\\.records\\s*\\.values_mut\\(\\)\\s*\\.for_each\\(\\|(\\w+)\\| \\1\\.values_mut\\(\\)\\.for_each\\(\\|(\\w+)\\| \\2\\.1\\.sort\\(\\)\\)\\);",
                     "let keys1__ = hashmap_keys(&this.records); let mut i__: usize = 0;\n        while i__ < keys1__.len() { let k1__ = keys1__[i__]; let mut inner__ = this.records.remove(&k1__).unwrap(); let ghost inner0__ = inner__;\n"
                     "            let keys2__ = hashmap_keys(&inner__); let mut j__: usize = 0;\n            while j__ < keys2__.len() { let k2__ = keys2__[j__]; let mut x = inner__.remove(&k2__).unwrap(); sort_rates(&mut x.1); inner__.insert(k2__, x); j__ += 1; }\n"
                     "            this.records.insert(k1__, inner__); i__ += 1; }", 1)],
          contract="""
        ensures
            // C09: "the most recent such price" is the last usable one of a date-sorted vector: every pair's prices are sorted by date, and sorting
            //      neither adds, drops, changes nor re-sources a price; no pair appears or disappears
            forall|w: Commodity, o: Commodity| (match slot(self.records@, w, o) {
                Some(e) => #[trigger] slot(r.records@, w, o) matches Some(e2) && sorted_entry(e2, e),
                None => slot(r.records@, w, o) is None }),   // @build_naive.every_pair_sorted_by_date_nothing_lost
""",
          loops={0: """
            invariant
                i__ <= keys1__@.len(), keys1__@.no_duplicates(),
                forall|k: Commodity| keys1__@.contains(k) <==> self.records@.contains_key(k),
                this.records@.dom() == self.records@.dom(),
                forall|a: int| 0 <= a < i__ ==> sorted_inner(#[trigger] this.records@[keys1__@[a]], self.records@[keys1__@[a]]),
                forall|a: int| i__ <= a < keys1__@.len() ==> #[trigger] this.records@[keys1__@[a]] == self.records@[keys1__@[a]],
            decreases keys1__@.len() - i__,
""", 1: """
                invariant
                    j__ <= keys2__@.len(), keys2__@.no_duplicates(),
                    forall|k: Commodity| keys2__@.contains(k) <==> inner0__@.contains_key(k),
                    inner__@.dom() == inner0__@.dom(),
                    forall|b: int| 0 <= b < j__ ==> sorted_entry(#[trigger] inner__@[keys2__@[b]], inner0__@[keys2__@[b]]),
                    forall|b: int| j__ <= b < keys2__@.len() ==> #[trigger] inner__@[keys2__@[b]] == inner0__@[keys2__@[b]],
                decreases keys2__@.len() - j__,
"""},
          loop_body_start={0: "            proof { assert(keys1__@.contains(keys1__@[i__ as int])); }",
                           1: "                proof { assert(keys2__@.contains(keys2__@[j__ as int])); }"},
          loop_body_end={1: """                proof {
                    assert(inner__@.dom() =~= inner0__@.dom());
                    assert forall|b: int| 0 <= b < j__ implies sorted_entry(#[trigger] inner__@[keys2__@[b]], inner0__@[keys2__@[b]]) by {
                        if b < j__ - 1 { assert(keys2__@[b] != keys2__@[j__ - 1]); }
                    }
                    assert forall|b: int| j__ <= b < keys2__@.len() implies #[trigger] inner__@[keys2__@[b]] == inner0__@[keys2__@[b]] by {
                        assert(keys2__@[b] != keys2__@[j__ - 1]);
                    }
                }""",
                         0: """            proof {
                assert(this.records@.dom() =~= self.records@.dom());
                assert(sorted_inner(inner__, inner0__)) by {
                    assert forall|c: Commodity| inner0__@.contains_key(c) implies sorted_entry(#[trigger] inner__@[c], inner0__@[c]) by {
                        assert(keys2__@.contains(c));
                        let b = choose|b: int| 0 <= b < keys2__@.len() && keys2__@[b] == c;
                        assert(sorted_entry(inner__@[keys2__@[b]], inner0__@[keys2__@[b]]));
                    }
                }
                assert forall|a: int| 0 <= a < i__ implies sorted_inner(#[trigger] this.records@[keys1__@[a]], self.records@[keys1__@[a]]) by {
                    if a < i__ - 1 { assert(keys1__@[a] != keys1__@[i__ - 1]); }
                }
                assert forall|a: int| i__ <= a < keys1__@.len() implies #[trigger] this.records@[keys1__@[a]] == self.records@[keys1__@[a]] by {
                    assert(keys1__@[a] != keys1__@[i__ - 1]);
                }
            }"""},
          after_loop={0: """        proof {
            assert forall|w: Commodity, o: Commodity| (match slot(self.records@, w, o) {
                Some(e) => #[trigger] slot(this.records@, w, o) matches Some(e2) && sorted_entry(e2, e),
                None => slot(this.records@, w, o) is None }) by {
                if self.records@.contains_key(w) {
                    assert(keys1__@.contains(w));
                    let a = choose|a: int| 0 <= a < keys1__@.len() && keys1__@[a] == w;
                    assert(sorted_inner(this.records@[keys1__@[a]], self.records@[keys1__@[a]]));
                }
            }
        }"""}),
        U("anchor:build sorts before the repository is used", PD, [r"impl<'ctx> PriceRepositoryBuilder<'ctx>", r"pub fn build\b"], no_canary=True,
          slice=r"(PriceRepository::new\(self\.build_naive\(\)\))", slice_count=1, slice_template="/* anchor: {EXPR} */\n"),
    ],
}
