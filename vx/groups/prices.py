"""C09: the deductive fragments of price selection (the search itself is decided only by the bounded family c09)."""
from ._amount_units import U, RET, TYPES
PD = "core/src/report/price_db.rs"
CPT = [r"impl<'ctx> NaivePriceRepository<'ctx>", r"fn compute_price_table\b"]

GROUP = {
    "name": "prices",
    "uses": "use std::collections::HashMap;\nuse vstd::std_specs::hash::*;\nuse vstd::std_specs::cmp::*;\n",
    "parts": [
        ("text", "rust_decimal.rs"),
        ("text", "handles.rs"),
        ("text", "chrono.rs"),
        ("text", "prices_spec.rs"),
        U("Distance(type)", PD, [r"struct Distance\b"], derive="Clone"),
        # the criteria are compared lexicographically in field order (derive(Ord)): the order of the fields is the priority
        U("anchor:Distance field order", PD, [r"struct Distance\b"], no_canary=True,
          slice=r"(num_ledger_conversions: usize,\s*num_all_conversions: usize,\s*staleness: TimeDelta,)", slice_count=1, slice_template="/* anchor: {EXPR} */\n"),
        U("Distance::extend", PD, [r"impl Distance\b", r"fn extend\b"], fn="extend", wrap=("impl Distance {", "}"),
          rewrites=[RET(), ("R24-cmp-max", "std::cmp::max(self.staleness, staleness)", "timedelta_max(self.staleness, staleness)", 1)],
          contract="""
        requires self.num_ledger_conversions < usize::MAX, self.num_all_conversions < usize::MAX,
        ensures
            // C09: a step through a ledger-derived price counts as a ledger step, a price-DB step does not; every step counts;
            //      the staleness of a chain is that of its stalest step
            r.num_ledger_conversions == self.num_ledger_conversions + (if source is Ledger { 1int } else { 0int }),   // @Distance.extend.ledger_steps_counted
            r.num_all_conversions == self.num_all_conversions + 1,                                                   // @Distance.extend.every_step_counted
            r.staleness == (if self.staleness.secs >= staleness.secs { self.staleness } else { staleness }),           // @Distance.extend.stalest_step
"""),
        # which prices may be used as of `date`: the predicate handed to partition_point
        U("callsite:compute_price_table.usable_price", PD, CPT, fn="price_usable", no_canary=True,
          slice=r"rates\.partition_point\(\|\(record_date, _\)\|\s*([^)]*)\)", slice_count=1,
          slice_template="""fn price_usable(record_date: &NaiveDate, date: NaiveDate) -> (b: bool)
    ensures
        // C09: only prices dated on or before the date are used
        b == (record_date.day() <= date.day()),   // @compute_price_table.only_prices_dated_on_or_before_the_date
{
    {EXPR}
}"""),
        # which of the usable prices is taken: the last of the usable prefix of the date-sorted vector = the most recent one
        U("callsite:compute_price_table.latest_usable", PD, CPT, fn="latest_usable", no_canary=True,
          slice=r"let \(record_date, rate\) = (rates\[[^\]]*\]);", slice_count=1,
          slice_template="""fn latest_usable(rates: &Vec<(NaiveDate, Decimal)>, bound: usize) -> (r: (NaiveDate, Decimal))
    requires
        0 < bound <= rates@.len(),
        // partition_point (std): the usable prices are exactly the first `bound` ones; build_naive sorted the vector by date
        forall|i: int, j: int| 0 <= i <= j < rates@.len() ==> (#[trigger] rates@[i]).0.day() <= (#[trigger] rates@[j]).0.day(),
    ensures
        // C09: among the usable prices (indices < bound) the most recent one is used
        r == rates@[bound - 1],
        forall|i: int| 0 <= i < bound ==> (#[trigger] rates@[i]).0.day() <= r.0.day(),   // @compute_price_table.most_recent_usable_price
{
    {EXPR}
}"""),
        U("anchor:no usable price means no edge", PD, CPT, no_canary=True,
          slice=r"(if bound == 0 \{)", slice_count=1, slice_template="/* anchor: {EXPR} */\n"),
        # A into A is the identity
        U("callsite:convert_single.identity", PD, [r"impl<'ctx> PriceRepository<'ctx>", r"pub fn convert_single\b"], fn="is_identity_case", no_canary=True,
          slice=r"if (value\.commodity == commodity_with) \{\s*return Ok\(value\);", slice_count=1,
          slice_template="""fn is_identity_case(value: SingleAmountStub, commodity_with: Commodity) -> (b: bool)
    ensures b == (value.commodity == commodity_with),   // @convert_single.same_commodity_is_identity
{
    {EXPR}
}"""),
    ],
}
