"""C19: column arithmetic of formatted postings."""
F = "core/src/syntax/display.rs"
POSTING_FMT = [r"impl<Deco: Decoration> fmt::Display for WithContext<'_, Posting<'_, Deco>>", r"fn fmt\b"]

GROUP = {
    "name": "columns",
    "parts": [
        ("unit", {
            "name": "get_column", "file": F, "path": [r"fn get_column\b"], "fn": "get_column",
            "rewrites": [("R0-named-return", "-> usize", "-> (r: usize)", 1)],
            "contract": """
    requires left + padding <= usize::MAX,
    ensures
        r >= padding,                                             // @get_column.at_least_padding
        left + padding < colsize ==> left + r == colsize,         // @get_column.lands_on_column
        left + padding >= colsize ==> r == padding,               // @get_column.overlong_gets_padding
""",
        }),
        ("unit", {"name": "Alignment", "file": F, "path": [r"enum Alignment\b"], "derive": "Clone, Copy"}),
        ("text", "columns_spec.rs"),
        ("unit", {
            "name": "Alignment::absolute", "file": F, "path": [r"impl Alignment\b", r"fn absolute\b"], "fn": "absolute",
            "wrap": ("impl Alignment {", "}"),
            "rewrites": [("R0-named-return", "-> usize", "-> (r: usize)", 1)],
            "contract": """
    ensures r == (match self { Alignment::Complete(x) => x, Alignment::Partial(x) => x }),   // @absolute.is_offset
""",
        }),
        ("unit", {
            "name": "Alignment::plus", "file": F, "path": [r"impl Alignment\b", r"fn plus\b"], "fn": "plus",
            "wrap": ("impl Alignment {", "}"),
            "rewrites": [("R0-named-return", "-> Alignment", "-> (r: Alignment)", 1)],
            "contract": """
    requires prefix_length + self.absolute_spec() + suffix_length <= usize::MAX,
    ensures
        // a found alignment only moves by what is printed before it; an open one also grows by what follows
        self matches Alignment::Complete(x) ==> r == Alignment::Complete((prefix_length + x) as usize),   // @plus.complete_shifts_by_prefix
        self matches Alignment::Partial(x) ==> r == Alignment::Partial((prefix_length + x + suffix_length) as usize),   // @plus.partial_grows
""",
        }),
        ("unit", {
            "name": "literal:posting_indent", "file": F, "path": POSTING_FMT, "no_canary": True,
            "slice": r'write!\(\s*f,\s*"((?:[^"\\\\]|\\\\.)*)"', "slice_raw": True, "slice_occurrence": 0,
            "slice_template": """proof fn posting_indent_literal() {
    let lit = "{EXPR}";
    reveal_strlit("{EXPR}");
    // the posting line starts with exactly four spaces, then the clear mark / account placeholder
    assert(lit@.len() >= 5 && lit@[0] == ' ' && lit@[1] == ' ' && lit@[2] == ' ' && lit@[3] == ' ' && lit@[4] == '{');   // @posting.indent_is_four_spaces
}""",
        }),
        ("unit", {
            "name": "literal:posting_metadata_indent", "file": F, "path": POSTING_FMT, "no_canary": True,
            "slice": r'writeln!\(\s*f,\s*"((?:[^"\\\\]|\\\\.)*)"\s*,\s*m\s*\)', "slice_raw": True, "slice_occurrence": 0,
            "slice_template": """proof fn posting_metadata_literal() {
    let lit = "{EXPR}";
    reveal_strlit("{EXPR}");
    assert(lit@.len() >= 5 && lit@[0] == ' ' && lit@[1] == ' ' && lit@[2] == ' ' && lit@[3] == ' ' && lit@[4] == ';');   // @posting.metadata_indent_is_four_spaces
}""",
        }),
        ("unit", {
            "name": "literal:txn_metadata_indent", "file": F, "no_canary": True,
            "path": [r"impl<Deco: Decoration> fmt::Display for WithContext<'_, Transaction<'_, Deco>>", r"fn fmt\b"],
            "slice": r'writeln!\(\s*f,\s*"((?:[^"\\\\]|\\\\.)*)"\s*,\s*m\s*\)', "slice_raw": True, "slice_occurrence": 0,
            "slice_template": """proof fn txn_metadata_literal() {
    let lit = "{EXPR}";
    reveal_strlit("{EXPR}");
    assert(lit@.len() >= 5 && lit@[0] == ' ' && lit@[1] == ' ' && lit@[2] == ' ' && lit@[3] == ' ' && lit@[4] == ';');   // @txn.metadata_indent_is_four_spaces
}""",
        }),
        ("unit", {
            "name": "callsite:amount_padding", "file": F, "path": POSTING_FMT, "fn": "amount_padding",
            "slice": r"get_column\(48\b", "slice_count": 1,
            "slice_header": "fn amount_padding(account_width: usize, alignment: usize) -> (r: usize)",
            "contract": """
    requires account_width < 0x4000_0000, alignment < 0x4000_0000,
    ensures
        r >= 2,                                                                             // @posting.two_spaces_after_account
        account_width + alignment + 2 < 48 ==> 4 + account_width + r + alignment == 52,    // @posting.amount_ends_at_column_52
""",
        }),
        ("unit", {
            "name": "callsite:account_width", "file": F, "path": POSTING_FMT, "fn": "account_width", "no_canary": True,
            "slice": r"let account_width = ([^;]*);", "slice_count": 1,
            "slice_template": """fn account_width(account: &str, post_clear: &str) -> (r: usize)
    requires width_cjk_spec(account@) + width_spec(post_clear@) <= usize::MAX,
    ensures
        // C19: the account is measured in display columns (East-Asian wide characters count two), plus the clear mark
        r == width_cjk_spec(account@) + width_spec(post_clear@),   // @posting.account_measured_in_display_columns
{
    {EXPR}
}""",
            "rewrites": [("R17-free-variable", "post.account.as_undecorated().as_ref()", "account", 1)],
        }),
        ("unit", {
            "name": "callsite:assertion_trailing", "file": F, "path": POSTING_FMT, "fn": "assertion_trailing", "no_canary": True,
            "slice": r"let trailing = ([^;]*);", "slice_count": 1,
            "slice_template": """fn assertion_trailing(balance_str: &String, alignment: usize) -> (r: usize)
    requires alignment <= width_cjk_spec(balance_str@),
    ensures
        // C19: what follows the numeric part of an assertion (" CHF", " 円") is measured in display columns
        r == width_cjk_spec(balance_str@) - alignment,   // @posting.assertion_trailing_measured_in_display_columns
{
    {EXPR}
}""",
        }),
        ("unit", {
            "name": "callsite:balance_padding", "file": F, "path": POSTING_FMT, "fn": "balance_padding",
            "slice": r"get_column\(50\b", "slice_count": 1,
            "slice_header": "fn balance_padding(account_width: usize, trailing: usize) -> (r: usize)",
            "contract": """
    requires account_width < 0x4000_0000, trailing < 0x4000_0000,
    ensures
        // r is the width into which " =" is right-aligned: the `=` is its last column, so r - 1 spaces precede it
        r >= 3,                                                                             // @posting.two_spaces_before_assertion
        // `=` lands in the same column as after an amount ending at 52 followed by `trailing` columns and " ="
        account_width + 3 <= 50 + trailing ==> 4 + account_width + r == 52 + trailing + 2,  // @posting.assertion_only_aligned
""",
        }),
    ],
}
