"""C19: where the aligned number of a printed expression ends - the three `fmt_with_alignment` impls, the operators' Display impls."""
from ._amount_units import U, RET
from ._eval_units import EXPR_TYPES
from . import columns as _columns
from . import rescale as _rescale
D = "core/src/syntax/display.rs"
EX = "core/src/syntax/expr.rs"

def _part(group, name, **over):
    for kind, val in group["parts"]:
        if kind == "unit" and val["name"] == name:
            return (kind, dict(val, **over))
    raise KeyError(name)

OPQ = dict(opaque=True, no_canary=True)
SPEC_FNS = """spec fn tx(&self) -> Seq<char> { self.value.text(*self.context) }
    spec fn al(&self) -> Option<nat> { self.value.align(*self.context) }
    fn fmt_with_alignment<"""
TRAIT_CONTRACT = """
        requires
            utf8_len(self.tx()) <= usize::MAX,   // the printed text fits the address space (it is about to exist as a String)
        ensures
            // C19: what is appended to the sink is exactly the expression's text, and the returned alignment is the byte offset of the end
            // of the numeric part of the first amount that carries a commodity (Complete), else the length of the whole text (Partial)
            r is Ok ==> final(f).text() =~= old(f).text() + self.tx(),                       // @fmt_with_alignment.prints_the_expression_text
            r matches Ok(a) ==> a == alignment_of(self.al(), self.tx()),                      // @fmt_with_alignment.alignment_is_end_of_first_commodity_number
"""

def impl_unit(name, hdr, rewrites=(), **kw):
    return U(name, D, [hdr], fn="fmt_with_alignment", lifetimes="keep",
             rewrites=[RET(), ("R1-erased-type-lifetime", "re:(expr::\\w+)<'_>", "\\1", 1), ("R8-trait-contract", "fn fmt_with_alignment<", SPEC_FNS, 1), ("R50",)] + list(rewrites),
             contract="\n        decreases *self.value\n", **kw)

GROUP = {
    "name": "alignment",
    "features": ["allocator_api"],
    "uses": "use std::collections::HashMap;\nuse crate::expr::{UnaryOp, BinaryOp};\nuse crate::fmt::Write as _;\n",
    "broadcast": ["rust_decimal::axiom_round", "rust_decimal::axiom_sign"],
    "parts": [
        ("text", "rust_decimal.rs"),
        ("text", "handles.rs"),
        *EXPR_TYPES,
        ("text", "rescale_stub.rs"),
        ("text", "fmt_model.rs"),
        _part(_columns.GROUP, "Alignment"),
        ("text", "columns_spec.rs"),
        _part(_columns.GROUP, "Alignment::absolute", **OPQ),
        _part(_columns.GROUP, "Alignment::plus", **OPQ),
        ("text", "alignment_spec.rs"),
        # display::rescale: assumed here (proved in group `rescale`), plus: it is a function of its arguments
        _part(_rescale.GROUP, "display::rescale", **dict(OPQ, contract="\n        ensures r == rescale_spec(*x, *context),\n")),
        U("WithContext(type)", D, [r"pub struct WithContext<'a, T>"], lifetimes="keep", pub_fields=True),
        U("WithContext::pass_context", D, [r"impl<'a, T> WithContext<'a, T>", r"fn pass_context<U>"], fn="pass_context", lifetimes="keep",
          wrap=("impl<'a, T> WithContext<'a, T> {", "}"), rewrites=[RET()],
          contract="\n        ensures r.value == other, r.context == self.context,   // @pass_context.same_context_other_value\n"),
        # ---- the operators' Display impls: one ASCII character each (the alignment arithmetic counts 1 and 3)
        U("Display for UnaryOp", EX, [r"impl fmt::Display for UnaryOp\b"], fn="fmt", lifetimes="keep", reveal_literals=True,
          rewrites=[RET(), ("R50",), ("R1-formatter", "fmt::Formatter<'_>", "fmt::Formatter", "opt"), ("R8-drop-trait", "impl fmt::Display for UnaryOp", "impl UnaryOp", 1)],
          contract="\n        ensures r is Ok ==> final(f).text() =~= old(f).text() + self.display_text(),   // @UnaryOp.fmt.prints_display_text\n"),
        U("Display for BinaryOp", EX, [r"impl fmt::Display for BinaryOp\b"], fn="fmt", lifetimes="keep", reveal_literals=True,
          rewrites=[RET(), ("R50",), ("R1-formatter", "fmt::Formatter<'_>", "fmt::Formatter", "opt"), ("R8-drop-trait", "impl fmt::Display for BinaryOp", "impl BinaryOp", 1)],
          contract="\n        ensures r is Ok ==> final(f).text() =~= old(f).text() + self.display_text(),   // @BinaryOp.fmt.prints_display_text\n"),
        U("DisplayWithAlignment(trait)", D, [r"trait DisplayWithAlignment\b"],
          rewrites=[("R8-trait-contract", "fn fmt_with_alignment<", "spec fn tx(&self) -> Seq<char>;\n    spec fn al(&self) -> Option<nat>;\n    fn fmt_with_alignment<", 1),
                    ("R0-named-return", "-> Result<Alignment, fmt::Error>;", "-> (r: Result<Alignment, fmt::Error>)" + TRAIT_CONTRACT.rstrip() + "\n    ;", 1)]),
        impl_unit("fmt_with_alignment for ValueExpr", r"impl DisplayWithAlignment for WithContext<'_, expr::ValueExpr<'_>>",
                  body_start="""        proof { match self.value { expr::ValueExpr::Paren(e) => { lemma_paren_len(*e, *self.context); lemma_expr_align_inside(*e, *self.context); } _ => {} } }"""),
        impl_unit("fmt_with_alignment for Expr", r"impl DisplayWithAlignment for WithContext<'_, expr::Expr<'_>>",
                  body_start="""        proof { match self.value {
            expr::Expr::Unary(e) => { lemma_unary_len(*e, *self.context); lemma_op_len(e.op, expr::BinaryOp::Add); lemma_expr_align_inside(*e.expr, *self.context); }
            expr::Expr::Binary(e) => { lemma_binary_len(*e, *self.context); lemma_expr_align_inside(*e.lhs, *self.context); lemma_expr_align_inside(*e.rhs, *self.context); }
            _ => {} } }""",
                  rewrites=[("R52-box-as-ref", "re:\\b(\\w+(?:\\.\\w+)?)\\.as_ref\\(\\)", "box_ref(&\\1)", None), ("R34d-result-map", "re:(self\\s*\\.pass_context\\(box_ref\\(&e\\.expr\\)\\)\\s*\\.fmt_with_alignment\\(f\\))\\s*\\.map\\(\\|(\\w+)\\|\\s*(\\w+\\.plus\\([^)]*\\))\\)",
                             "match \\1 { Ok(\\2) => Ok(\\3), Err(e__) => Err(e__) }", "opt")]),
        impl_unit("fmt_with_alignment for Amount", r"impl DisplayWithAlignment for WithContext<'_, expr::Amount<'_>>",
                  rewrites=[("R24-str-model", "re:\\b(\\w+)\\.as_str\\(\\)\\.len\\(\\)", "str_byte_len(\\1.as_str())", None), ("R51-to-string", "re:(rescale\\([^;]*?\\))\\.to_string\\(\\)", "to_string_of(&\\1)", 1)]),
        # the blanket `impl Display for WithContext<T> where Self: DisplayWithAlignment`: `{}` prints what fmt_with_alignment appends
        U("Display for WithContext<T: DisplayWithAlignment>", D, [r"impl<T> fmt::Display for WithContext<'_, T>"], fn="fmt", lifetimes="keep",
      rewrites=[RET(), ("R1-formatter", "fmt::Formatter<'_>", "fmt::Formatter", 1),
                ("R8-drop-trait", "impl<T> fmt::Display for WithContext<'_, T>", "impl<T> WithContext<'_, T>", 1),
                ("R34d-result-map", "re:(self\\.fmt_with_alignment\\(f\\))\\.map\\(\\|_\\| \\(\\)\\)", "match \\1 { Ok(_) => Ok(()), Err(e__) => Err(e__) }", "opt")],
      contract="""
        requires utf8_len(self.tx()) <= usize::MAX,
        ensures
            // what `{}` prints for an expression under a context IS the text fmt_with_alignment appends (the alignment is dropped)
            r is Ok ==> final(f).text() =~= old(f).text() + self.tx(),   // @WithContext.fmt.display_is_the_aligned_text
"""),
    ],
}
