"""C12: InternStore -- aliases resolve to their canonical, conflicting declarations are rejected."""
from ._amount_units import U, RET
IN = "core/src/report/intern.rs"
IMPL = ("impl<T: FromInterned> InternStore<T> {", "}")
ST = {"lifetimes": "static"}
HDR = [r"impl<'arena, T: FromInterned<'arena>> InternStore<'arena, T>"]

GROUP = {
    "name": "intern",
    "uses": "use std::collections::HashMap;\nuse vstd::std_specs::hash::*;\nuse std::marker::PhantomData;\n",
    "features": ["allocator_api"],
    "broadcast": ["str_axioms::axiom_as_static", "str_axioms::axiom_str_key_model", "str_axioms::axiom_str_contains", "str_axioms::axiom_str_maps", "str_axioms::axiom_str_key_matches"],
    "parts": [
        ("text", "intern_stub.rs"),
        U("InternedStr(type)", IN, [r"pub\(super\) struct InternedStr<'arena>"], derive="Clone, Copy", **ST),
        U("InternedStr::as_str", IN, [r"impl<'arena> InternedStr<'arena>", r"pub fn as_str\b"], fn="as_str", wrap=("impl InternedStr {", "}"),
          rewrites=[RET()], contract="\n        ensures r == self.0,\n", **ST),
        U("FromInterned(trait)", IN, [r"pub\(super\) trait FromInterned<'arena>"],
          rewrites=[("R8-trait-contract", "fn from_interned(v: InternedStr) -> Self;",
                     "spec fn interned(&self) -> InternedStr;\n    fn from_interned(v: InternedStr) -> (r: Self) ensures r.interned() == v;", 1),
                    ("R8-trait-contract", "fn as_interned(&self) -> InternedStr;", "fn as_interned(&self) -> (r: InternedStr) ensures r == self.interned();", 1)], **ST),
        U("Commodity(type)", "core/src/report/commodity.rs", [r"pub struct Commodity<'arena>"], derive="Clone, Copy", **ST),
        U("FromInterned for Commodity", "core/src/report/commodity.rs", [r"impl<'arena> FromInterned<'arena> for Commodity<'arena>"],
          rewrites=[("R8-trait-contract", "fn from_interned(", "open spec fn interned(&self) -> InternedStr { self.0 }\n    fn from_interned(", 1)], **ST),
        U("Account(type)", "core/src/report/context.rs", [r"pub struct Account<'arena>"], derive="Clone, Copy", **ST),
        U("FromInterned for Account", "core/src/report/context.rs", [r"impl<'arena> FromInterned<'arena> for Account<'arena>"],
          rewrites=[("R8-trait-contract", "fn from_interned(", "open spec fn interned(&self) -> InternedStr { self.0 }\n    fn from_interned(", 1)], **ST),
        U("InternError", IN, [r"pub enum InternError\b"]),
        U("InternStore(type)", IN, [r"pub\(super\) struct InternStore<'arena, T>"], **ST),
        U("StoredValue(type)", IN, [r"pub enum StoredValue<'arena, T>"], **ST),
        ("text", "intern_spec.rs"),
        U("StoredValue::as_canonical", IN, [r"impl<T: Copy> StoredValue<'_, T>", r"fn as_canonical\b"], fn="as_canonical", wrap=("impl<T: Copy> StoredValue<T> {", "}"),
          rewrites=[RET()],
          contract="""
        ensures r == (match *self { StoredValue::Canonical(x) => x, StoredValue::Alias { canonical, .. } => canonical }),   // @StoredValue.as_canonical
""", **ST),
        U("InternStore::as_type", IN, HDR + [r"fn as_type\b"], fn="as_type", wrap=IMPL, rewrites=[RET()],
          contract="\n        ensures r.interned() == InternedStr(s),   // @InternStore.as_type\n", **ST),
        U("InternStore::get", IN, HDR + [r"fn get\b"], fn="get", wrap=IMPL, rewrites=[RET()],
          contract="""
        ensures
            r is Some <==> self.records@.contains_key(as_static(value)),
            r matches Some(StoredValue::Canonical(c)) ==> self.is_canonical(value) && c.interned() == InternedStr(as_static(value)),   // @InternStore.get.canonical
            r matches Some(StoredValue::Alias { alias, canonical }) ==> self.is_alias(value) && alias == as_static(value)
                && canonical.interned() == self.records@[as_static(value)]->Some_0,                                                    // @InternStore.get.alias_points_to_canonical
""", **ST),
        U("InternStore::resolve", IN, HDR + [r"pub fn resolve\b"], fn="resolve", wrap=IMPL, rewrites=[RET()],
          contract="""
        ensures
            // C12: an alias resolves to the canonical it was declared for; a canonical name to itself; unknown names to nothing
            r is Some <==> self.lookup(value) is Some,
            r matches Some(x) ==> Some(x.interned()) == self.lookup(value),   // @InternStore.resolve.alias_to_canonical
""", **ST),
        U("InternStore::insert_canonical_impl", IN, HDR + [r"fn insert_canonical_impl\b"], fn="insert_canonical_impl", wrap=IMPL, rewrites=[RET(), ("R12d",)],
          contract="""
        requires !old(self).records@.contains_key(as_static(value)), old(self).wf(),
        ensures
            final(self).records@ == old(self).records@.insert(as_static(value), None),
            r.interned() == InternedStr(as_static(value)),
            final(self).wf(), final(self).extends(old(self)),
""", **ST),
        U("InternStore::insert_alias_impl", IN, HDR + [r"fn insert_alias_impl\b"], fn="insert_alias_impl", wrap=IMPL, rewrites=[("R12d",)],
          contract="""
        requires
            !old(self).records@.contains_key(as_static(value)), old(self).wf(),
            old(self).records@.contains_key(canonical.0) && old(self).records@[canonical.0] is None,
        ensures
            final(self).records@ == old(self).records@.insert(as_static(value), Some(canonical)),
            final(self).wf(), final(self).extends(old(self)),
""", **ST),
        U("InternStore::ensure", IN, HDR + [r"pub fn ensure\b"], fn="ensure", wrap=IMPL, rewrites=[RET()],
          contract="""
        requires old(self).wf(),
        ensures
            final(self).wf(), final(self).extends(old(self)),
            // an already known name (canonical or alias) means what it meant; an unknown one becomes canonical
            old(self).lookup(value) is Some ==> Some(r.interned()) == old(self).lookup(value) && final(self).records@ == old(self).records@,   // @InternStore.ensure.alias_transparent
            old(self).lookup(value) is None ==> r.interned() == InternedStr(as_static(value))
                && final(self).records@ == old(self).records@.insert(as_static(value), None),                                              // @InternStore.ensure.registers_unknown_as_canonical
            Some(r.interned()) == final(self).lookup(value),
""", **ST),
        U("InternStore::insert_canonical", IN, HDR + [r"pub fn insert_canonical\b"], fn="insert_canonical", wrap=IMPL, rewrites=[RET()],
          contract="""
        requires old(self).wf(),
        ensures
            final(self).wf(), final(self).extends(old(self)),
            // declaring as canonical a name already declared an alias is rejected; nothing changes
            old(self).is_alias(value) ==> r == Err::<T, InternError>(InternError::AlreadyAlias) && final(self).records@ == old(self).records@,   // @InternStore.insert_canonical.rejects_alias
            !old(self).is_alias(value) ==> (r matches Ok(x) && x.interned() == InternedStr(as_static(value)) && final(self).is_canonical(value)
                && final(self).records@ == old(self).records@.insert(as_static(value), None)),                                                  // @InternStore.insert_canonical.registers
            // frame (used as an assumed interface by ProcessAccumulator::process in group bookkeep): no OTHER name changes its status
            forall|n: &str| as_static(n) != as_static(value) ==> final(self).is_canonical(n) == old(self).is_canonical(n),   // @InternStore.insert_canonical.other_names_keep_their_status
            forall|n: &str| final(self).is_alias(n) ==> old(self).is_alias(n),                                                // @InternStore.insert_canonical.makes_no_alias
""", **ST),
        U("InternStore::insert_alias", IN, HDR + [r"pub fn insert_alias\b"], fn="insert_alias", wrap=IMPL, rewrites=[RET()],
          contract="""
        requires
            old(self).wf(),
            // the canonical handle comes from this store (insert_canonical's result)
            old(self).records@.contains_key(canonical.interned().0) && old(self).records@[canonical.interned().0] is None,
        ensures
            final(self).wf(), final(self).extends(old(self)),
            // declaring as an alias a name already in use as a canonical name is rejected; nothing changes
            old(self).is_canonical(value) ==> r == Err::<(), InternError>(InternError::AlreadyCanonical) && final(self).records@ == old(self).records@,   // @InternStore.insert_alias.rejects_canonical
            old(self).is_alias(value) ==> r is Ok && final(self).records@ == old(self).records@,
            !old(self).records@.contains_key(as_static(value)) ==> r is Ok
                && final(self).records@ == old(self).records@.insert(as_static(value), Some(canonical.interned())),   // @InternStore.insert_alias.registers
            // transparency: afterwards the alias means the canonical
            (r is Ok && !old(self).is_alias(value)) ==> final(self).lookup(value) == Some(canonical.interned()),      // @InternStore.insert_alias.alias_means_canonical
            forall|n: &str| final(self).is_canonical(n) ==> old(self).is_canonical(n),                                       // @InternStore.insert_alias.makes_no_canonical
            forall|n: &str| as_static(n) != as_static(value) ==> final(self).is_alias(n) == old(self).is_alias(n),          // @InternStore.insert_alias.other_names_keep_their_status
""", **ST),
        # ---- `okane accounts` / the register's account set: only canonical entries of the store are listed, never an alias
        U("callsite:ReportContext::all_accounts_unsorted.keeps_canonical_only", "core/src/report/context.rs", [r"impl<'ctx> ReportContext<'ctx>", r"fn all_accounts_unsorted\b"], fn="listed_account", no_canary=True,
          slice=r"filter_map\(\|x\| (match x \{[^}]*\}[^}]*\})\)", slice_count=1, lifetimes="static",
          slice_template="""fn listed_account<T: Copy>(x: StoredValue<T>) -> (r: Option<T>)
    ensures
        // C12: reports show canonical names only: an alias entry of the store is never listed as an account of its own
        r == (match x { StoredValue::Canonical(c) => Some(c), StoredValue::Alias { .. } => None }),   // @all_accounts.aliases_are_never_listed
{
    {EXPR}
}"""),
    ],
}
