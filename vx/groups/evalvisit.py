"""C08 (evaluation half, recursion): Evaluable::eval_visit on ValueExpr / Expr / UnaryOpExpr / BinaryOpExpr."""
from ._amount_units import TYPES, SINGLE, POSTING, AMOUNT, opaque, U, RET
from ._eval_units import EXPR_TYPES, EVALUATED_TYPE, EVALUATED
EVR = "core/src/report/eval.rs"
R22 = [("R22-fnmut-as-fn", "F: FnMut(&expr::Amount)", "F: Fn(&expr::Amount)", 1), ("R22-fnmut-as-fn", "evaluator: &mut F", "evaluator: &F", 1)]
CONTRACT = """
        requires forall|a: &expr::Amount| #[trigger] evaluator.requires((a,)),
        ensures
            // whenever evaluation succeeds the value is the one ordinary arithmetic with commodity typing gives;
            // ill-typed expressions (no value under sem_rel) therefore fail
            forall|lit: spec_fn(expr::Amount) -> Option<EV>| #[trigger] evaluator_computes(evaluator, lit) ==> (r is Ok ==> self.sem(lit) == Some(r->Ok_0.sem())),   // @eval_visit.value_is_ordinary_arithmetic
"""

def impl_unit(name, hdr, sem_body):
    return U(name, EVR, [hdr], fn="eval_visit",
             rewrites=[RET()] + R22 + [("R8-trait-contract", "fn eval_visit<", "open spec fn sem(&self, lit: spec_fn(expr::Amount) -> Option<EV>) -> Option<EV>\n        decreases self\n    {\n" + sem_body + "\n    }\n    fn eval_visit<", 1)],
             contract="\n        decreases self\n")

GROUP = {
    "name": "evalvisit",
    "uses": "use std::collections::HashMap;\nuse vstd::std_specs::hash::*;\nuse core::ops::{Add, AddAssign, Mul, MulAssign, Neg, Sub, SubAssign};\n",
    "broadcast": ["rust_decimal::axiom_round", "rust_decimal::axiom_sign", "key_axioms::axiom_commodity_key_model", "key_axioms::axiom_account_key_model",
                  "amount_lemmas::lemma_single_entry", "amount_lemmas::lemma_ncomm"],
    "parts": [
        ("text", "rust_decimal.rs"), ("text", "handles.rs"), ("text", "std_gaps.rs"), ("text", "ctx_stub.rs"),
        *TYPES, ("text", "amount_spec.rs"),
        *opaque(SINGLE), *opaque(POSTING), *opaque(AMOUNT),
        *EXPR_TYPES, *EVALUATED_TYPE, ("text", "evaluated_spec.rs"),
        *opaque(EVALUATED),
        ("text", "evalvisit_spec.rs"),
        U("Evaluable(trait)", EVR, [r"pub\(crate\) trait Evaluable\b"],
          rewrites=R22 + [("R16m", ["eval_mut", "eval"]),
                          ("R8-trait-contract", "fn eval_visit<", "spec fn sem(&self, lit: spec_fn(expr::Amount) -> Option<EV>) -> Option<EV>;\n    fn eval_visit<", 1),
                          ("R0-named-return", ") -> Result<Evaluated, EvalError>;", ") -> (r: Result<Evaluated, EvalError>)" + CONTRACT.rstrip() + "\n    ;", 1)]),
        impl_unit("eval_visit for ValueExpr", r"impl Evaluable for expr::ValueExpr<'_>",
                  "        match *self { expr::ValueExpr::Paren(x) => x.sem(lit), expr::ValueExpr::Amount(a) => lit(a) }   // parentheses group"),
        impl_unit("eval_visit for Expr", r"impl Evaluable for expr::Expr<'_>",
                  "        match *self { expr::Expr::Unary(e) => e.sem(lit), expr::Expr::Binary(e) => e.sem(lit), expr::Expr::Value(e) => e.sem(lit) }"),
        impl_unit("eval_visit for UnaryOpExpr", r"impl Evaluable for expr::UnaryOpExpr<'_>",
                  "        match self.expr.sem(lit) { Some(x) => Some(ev_neg(x)), None => None }   // unary minus negates"),
        impl_unit("eval_visit for BinaryOpExpr", r"impl Evaluable for expr::BinaryOpExpr<'_>",
                  "        match (self.lhs.sem(lit), self.rhs.sem(lit)) { (Some(x), Some(y)) => ev_bin(self.op, x, y), _ => None }   // lhs op rhs, both evaluated"),
    ],
}
