"""C11: the fragments of include expansion a contract can reach (the loader itself is decided only by the bounded family c11)."""
from ._amount_units import U, RET
LD = "core/src/load.rs"
LI = [r"impl<F: FileSystem> Loader<F>", r"fn load_impl<T, E, Deco>"]

GROUP = {
    "name": "loadinc",
    "parts": [
        ("raw", "pub mod glob { pub struct MatchOptions { pub case_sensitive: bool, pub require_literal_separator: bool, pub require_literal_leading_dot: bool } }\n"),
        U("glob_match_options", LD, [r"const fn glob_match_options\b"], fn="glob_match_options",
          rewrites=[RET(), ("R2-const-fn", "const fn glob_match_options", "fn glob_match_options", 1)],
          contract="""
    ensures
        // C11: a wildcard never crosses a directory separator and never matches a leading dot (dot-files are not matched)
        r.require_literal_separator,      // @glob_match_options.wildcards_do_not_cross_directories
        r.require_literal_leading_dot,    // @glob_match_options.dot_files_not_matched_by_wildcards
        r.case_sensitive,
"""),
        # textual anchors on load_impl: matches are sorted before they are visited; an empty match is an error; the include
        # entry goes to the recursion, every other entry to the callback
        U("anchor:matches are sorted", LD, LI, no_canary=True,
          slice=r"(paths\.sort_unstable\(\);\s*for path in &paths \{)", slice_count=1, slice_template="/* anchor: {EXPR} */\n"),
        U("anchor:empty match is an error", LD, LI, no_canary=True,
          slice=r"(if paths\.is_empty\(\) \{\s*return Err\()", slice_count=1, slice_template="/* anchor: {EXPR} */\n"),
        U("anchor:other entries go to the callback", LD, LI, no_canary=True,
          slice=r"(_ => callback\(&path, &ctx, &entry\),)", slice_count=1, slice_template="/* anchor: {EXPR} */\n"),
    ],
}
