"""C11: the fragments of include expansion a contract can reach (the loader itself is decided only by the bounded family c11)."""
from ._amount_units import U, RET
LD = "core/src/load.rs"
LI = [r"impl<F: FileSystem> Loader<F>", r"fn load_impl<T, E, Deco>"]

GROUP = {
    "name": "loadinc",
    "parts": [
        ("raw", "pub mod glob { pub struct MatchOptions { pub case_sensitive: bool, pub require_literal_separator: bool, pub require_literal_leading_dot: bool } }\n"),
        U("glob_match_options", LD, [r"const fn glob_match_options\b"], fn="glob_match_options",
          rewrites=[RET(), ("R2-const-fn", "const fn glob_match_options", "fn glob_match_options", 1)],
          contract="""
    ensures
        // C11: a wildcard never crosses a directory separator and never matches a leading dot (dot-files are not matched)
        r.require_literal_separator,      // @glob_match_options.wildcards_do_not_cross_directories
        r.require_literal_leading_dot,    // @glob_match_options.dot_files_not_matched_by_wildcards
        r.case_sensitive,
"""),
        # textual anchors on load_impl: matches are sorted before they are visited; an empty match is an error; the include
        # entry goes to the recursion, every other entry to the callback
        U("anchor:matches are sorted", LD, LI, no_canary=True,
          slice=r"(paths\.sort_unstable\(\);\s*for path in &paths \{)", slice_count=1, slice_template="/* anchor: {EXPR} */\n"),
        U("anchor:empty match is an error", LD, LI, no_canary=True,
          slice=r"(if paths\.is_empty\(\) \{\s*return Err\()", slice_count=1, slice_template="/* anchor: {EXPR} */\n"),
        # the stack of files being loaded (cycle check, F11): a file is pushed right after the check and popped once, after its last entry, on the way out
        U("anchor:cycle check then push", LD, LI, no_canary=True,
          slice=r"(if ancestors\.iter\(\)\.any\(\|x\| x\.as_path\(\) == path\.as_ref\(\)\) \{\s*return Err\(LoadError::RecursiveInclude\(path\.into_owned\(\)\)\.into\(\)\);\s*\}\s*ancestors\.push\(path\.clone\(\)\.into_owned\(\)\);)", slice_count=1, slice_template="/* anchor: {EXPR} */\n"),
        U("anchor:pop after the last entry", LD, LI, no_canary=True,
          slice=r"(\}\?;\s*\}\s*ancestors\.pop\(\);\s*Ok\(\(\)\)\s*\})", slice_count=1, slice_template="/* anchor: {EXPR} */\n"),
        U("anchor:other entries go to the callback", LD, LI, no_canary=True,
          slice=r"(_ => callback\(&path, &ctx, &entry\),)", slice_count=1, slice_template="/* anchor: {EXPR} */\n"),
        # ---- which path an `include` line means: relative to the INCLUDING file (slice of load_impl over an assumed model of std::path)
        ("raw", """
// ASSUMED model of std::path / OsString: a path is its text; parent() drops the last component; join() appends a (relative) path
#[verifier::external_body] pub struct Path { _p: usize }
#[verifier::external_body] pub struct PathBuf { _p: usize }
#[verifier::external_body] pub struct OsString { _p: usize }
pub uninterp spec fn parent_of(p: Seq<char>) -> Option<Seq<char>>;
pub uninterp spec fn joined(dir: Seq<char>, rel: Seq<char>) -> Seq<char>;
pub uninterp spec fn is_unicode(p: Seq<char>) -> bool;
impl Path {
    pub uninterp spec fn text(&self) -> Seq<char>;
    #[verifier::external_body] pub fn parent(&self) -> (r: Option<&Path>) ensures r is Some <==> parent_of(self.text()) is Some, r matches Some(d) ==> d.text() == parent_of(self.text())->Some_0 { unimplemented!() }
    #[verifier::external_body] pub fn join(&self, rel: PathBuf) -> (r: PathBuf) ensures r.text() == joined(self.text(), rel.text()) { unimplemented!() }
    #[verifier::external_body] pub fn to_owned(&self) -> (r: PathBuf) ensures r.text() == self.text() { unimplemented!() }
}
impl PathBuf {
    pub uninterp spec fn text(&self) -> Seq<char>;
    #[verifier::external_body] pub fn into_os_string(self) -> (r: OsString) ensures r.text() == self.text() { unimplemented!() }
}
impl OsString {
    pub uninterp spec fn text(&self) -> Seq<char>;
    #[verifier::external_body] pub fn into_string(self) -> (r: Result<String, OsString>) ensures r is Ok <==> is_unicode(self.text()), r matches Ok(s) ==> s@ == self.text() { unimplemented!() }
}
pub enum LoadError { RootLoadingPath(PathBuf), InvalidUnicodePath(String) }
#[verifier::external_body] pub fn opaque_string() -> String { unimplemented!() }
"""),
        U("callsite:load_impl.include_target", LD, LI, fn="include_target", no_canary=True,
          slice=r"let target: String = (path\s*\.as_ref\(\)[\s\S]*?\}\)\?);", slice_count=1, slice_raw=True,
          rewrites=[("R17-free-var", "re:path\\s*\\.as_ref\\(\\)", "path", None),
                    ("R11-ctor-as-fn", "re:\\.ok_or_else\\(\\|\\| LoadError::RootLoadingPath\\(path\\.to_owned\\(\\)\\)\\)", ".ok_or(LoadError::RootLoadingPath(path.to_owned()))", 1),
                    ("R4-format", "re:\\.map_err\\(\\|x\\| \\{\\s*LoadError::InvalidUnicodePath\\([^;]*?\\)\\s*\\}\\)", ".map_err(|x: OsString| -> (e: LoadError) { LoadError::InvalidUnicodePath(opaque_string()) })", 1)],
          slice_template="""fn include_target(path: &Path, include_path: PathBuf) -> (r: Result<String, LoadError>)
    ensures
        // C11: the path of an `include` line is taken relative to the INCLUDING file: its directory joined with the written path
        parent_of(path.text()) matches Some(dir) ==> (match r { Ok(t) => t@ == joined(dir, include_path.text()), Err(_) => !is_unicode(joined(dir, include_path.text())) }),   // @load_impl.include_path_is_relative_to_the_including_file
        parent_of(path.text()) is None ==> r is Err,
{
    Ok({EXPR})
}"""),
    ],
}
