import copy
from ._amount_units import U, RET
from . import postingfmt as _p
GROUP = copy.deepcopy(_p.GROUP)
GROUP["name"] = "postingfmt_dev"
GROUP["parts"].append(
    U("callsite:FormatOptions::format.entry_separator", "core/src/format.rs", [r"impl FormatOptions\b", r"pub fn format<R, W>"], fn="entry_separator",
      slice=r"(writeln!\(w, \"\{\}\", ctx\.as_display\(&entry\)\)\?;)", slice_count=1, slice_raw=True,
      rewrites=[("R50",), ("R17-free-variable", "ctx.as_display(&entry)", "*shown", 1)],
      slice_template="""fn entry_separator<W: fmt::Write, T: DisplayText>(w: &mut W, shown: &T) -> (r: Result<(), fmt::Error>)
    ensures
        // C19: after every entry's own text exactly ONE more line end is written: since an entry's text ends with a line end (for a transaction: posting_line
        // ends with '\\n', proved above), consecutive entries are separated by exactly one blank line
        r is Ok ==> final(w).text() == old(w).text() + shown.display_text() + seq!['\\n'],   // @format.one_line_end_after_every_entry
{
    proof { reveal_strlit("\\n"); let nl = seq!['\\n']; assert("\\n"@ =~= nl); }
    {EXPR}
    Ok(())
}"""))
