"""Shared unit definitions: report/eval/evaluated.rs, report/eval.rs, syntax/expr.rs"""
from ._amount_units import U, RET
EV = "core/src/report/eval/evaluated.rs"
EX = "core/src/syntax/expr.rs"
PD = "core/src/syntax/pretty_decimal.rs"
IMPL_EV = ("impl Evaluated {", "}")
COW = ("R9-cow-str", "Cow<str>", "String", 1)

EXPR_TYPES = [
    U("Format", PD, [r"pub enum Format\b"]),
    U("PrettyDecimal(type)", PD, [r"pub struct PrettyDecimal\b"]),
    U("From<PrettyDecimal> for Decimal", PD, [r"impl From<PrettyDecimal> for Decimal\b"]),
    ("raw", "pub mod expr {\nuse super::*;\n"),
    U("expr::Amount", EX, [r"pub struct Amount<'i>"], rewrites=[COW]),
    U("expr::ValueExpr", EX, [r"pub enum ValueExpr<'i>"]),
    U("expr::Expr", EX, [r"pub enum Expr<'i>"]),
    U("expr::UnaryOp", EX, [r"pub enum UnaryOp\b"]),
    U("expr::UnaryOpExpr", EX, [r"pub struct UnaryOpExpr<'i>"]),
    U("expr::BinaryOp", EX, [r"pub enum BinaryOp\b"]),
    U("expr::BinaryOpExpr", EX, [r"pub struct BinaryOpExpr<'i>"]),
    ("raw", "}\n"),
    ("text", "expr_types_support.rs"),
]

EVALUATED_TYPE = [U("Evaluated(type)", EV, [r"pub enum Evaluated<'ctx>"])]

EVALUATED = [
    U("TryFrom<Evaluated> for Amount", EV, [r"impl<'ctx> TryFrom<Evaluated<'ctx>> for Amount<'ctx>"], fn="try_from",
      rewrites=[RET()],
      contract="""
        ensures
            value matches Evaluated::Commodities(x) ==> r == Ok::<Amount, EvalError>(x),                        // @Evaluated.into_amount.commodities_pass
            (value matches Evaluated::Number(x) && x.val() == 0real) ==> (r matches Ok(a) && a@ == Map::<Commodity, real>::empty() && a.ncomm() == 0),   // @Evaluated.into_amount.zero_is_empty
            (value matches Evaluated::Number(x) && x.val() != 0real) ==> r == Err::<Amount, EvalError>(EvalError::AmountRequired),   // @Evaluated.into_amount.rejects_bare_number
"""),
    U("TryFrom<Evaluated> for PostingAmount", EV, [r"impl<'ctx> TryFrom<Evaluated<'ctx>> for PostingAmount<'ctx>"], fn="try_from",
      rewrites=[("R20-into-to-from", "let amount: Amount = value.try_into()?;", "let amount: Amount = Amount::try_from(value)?;", 1),
                ("R20-into-to-from", "amount.try_into()", "PostingAmount::try_from(amount)", 1)]),
    U("TryFrom<Evaluated> for SingleAmount", EV, [r"impl<'ctx> TryFrom<Evaluated<'ctx>> for SingleAmount<'ctx>"], fn="try_from",
      rewrites=[("R20-into-to-from", "let amount: Amount = value.try_into()?;", "let amount: Amount = Amount::try_from(value)?;", 1),
                ("R20-into-to-from", "amount.try_into()", "SingleAmount::try_from(amount)", 1)]),
    U("From<Decimal> for Evaluated", EV, [r"impl From<Decimal> for Evaluated<'_>"]),
    U("From<Amount> for Evaluated", EV, [r"impl<'ctx> From<Amount<'ctx>> for Evaluated<'ctx>"]),
    U("Evaluated::from_expr_amount_mut", EV, [r"impl<'ctx> Evaluated<'ctx>", r"pub\(super\) fn from_expr_amount_mut\b"], fn="from_expr_amount_mut", wrap=IMPL_EV,
      rewrites=[RET()],
      contract="""
        ensures
            // C12: every commodity name goes through the store's `ensure` (alias -> canonical)
            amount.commodity@.len() == 0 ==> r.sem() == EV::Num(amount.value.value.val()) && final(ctx).commodities == old(ctx).commodities,   // @from_expr_amount_mut.bare_number
            amount.commodity@.len() != 0 ==> final(ctx).commodities.resolved(amount.commodity@) is Some
                && r.sem() == lit_sem(amount.value.value.val(), final(ctx).commodities.resolved(amount.commodity@)),   // @from_expr_amount_mut.commodity_resolved_through_store
            forall|n: Seq<char>| old(ctx).commodities.resolved(n) is Some ==> final(ctx).commodities.resolved(n) == old(ctx).commodities.resolved(n),
            forall|c: Commodity| final(ctx).commodities.dp(c) == old(ctx).commodities.dp(c),
            final(ctx).accounts == old(ctx).accounts,
"""),
    U("Evaluated::from_expr_amount", EV, [r"impl<'ctx> Evaluated<'ctx>", r"pub\(super\) fn from_expr_amount\b"], fn="from_expr_amount", wrap=IMPL_EV,
      rewrites=[RET(), ("R9-cow-str", ".clone().into_owned()", ".clone()", 1)],
      contract="""
        ensures
            amount.commodity@.len() == 0 ==> (r matches Ok(v) && v.sem() == EV::Num(amount.value.value.val())),
            (amount.commodity@.len() != 0 && ctx.commodities.resolved(amount.commodity@) is None) ==> r is Err,   // @from_expr_amount.unknown_commodity_rejected
            (amount.commodity@.len() != 0 && ctx.commodities.resolved(amount.commodity@) is Some) ==>
                (r matches Ok(v) && v.sem() == lit_sem(amount.value.value.val(), ctx.commodities.resolved(amount.commodity@))),   // @from_expr_amount.commodity_resolved_through_store
"""),
    U("Evaluated::is_zero", EV, [r"impl<'ctx> Evaluated<'ctx>", r"pub fn is_zero\b"], fn="is_zero", wrap=IMPL_EV,
      rewrites=[RET()],
      contract="""
        ensures r == ev_is_zero(self.sem()),   // @Evaluated.is_zero
"""),
    U("Evaluated::negate", EV, [r"impl<'ctx> Evaluated<'ctx>", r"pub fn negate\b"], fn="negate", wrap=IMPL_EV,
      rewrites=[RET()],
      contract="""
        ensures r.sem() == (match self.sem() { EV::Num(x) => EV::Num(-x), EV::Com(m) => EV::Com(mneg(m)) }),   // @Evaluated.negate
"""),
    U("Evaluated::check_add", EV, [r"impl<'ctx> Evaluated<'ctx>", r"pub fn check_add\b"], fn="check_add", wrap=IMPL_EV,
      rewrites=[RET()],
      contract="""
        ensures
            (self.sem() matches EV::Num(a) && rhs.sem() matches EV::Num(b)) ==> (r matches Ok(v) && v.sem() == EV::Num(self.sem()->Num_0 + rhs.sem()->Num_0)),   // @Evaluated.check_add.numbers
            (self.sem() matches EV::Com(a) && rhs.sem() matches EV::Com(b)) ==> (r matches Ok(v) && v.sem() == EV::Com(madd(self.sem()->Com_0, rhs.sem()->Com_0))),   // @Evaluated.check_add.commodities_pointwise
            // adding a bare number to a commodity amount is ill-typed
            ((self.sem() is Num) != (rhs.sem() is Num)) ==> r == Err::<Self, EvalError>(EvalError::UnmatchingOperation),   // @Evaluated.check_add.rejects_mixed
"""),
    U("Evaluated::check_sub", EV, [r"impl<'ctx> Evaluated<'ctx>", r"pub fn check_sub\b"], fn="check_sub", wrap=IMPL_EV,
      rewrites=[RET()],
      contract="""
        ensures
            (self.sem() matches EV::Num(a) && rhs.sem() matches EV::Num(b)) ==> (r matches Ok(v) && v.sem() == EV::Num(self.sem()->Num_0 - rhs.sem()->Num_0)),   // @Evaluated.check_sub.numbers
            (self.sem() matches EV::Com(a) && rhs.sem() matches EV::Com(b)) ==> (r matches Ok(v) && v.sem() == EV::Com(msub(self.sem()->Com_0, rhs.sem()->Com_0))),   // @Evaluated.check_sub.commodities_pointwise
            ((self.sem() is Num) != (rhs.sem() is Num)) ==> r == Err::<Self, EvalError>(EvalError::UnmatchingOperation),   // @Evaluated.check_sub.rejects_mixed
"""),
    U("Evaluated::check_mul", EV, [r"impl<'ctx> Evaluated<'ctx>", r"pub fn check_mul\b"], fn="check_mul", wrap=IMPL_EV,
      rewrites=[RET()],
      contract="""
        ensures
            (self.sem() matches EV::Num(a) && rhs.sem() matches EV::Num(b)) ==> (r matches Ok(v) && v.sem() == EV::Num(self.sem()->Num_0 * rhs.sem()->Num_0)),   // @Evaluated.check_mul.numbers
            (self.sem() matches EV::Com(a) && rhs.sem() matches EV::Num(b)) ==> (r matches Ok(v) && v.sem() == EV::Com(mscale(self.sem()->Com_0, rhs.sem()->Num_0))),   // @Evaluated.check_mul.amount_times_number
            (self.sem() matches EV::Num(a) && rhs.sem() matches EV::Com(b)) ==> (r matches Ok(v) && v.sem() == EV::Com(mscale(rhs.sem()->Com_0, self.sem()->Num_0))),   // @Evaluated.check_mul.number_times_amount
            // multiplying two commodity amounts is ill-typed
            (self.sem() is Com && rhs.sem() is Com) ==> r == Err::<Self, EvalError>(EvalError::UnmatchingOperation),   // @Evaluated.check_mul.rejects_two_amounts
"""),
    U("Evaluated::check_div", EV, [r"impl<'ctx> Evaluated<'ctx>", r"pub fn check_div\b"], fn="check_div", wrap=IMPL_EV,
      rewrites=[RET(), ("R11-ctor-as-fn", ".map(Evaluated::Commodities)",
                        ".map(|a: Amount| -> (e: Evaluated) ensures e == Evaluated::Commodities(a) { Evaluated::Commodities(a) })", 1),
                ("R20-into-to-from", "Evaluated::Commodities(ret.into())", "Evaluated::Commodities(Amount::from(ret))", 1)],
      contract="""
        ensures
            ev_is_zero(rhs.sem()) ==> r == Err::<Self, EvalError>(EvalError::DivideByZero),   // @Evaluated.check_div.rejects_zero_divisor
            (!ev_is_zero(rhs.sem()) && self.sem() is Num && rhs.sem() is Num) ==>
                (r is Ok && r->Ok_0.sem() is Num && r->Ok_0.sem()->Num_0 * rhs.sem()->Num_0 == self.sem()->Num_0),   // @Evaluated.check_div.numbers
            (!ev_is_zero(rhs.sem()) && self.sem() is Com && rhs.sem() is Num) ==>
                ((r is Ok && r->Ok_0.sem() is Com && r->Ok_0.sem()->Com_0.dom() == self.sem()->Com_0.dom()
                    && forall|c: Commodity| self.sem()->Com_0.contains_key(c) ==> #[trigger] r->Ok_0.sem()->Com_0[c] * rhs.sem()->Num_0 == self.sem()->Com_0[c])
                 || r == Err::<Self, EvalError>(EvalError::NumberOverflow)),   // @Evaluated.check_div.amount_by_number
            // number / amount only for a single-commodity amount; amount / amount never
            (!ev_is_zero(rhs.sem()) && self.sem() is Num && rhs is Commodities && rhs->Commodities_0.ncomm() != 1) ==> r is Err,   // @Evaluated.check_div.number_by_multi_rejected
            (!ev_is_zero(rhs.sem()) && self.sem() is Num && rhs is Commodities && rhs->Commodities_0.ncomm() == 1) ==>
                ((r is Ok && r->Ok_0.sem() is Com && r->Ok_0.sem()->Com_0.dom() == set![rhs->Commodities_0.single_entry().commodity]
                    && r->Ok_0.sem()->Com_0[rhs->Commodities_0.single_entry().commodity] * rhs->Commodities_0.single_entry().v() == self.sem()->Num_0)
                 || r == Err::<Self, EvalError>(EvalError::NumberOverflow)),   // @Evaluated.check_div.number_by_single
            (!ev_is_zero(rhs.sem()) && self.sem() is Com && rhs.sem() is Com) ==> r == Err::<Self, EvalError>(EvalError::UnmatchingOperation),   // @Evaluated.check_div.rejects_two_amounts
"""),
]
