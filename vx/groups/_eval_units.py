"""Shared unit definitions: report/eval/evaluated.rs, report/eval.rs, syntax/expr.rs"""
from ._amount_units import U, RET
EV = "core/src/report/eval/evaluated.rs"
EX = "core/src/syntax/expr.rs"
PD = "core/src/syntax/pretty_decimal.rs"
IMPL_EV = ("impl Evaluated {", "}")
COW = ("R9-cow-str", "Cow<str>", "String", 1)

EXPR_TYPES = [
    U("Format", PD, [r"pub enum Format\b"]),
    U("PrettyDecimal(type)", PD, [r"pub struct PrettyDecimal\b"]),
    U("From<PrettyDecimal> for Decimal", PD, [r"impl From<PrettyDecimal> for Decimal\b"]),
    ("raw", "pub mod expr {\nuse super::*;\n"),
    U("expr::Amount", EX, [r"pub struct Amount<'i>"], rewrites=[COW]),
    U("expr::ValueExpr", EX, [r"pub enum ValueExpr<'i>"]),
    U("expr::Expr", EX, [r"pub enum Expr<'i>"]),
    U("expr::UnaryOp", EX, [r"pub enum UnaryOp\b"]),
    U("expr::UnaryOpExpr", EX, [r"pub struct UnaryOpExpr<'i>"]),
    U("expr::BinaryOp", EX, [r"pub enum BinaryOp\b"]),
    U("expr::BinaryOpExpr", EX, [r"pub struct BinaryOpExpr<'i>"]),
    ("raw", "}\n"),
    ("text", "expr_types_support.rs"),
]

EVALUATED_TYPE = [U("Evaluated(type)", EV, [r"pub enum Evaluated<'ctx>"])]

EVALUATED = [
    U("TryFrom<Evaluated> for Amount", EV, [r"impl<'ctx> TryFrom<Evaluated<'ctx>> for Amount<'ctx>"], fn="try_from",
      rewrites=[RET()],
      contract="""
        ensures
            value matches Evaluated::Commodities(x) ==> r == Ok::<Amount, EvalError>(x),                        // @Evaluated.into_amount.commodities_pass
            (value matches Evaluated::Number(x) && x.val() == 0real) ==> (r matches Ok(a) && a@ == Map::<Commodity, real>::empty() && a.ncomm() == 0),   // @Evaluated.into_amount.zero_is_empty
            (value matches Evaluated::Number(x) && x.val() != 0real) ==> r == Err::<Amount, EvalError>(EvalError::AmountRequired),   // @Evaluated.into_amount.rejects_bare_number
"""),
    U("TryFrom<Evaluated> for PostingAmount", EV, [r"impl<'ctx> TryFrom<Evaluated<'ctx>> for PostingAmount<'ctx>"], fn="try_from",
      rewrites=[("R20-into-to-from", "let amount: Amount = value.try_into()?;", "let amount: Amount = Amount::try_from(value)?;", 1),
                ("R20-into-to-from", "amount.try_into()", "PostingAmount::try_from(amount)", 1)]),
    U("TryFrom<Evaluated> for SingleAmount", EV, [r"impl<'ctx> TryFrom<Evaluated<'ctx>> for SingleAmount<'ctx>"], fn="try_from",
      rewrites=[("R20-into-to-from", "let amount: Amount = value.try_into()?;", "let amount: Amount = Amount::try_from(value)?;", 1),
                ("R20-into-to-from", "amount.try_into()", "SingleAmount::try_from(amount)", 1)]),
    U("From<Decimal> for Evaluated", EV, [r"impl From<Decimal> for Evaluated<'_>"]),
    U("From<Amount> for Evaluated", EV, [r"impl<'ctx> From<Amount<'ctx>> for Evaluated<'ctx>"]),
    U("Evaluated::from_expr_amount_mut", EV, [r"impl<'ctx> Evaluated<'ctx>", r"pub\(super\) fn from_expr_amount_mut\b"], fn="from_expr_amount_mut", wrap=IMPL_EV,
      rewrites=[RET()],
      contract="""
        ensures
            // C12: every commodity name goes through the store's `ensure` (alias -> canonical)
            amount.commodity@.len() == 0 ==> r.sem() == EV::Num(amount.value.value.val()) && final(ctx).commodities == old(ctx).commodities,   // @from_expr_amount_mut.bare_number
            amount.commodity@.len() != 0 ==> final(ctx).commodities.resolved(amount.commodity@) is Some
                && r.sem() == lit_sem(amount.value.value.val(), final(ctx).commodities.resolved(amount.commodity@)),   // @from_expr_amount_mut.commodity_resolved_through_store
            forall|n: Seq<char>| old(ctx).commodities.resolved(n) is Some ==> final(ctx).commodities.resolved(n) == old(ctx).commodities.resolved(n),
            forall|c: Commodity| final(ctx).commodities.dp(c) == old(ctx).commodities.dp(c),
            final(ctx).accounts == old(ctx).accounts,
"""),
    U("Evaluated::from_expr_amount", EV, [r"impl<'ctx> Evaluated<'ctx>", r"pub\(super\) fn from_expr_amount\b"], fn="from_expr_amount", wrap=IMPL_EV,
      rewrites=[RET(), ("R9-cow-str", ".clone().into_owned()", ".clone()", 1)],
      contract="""
        ensures
            amount.commodity@.len() == 0 ==> (r matches Ok(v) && v.sem() == EV::Num(amount.value.value.val())),
            (amount.commodity@.len() != 0 && ctx.commodities.resolved(amount.commodity@) is None) ==> r is Err,   // @from_expr_amount.unknown_commodity_rejected
            (amount.commodity@.len() != 0 && ctx.commodities.resolved(amount.commodity@) is Some) ==>
                (r matches Ok(v) && v.sem() == lit_sem(amount.value.value.val(), ctx.commodities.resolved(amount.commodity@))),   // @from_expr_amount.commodity_resolved_through_store
"""),
    U("Evaluated::is_zero", EV, [r"impl<'ctx> Evaluated<'ctx>", r"pub fn is_zero\b"], fn="is_zero", wrap=IMPL_EV,
      rewrites=[RET()],
      contract="""
        ensures r == ev_is_zero(self.sem()),   // @Evaluated.is_zero
"""),
    U("Evaluated::negate", EV, [r"impl<'ctx> Evaluated<'ctx>", r"pub fn negate\b"], fn="negate", wrap=IMPL_EV,
      rewrites=[RET()],
      contract="""
        ensures r.sem() == ev_neg(self.sem()),   // @Evaluated.negate
"""),
    U("Evaluated::check_add", EV, [r"impl<'ctx> Evaluated<'ctx>", r"pub fn check_add\b"], fn="check_add", wrap=IMPL_EV,
      rewrites=[RET()],
      contract="""
        ensures
            ev_add(self.sem(), rhs.sem()) matches Some(o) ==> (r matches Ok(v) && v.sem() == o),                    // @Evaluated.check_add.exact
            // adding a bare number to a commodity amount is ill-typed
            ev_add(self.sem(), rhs.sem()) is None ==> r == Err::<Self, EvalError>(EvalError::UnmatchingOperation),   // @Evaluated.check_add.rejects_mixed
"""),
    U("Evaluated::check_sub", EV, [r"impl<'ctx> Evaluated<'ctx>", r"pub fn check_sub\b"], fn="check_sub", wrap=IMPL_EV,
      rewrites=[RET()],
      contract="""
        ensures
            ev_sub(self.sem(), rhs.sem()) matches Some(o) ==> (r matches Ok(v) && v.sem() == o),                    // @Evaluated.check_sub.exact
            ev_sub(self.sem(), rhs.sem()) is None ==> r == Err::<Self, EvalError>(EvalError::UnmatchingOperation),   // @Evaluated.check_sub.rejects_mixed
"""),
    U("Evaluated::check_mul", EV, [r"impl<'ctx> Evaluated<'ctx>", r"pub fn check_mul\b"], fn="check_mul", wrap=IMPL_EV,
      rewrites=[RET()],
      contract="""
        ensures
            ev_mul(self.sem(), rhs.sem()) matches Some(o) ==> (r matches Ok(v) && v.sem() == o),                    // @Evaluated.check_mul.exact
            // multiplying two commodity amounts is ill-typed
            ev_mul(self.sem(), rhs.sem()) is None ==> r == Err::<Self, EvalError>(EvalError::UnmatchingOperation),   // @Evaluated.check_mul.rejects_two_amounts
"""),
    U("Evaluated::check_div", EV, [r"impl<'ctx> Evaluated<'ctx>", r"pub fn check_div\b"], fn="check_div", wrap=IMPL_EV,
      rewrites=[RET(), ("R11-ctor-as-fn", ".map(Evaluated::Commodities)",
                        ".map(|a: Amount| -> (e: Evaluated) ensures e == Evaluated::Commodities(a) { Evaluated::Commodities(a) })", 1),
                ("R20-into-to-from", "Evaluated::Commodities(ret.into())", "Evaluated::Commodities(Amount::from(ret))", 1)],
      contract="""
        ensures
            ev_is_zero(rhs.sem()) ==> r == Err::<Self, EvalError>(EvalError::DivideByZero),                          // @Evaluated.check_div.rejects_zero_divisor
            // number/number, amount/number, number/single-commodity amount; amount/amount and number/multi-commodity are ill-typed
            ev_div(self.sem(), rhs.sem()) is None ==> r is Err,                                                      // @Evaluated.check_div.rejects_ill_typed
            r matches Ok(v) ==> ev_div(self.sem(), rhs.sem()) == Some(v.sem()),                                      // @Evaluated.check_div.exact_quotient
            ev_div(self.sem(), rhs.sem()) is Some ==> (r is Ok || r == Err::<Self, EvalError>(EvalError::NumberOverflow)),   // @Evaluated.check_div.welltyped_accepted
"""),
]
