"""C17 (rewrite rules): Extractor::extract and everything below it, for rule lists, OR-lists and AND-lists of every length."""
from ._amount_units import U, RET
EX = "cli/src/import/extract.rs"
ENT = ("R31-entity-gat", "<M as Entity>::T", "EntityT", 1)
ST = dict(lifetimes="static")
GROUP = {
    "name": "extractor",
    "uses": "use core::ops::{Add, AddAssign};\n",
    "parts": [
        ("text", "extract_stub.rs"),
        ("text", "std_gaps_option.rs"),
        U("Fragment(type)", EX, [r"pub struct Fragment<'a>"], **ST),
        U("Matched(type)", EX, [r"pub struct Matched<'a>"], **ST),
        ("text", "extract_spec.rs"),
        U("MatchAndExpr(type)", EX, [r"struct MatchAndExpr<M: EntityMatcher>"]),
        U("MatchOrExpr(type)", EX, [r"struct MatchOrExpr<M: EntityMatcher>"]),
        U("ExtractRule(type)", EX, [r"struct ExtractRule<'a, M: EntityMatcher>"], **ST),
        U("Extractor(type)", EX, [r"pub struct Extractor<'a, M: EntityMatcher>"], **ST),
        U("AddAssign for Fragment", EX, [r"impl std::ops::AddAssign for Fragment<'_>"], fn="add_assign", **ST,
          rewrites=[("R1-path", "impl std::ops::AddAssign for Fragment", "impl AddAssign for Fragment", 1)],
          contract="""
        ensures
            // the later fragment wins field by field; a field it leaves open keeps the earlier value
            *final(self) == (Fragment { cleared: other.cleared || old(self).cleared, payee: or_opt(other.payee, old(self).payee), account: or_opt(other.account, old(self).account),
                                       code: or_opt(other.code, old(self).code), conversion: or_opt(other.conversion, old(self).conversion) }),   // @Fragment.add_assign.later_wins_open_fields_kept
"""),
        U("Add<Matched> for Fragment", EX, [r"impl<'a> std::ops::Add<Matched<'a>> for Fragment<'a>"], fn="add", **ST,
          rewrites=[("R1-path", "impl std::ops::Add<Matched> for Fragment", "impl Add<Matched> for Fragment", 1), ("R0", "r")],
          contract="""
        ensures r == (Fragment { payee: or_opt(rhs.payee, self.payee), code: or_opt(rhs.code, self.code), ..self }),   // @Fragment.add.captures_set_payee_and_code
"""),
        ("raw", """
/// once a field fails to match the element does not match, whatever follows
pub proof fn lemma_and_none_stays<M: EntityMatcher>(ms: Seq<M>, cur: Fragment, e: EntityT, n: int, m: int)
    requires 0 <= n <= m,
    ensures and_spec(ms, cur, e, n) is None ==> and_spec(ms, cur, e, m) is None,
    decreases m - n
{
    if n < m { lemma_and_none_stays(ms, cur, e, n, m - 1); }
}
"""),
        U("MatchAndExpr::extract", EX, [r"impl<M: EntityMatcher> MatchAndExpr<M>", r"fn extract<'a>"], fn="extract", wrap=("impl<M: EntityMatcher> MatchAndExpr<M> {", "}"), **ST,
          rewrites=[RET(), ENT,
                    ("R32-try-fold-option", r"re:self\.0\.iter\(\)\.try_fold\(current\.clone\(\), \|prev, matcher\| \{\s*matcher\s*\.captures\(&prev, entity\)\s*\.map\(\|matched\| prev\.clone\(\) \+ matched\)\s*\}\)",
                     "{ let mut acc__ = current.clone(); let mut i__: usize = 0;\n        while i__ < self.0.len() { let matcher = &self.0[i__]; let prev = acc__;\n"
                     "            match (match matcher.captures(&prev, entity) { Some(matched) => Some(prev.clone() + matched), None => None }) { Some(x__) => { acc__ = x__; } None => { return None; } }\n"
                     "            i__ += 1; }\n        Some(acc__) }", 1)],
          contract="""
        ensures r == and_spec(self.0@, current, entity, self.0@.len() as int),   // @MatchAndExpr.extract.all_fields_must_match_later_captures_override
""",
          loops={0: """
            invariant
                i__ <= self.0@.len(),
                and_spec(self.0@, current, entity, i__ as int) == Some(acc__),
            decreases self.0@.len() - i__,
"""},
          loop_body_start={0: "            proof { lemma_and_none_stays(self.0@, current, entity, i__ as int + 1, self.0@.len() as int); }"}),
        U("MatchOrExpr::extract", EX, [r"impl<M: EntityMatcher> MatchOrExpr<M>", r"fn extract<'a>"], fn="extract", wrap=("impl<M: EntityMatcher> MatchOrExpr<M> {", "}"), **ST,
          rewrites=[RET(), ENT,
                    ("R33-find-map", r"re:self\.0\s*\.iter\(\)\s*\.find_map\(\|m\| m\.extract\(current\.clone\(\), entity\)\)",
                     "{ let mut i__: usize = 0;\n        while i__ < self.0.len() { let m = &self.0[i__];\n"
                     "            match m.extract(current.clone(), entity) { Some(x__) => { return Some(x__); } None => {} }\n"
                     "            i__ += 1; }\n        None }", 1)],
          contract="""
        ensures r == or_spec(self.0@, current, entity, 0),   // @MatchOrExpr.extract.first_matching_element
""",
          loops={0: """
            invariant
                i__ <= self.0@.len(),
                or_spec(self.0@, current, entity, 0) == or_spec(self.0@, current, entity, i__ as int),
            decreases self.0@.len() - i__,
"""}),
        U("ExtractRule::extract", EX, [r"impl<'a, M: EntityMatcher> ExtractRule<'a, M>", r"fn extract\b"], fn="extract", wrap=("impl<M: EntityMatcher> ExtractRule<M> {", "}"), **ST,
          rewrites=[RET(), ENT,
                    ("R34-option-map", r"re:self\.match_expr\.extract\(current, entity\)\.map\(\|mut current\| \{", "match self.match_expr.extract(current, entity) { None => None, Some(c0__) => { let mut current = c0__;", 1),
                    ("R34-option-map", r"re:(\n\s*)current\n(\s*)\}\)\n", r"\1Some(current)\n\2} }\n", 1)],
          contract="""
        ensures
            // a rule that does not match yields nothing; a matching rule: captures, then the rule's own payee; the rule's account
            // (None when it has none); pending unless it assigns an account and is not flagged pending
            or_spec(self.match_expr.0@, current, entity, 0) is None ==> r is None,   // @ExtractRule.extract.no_match_no_change
            or_spec(self.match_expr.0@, current, entity, 0) matches Some(m) ==> r == Some(Fragment {
                payee: or_opt(self.payee, m.payee), code: m.code, account: self.account, conversion: or_opt(self.conversion, m.conversion),
                cleared: m.cleared || (self.account is Some && !self.pending) }),   // @ExtractRule.extract.matching_rule_sets_payee_account_conversion_cleared
"""),
        ("raw", """
/// the fields of a fragment that captures never touch
pub proof fn lemma_and_spec_keeps<M: EntityMatcher>(ms: Seq<M>, cur: Fragment, e: EntityT, n: int)
    ensures and_spec(ms, cur, e, n) matches Some(f) ==> f.account == cur.account && f.conversion == cur.conversion && f.cleared == cur.cleared
        && (f.payee is None ==> cur.payee is None) && (f.code is None ==> cur.code is None),
    decreases n
{
    if n > 0 { lemma_and_spec_keeps(ms, cur, e, n - 1); }
}
pub proof fn lemma_or_spec_keeps<M: EntityMatcher>(ands: Seq<MatchAndExpr<M>>, cur: Fragment, e: EntityT, k: int)
    ensures or_spec(ands, cur, e, k) matches Some(f) ==> f.account == cur.account && f.conversion == cur.conversion && f.cleared == cur.cleared
        && (f.payee is None ==> cur.payee is None) && (f.code is None ==> cur.code is None),
    decreases ands.len() - k
{
    if 0 <= k < ands.len() {
        lemma_and_spec_keeps(ands[k].0@, cur, e, ands[k].0@.len() as int);
        lemma_or_spec_keeps(ands, cur, e, k + 1);
    }
}
"""),
        U("Extractor::extract", EX, [r"impl<'a, M: EntityMatcher> Extractor<'a, M>", r"pub fn extract\b"], fn="extract", wrap=("impl<M: EntityMatcher> Extractor<M> {", "}"), **ST,
          rewrites=[RET(), ENT,
                    ("R6c-for-ref-vec", "for rule in &self.rules {", "for i__ in 0..self.rules.len() { let rule = &self.rules[i__];", 1)],
          contract="""
        ensures r == extract_spec(self.rules@, entity, self.rules@.len() as int),   // @Extractor.extract.rules_in_list_order_each_seeing_the_earlier_result
""",
          loops={0: """
            invariant fragment == extract_spec(self.rules@, entity, i__ as int),
"""},
          loop_body_start={0: "            proof { lemma_or_spec_keeps(self.rules@[i__ as int].match_expr.0@, fragment, entity, 0); }"}),
    ],
}
