"""Shared unit definitions: report/book_keeping.rs, report/transaction.rs, price_db.rs (insert_price)"""
from ._amount_units import U, RET
BK = "core/src/report/book_keeping.rs"
TR = "core/src/report/transaction.rs"
PD = "core/src/report/price_db.rs"
IMPL_EX = ("impl Exchange {", "}")
IMPL_CP = ("impl ComputedPosting {", "}")

BK_TYPES = [
    U("BookKeepError", BK, [r"pub enum BookKeepError\b"], rewrites=[("R9-stub-type", "InternError", "u8", 2)]),
    U("report::Posting(type)", TR, [r"pub struct Posting<'ctx>"]),
    U("report::Transaction(type)", TR, [r"pub struct Transaction<'ctx>"], rewrites=[("R9-containers", "bumpalo::boxed::Box<[Posting]>", "Vec<Posting>", 1)]),
    U("PriceEvent(type)", PD, [r"pub\(super\) struct PriceEvent<'ctx>"]),
    U("EvaluatedPosting(type)", BK, [r"struct EvaluatedPosting<'ctx>"]),
    U("ComputedPosting(type)", BK, [r"struct ComputedPosting<'ctx>"]),
    U("Exchange(type)", BK, [r"enum Exchange<'ctx>"]),
    ("text", "bookkeep_spec.rs"),
]

BOOKKEEP = [
    U("PriceRepositoryBuilder::insert_price", PD, [r"impl<'ctx> PriceRepositoryBuilder<'ctx>", r"pub fn insert_price\b"], fn="insert_price",
      wrap=("impl PriceRepositoryBuilder {", "}"),
      contract="""
        // C06: no precondition -- every event (zero amounts included) must be handled without dividing by zero
        ensures true,   // @insert_price.total
"""),
    U("callsite:insert_impl division", PD, [r"impl<'ctx> PriceRepositoryBuilder<'ctx>", r"fn insert_impl\b"], fn="insert_impl_division",
      slice=r"price_with\.value\s*/\s*price_of\.value\b()", slice_count=1, no_canary=True,
      slice_template="""fn insert_impl_division(price_of: SingleAmount, price_with: SingleAmount) -> (r: Decimal)
    requires price_of.v() != 0real,   // the same precondition insert_impl is given at its call sites
{
    price_with.value / price_of.value
}"""),
    U("Exchange::is_zero", BK, [r"impl<'ctx> Exchange<'ctx>", r"fn is_zero\b"], fn="is_zero", wrap=IMPL_EX, rewrites=[RET()],
      contract="""
        ensures r == (self.rate().v() == 0real),   // @Exchange.is_zero
"""),
    U("Exchange::exchange", BK, [r"impl<'ctx> Exchange<'ctx>", r"fn exchange\b"], fn="exchange", wrap=IMPL_EX, rewrites=[RET()],
      contract="""
        ensures
            r.commodity == self.rate().commodity,
            r.v() == self.value_of(amount),   // @Exchange.exchange.rate_times_quantity_or_total_with_sign
"""),
    U("Exchange::try_from_syntax", BK, [r"impl<'ctx> Exchange<'ctx>", r"fn try_from_syntax<'a>"], fn="try_from_syntax", wrap=IMPL_EX, rewrites=[RET()],
      contract="""
        ensures
            ctx_extends(*old(ctx), *final(ctx)),
            // C01: a zero rate, a rate on a commodity-less amount, and a rate in the amount's own commodity are rejected
            r matches Ok(x) ==> x.wf_for(*posting_amount),   // @Exchange.try_from_syntax.accepts_only_wellformed
            r matches Ok(x) ==> (match exchange.value {
                syntax::Exchange::Rate(e) => x is Rate && Ok::<SingleAmount, EvalError>(x.rate()) == single_of(e.eval_result(*old(ctx))),
                syntax::Exchange::Total(e) => x is Total && Ok::<SingleAmount, EvalError>(x.rate()) == single_of(e.eval_result(*old(ctx))),
            }),   // @Exchange.try_from_syntax.rate_is_the_written_expression
            ({ let e = match exchange.value { syntax::Exchange::Rate(e) => e, syntax::Exchange::Total(e) => e };
               let sr = single_of(e.eval_result(*old(ctx)));
               sr is Ok && sr->Ok_0.v() != 0real && posting_amount is Single && posting_amount->Single_0.commodity != sr->Ok_0.commodity
            }) ==> r is Ok,   // @Exchange.try_from_syntax.wellformed_accepted
"""),
    U("ComputedPosting::compute_from_syntax", BK, [r"impl<'ctx> ComputedPosting<'ctx>", r"fn compute_from_syntax\b"], fn="compute_from_syntax", wrap=IMPL_CP,
      rewrites=[RET()], opaque=True,
      contract="""
        ensures
            // (ASSUMED, L1: closures over &mut ctx + Option::transpose) amount = evaluated written amount; cost / lot = try_from_syntax of the written ones
            ctx_extends(*old(ctx), *final(ctx)),
            r matches Ok(cp) ==> cp.wf() && Ok::<PostingAmount, EvalError>(cp.amount) == posting_amount_of(syntax_amount.amount.value.eval_result(*old(ctx)))
                && (cp.cost is Some <==> syntax_amount.cost is Some) && (cp.lot is Some <==> syntax_amount.lot.price is Some),
            posting_amount_of(syntax_amount.amount.value.eval_result(*old(ctx))) is Err ==> r is Err,
"""),
    U("ComputedPosting::calculate_converted_amount", BK, [r"impl<'ctx> ComputedPosting<'ctx>", r"fn calculate_converted_amount\b"], fn="calculate_converted_amount", wrap=IMPL_CP,
      rewrites=[RET()], opaque=True,
      contract="""
        ensures self.wf() ==> r is Ok,   // (ASSUMED, L1: closure with `?` + transpose; informational field only)
"""),
    U("ComputedPosting::calculate_balance_amount", BK, [r"impl<'ctx> ComputedPosting<'ctx>", r"fn calculate_balance_amount\b"], fn="calculate_balance_amount", wrap=IMPL_CP,
      rewrites=[RET(), ("R20-into-to-from", "Ok(x.exchange(self.amount.try_into()?).into())", "Ok(PostingAmount::from(x.exchange(self.amount.try_into()?)))", 1)],
      contract="""
        ensures
            // C01: each posting is valued at its lot price, else its cost, else its own amount
            self.wf() ==> (r matches Ok(v) && is_balancing_value(*self, v)),   // @calculate_balance_amount.lot_else_cost_else_amount
            r matches Ok(v) ==> is_balancing_value(*self, v),
"""),
    U("posting_price_event", BK, [r"fn posting_price_event<'ctx>"], fn="posting_price_event", rewrites=[RET(), ("R12",)],
      contract="""
        requires computed.wf(),
        ensures
            r is Ok,
            (computed.cost is None && computed.lot is None) ==> r == Ok::<Option<PriceEvent>, BookKeepError>(None),
            (computed.cost is Some || computed.lot is Some) ==> (r matches Ok(Some(ev)) && ev.date == date
                && ev.price_x.commodity == computed.amount->Single_0.commodity && ev.price_y.v() != 0real),   // @posting_price_event.prices_the_posting_commodity
"""),
    U("check_balance", BK, [r"fn check_balance<'ctx>"], fn="check_balance",
      rewrites=[RET(), ("R4",), ("R10",), ("R9-containers", "&mut bcc::Vec<Posting>", "&mut Vec<Posting>", 1)],
      contract="""
        ensures
            // C01: accepted only if the rounded per-commodity totals are all zero, or exactly two commodities remain
            //      with non-zero totals of opposite sign (implied exchange at a positive rate)
            r is Ok ==> balanced(rounded(ctx, balance@)),                              // @check_balance.ok_implies_balanced
            all_zero(rounded(ctx, balance@)) ==> r is Ok,                              // @check_balance.zero_total_accepted
            r is Err ==> r matches Err(BookKeepError::UnbalancedPostings(_)),          // @check_balance.rejected_as_unbalanced
            final(postings)@.len() == old(postings)@.len(),
            forall|i: int| 0 <= i < old(postings)@.len() ==> (#[trigger] final(postings)@[i]).account == old(postings)@[i].account
                && final(postings)@[i].amount == old(postings)@[i].amount,              // @check_balance.frame_postings
"""),
]
