"""Shared unit definitions: report/book_keeping.rs, report/transaction.rs, price_db.rs (insert_price)"""
from ._amount_units import U, RET
BK = "core/src/report/book_keeping.rs"
TR = "core/src/report/transaction.rs"
PD = "core/src/report/price_db.rs"
IMPL_EX = ("impl Exchange {", "}")
IMPL_CP = ("impl ComputedPosting {", "}")

SY = "core/src/syntax.rs"
COW = ("R9-cow-str", "re:Cow<str>", "String", None)
DECL_TYPES = [
    U("syntax::AccountDetail", SY, [r"pub enum AccountDetail<'i>"], rewrites=[COW]),
    U("syntax::AccountDeclaration", SY, [r"pub struct AccountDeclaration<'i>"], rewrites=[COW]),
    U("syntax::CommodityDetail", SY, [r"pub enum CommodityDetail<'i>"], rewrites=[COW]),
    U("syntax::CommodityDeclaration", SY, [r"pub struct CommodityDeclaration<'i>"], rewrites=[COW]),
]

BK_TYPES = [
    U("BookKeepError", BK, [r"pub enum BookKeepError\b"], rewrites=[("R9-stub-type", "InternError", "u8", 2)]),
    U("report::Posting(type)", TR, [r"pub struct Posting<'ctx>"]),
    U("report::Transaction(type)", TR, [r"pub struct Transaction<'ctx>"], rewrites=[("R9-containers", "bumpalo::boxed::Box<[Posting]>", "Vec<Posting>", 1)]),
    U("PriceEvent(type)", PD, [r"pub\(super\) struct PriceEvent<'ctx>"]),
    U("EvaluatedPosting(type)", BK, [r"struct EvaluatedPosting<'ctx>"]),
    U("ComputedPosting(type)", BK, [r"struct ComputedPosting<'ctx>"]),
    U("Exchange(type)", BK, [r"enum Exchange<'ctx>"]),
    ("text", "bookkeep_spec.rs"),
    ("text", "ledger_sum.rs"),
]

BOOKKEEP = [
    U("PriceRepositoryBuilder::insert_price", PD, [r"impl<'ctx> PriceRepositoryBuilder<'ctx>", r"pub fn insert_price\b"], fn="insert_price",
      wrap=("impl PriceRepositoryBuilder {", "}"),
      contract="""
        // C06: no precondition -- every event (zero amounts included) must be handled without dividing by zero
        ensures
            // a zero amount carries no rate and cannot be inverted: ignored
            (event.price_x.v() == 0real || event.price_y.v() == 0real) ==> final(self).log() == old(self).log(),   // @insert_price.zero_amount_ignored
            // C09: a price recorded for X in Y also serves Y in X, as its reciprocal, same date and source
            (event.price_x.v() != 0real && event.price_y.v() != 0real) ==> final(self).log() == old(self).log()
                .push(PriceRecord { source, date: event.date, of: event.price_x.commodity, with: event.price_y.commodity, rate: event.price_y.v() / event.price_x.v() })
                .push(PriceRecord { source, date: event.date, of: event.price_y.commodity, with: event.price_x.commodity, rate: event.price_x.v() / event.price_y.v() }),   // @insert_price.both_directions_reciprocal
"""),
    U("callsite:insert_impl division", PD, [r"impl<'ctx> PriceRepositoryBuilder<'ctx>", r"fn insert_impl\b"], fn="insert_impl_division",
      slice=r"price_with\.value\s*/\s*price_of\.value\b()", slice_count=1, no_canary=True,
      slice_template="""fn insert_impl_division(price_of: SingleAmount, price_with: SingleAmount) -> (r: Decimal)
    requires price_of.v() != 0real,   // the same precondition insert_impl is given at its call sites
{
    price_with.value / price_of.value
}"""),
    U("Exchange::is_zero", BK, [r"impl<'ctx> Exchange<'ctx>", r"fn is_zero\b"], fn="is_zero", wrap=IMPL_EX, rewrites=[RET()],
      contract="""
        ensures r == (self.rate().v() == 0real),   // @Exchange.is_zero
"""),
    U("Exchange::exchange", BK, [r"impl<'ctx> Exchange<'ctx>", r"fn exchange\b"], fn="exchange", wrap=IMPL_EX, rewrites=[RET()],
      contract="""
        ensures
            r.commodity == self.rate().commodity,
            r.v() == self.value_of(amount),   // @Exchange.exchange.rate_times_quantity_or_total_with_sign
"""),
    U("Exchange::try_from_syntax", BK, [r"impl<'ctx> Exchange<'ctx>", r"fn try_from_syntax<'a>"], fn="try_from_syntax", wrap=IMPL_EX, rewrites=[RET()],
      contract="""
        ensures
            ctx_extends(*old(ctx), *final(ctx)),
            // C01: a zero rate, a rate on a commodity-less amount, and a rate in the amount's own commodity are rejected
            r matches Ok(x) ==> x.wf_for(*posting_amount),   // @Exchange.try_from_syntax.accepts_only_wellformed
            r matches Ok(x) ==> (match exchange.value {
                syntax::Exchange::Rate(e) => x is Rate && Ok::<SingleAmount, EvalError>(x.rate()) == single_of(e.eval_result(*old(ctx))),
                syntax::Exchange::Total(e) => x is Total && Ok::<SingleAmount, EvalError>(x.rate()) == single_of(e.eval_result(*old(ctx))),
            }),   // @Exchange.try_from_syntax.rate_is_the_written_expression
            ({ let e = match exchange.value { syntax::Exchange::Rate(e) => e, syntax::Exchange::Total(e) => e };
               let sr = single_of(e.eval_result(*old(ctx)));
               sr is Ok && sr->Ok_0.v() != 0real && posting_amount is Single && posting_amount->Single_0.commodity != sr->Ok_0.commodity
            }) ==> r is Ok,   // @Exchange.try_from_syntax.wellformed_accepted
"""),
    U("ComputedPosting::compute_from_syntax", BK, [r"impl<'ctx> ComputedPosting<'ctx>", r"fn compute_from_syntax\b"], fn="compute_from_syntax", wrap=IMPL_CP,
      rewrites=[RET()], opaque=True,
      contract="""
        ensures
            // (ASSUMED, L1: closures over &mut ctx + Option::transpose) amount = evaluated written amount; cost / lot = try_from_syntax of the written ones
            r == computed_of(*syntax_amount, *old(ctx)), *final(ctx) == computed_ctx(*syntax_amount, *old(ctx)),
            ctx_extends(*old(ctx), *final(ctx)),
            r matches Ok(cp) ==> cp.wf() && Ok::<PostingAmount, EvalError>(cp.amount) == posting_amount_of(syntax_amount.amount.value.eval_result(*old(ctx)))
                && (cp.cost is Some <==> syntax_amount.cost is Some) && (cp.lot is Some <==> syntax_amount.lot.price is Some),
            posting_amount_of(syntax_amount.amount.value.eval_result(*old(ctx))) is Err ==> r is Err,
"""),
    # the same body, VERIFIED (renamed copy): everything the assumed contract above says except that the result is a FUNCTION of
    # (written amount, context) - `computed_of` is only a name for "what compute_from_syntax returns", needed to state process_posting's contract
    U("ComputedPosting::compute_from_syntax(body)", BK, [r"impl<'ctx> ComputedPosting<'ctx>", r"fn compute_from_syntax\b"], fn="compute_from_syntax__body", wrap=IMPL_CP,
      rewrites=[RET(), ("R0-rename", "fn compute_from_syntax(", "fn compute_from_syntax__body(", 1), ("R34b",),
                ("R20s",)],
      contract="""
        ensures
            ctx_extends(*old(ctx), *final(ctx)),   // @compute_from_syntax.only_extends_the_stores
            r matches Ok(cp) ==> cp.wf() && Ok::<PostingAmount, EvalError>(cp.amount) == posting_amount_of(syntax_amount.amount.value.eval_result(*old(ctx)))
                && (cp.cost is Some <==> syntax_amount.cost is Some) && (cp.lot is Some <==> syntax_amount.lot.price is Some),   // @compute_from_syntax.amount_is_the_written_one_cost_and_lot_wellformed
            posting_amount_of(syntax_amount.amount.value.eval_result(*old(ctx))) is Err ==> r is Err,   // @compute_from_syntax.ill_typed_amount_rejected
"""),
    U("posting_cost_exchange", BK, [r"fn posting_cost_exchange<'a, 'ctx>"], fn="posting_cost_exchange", rewrites=[RET(), ("R9-stub-path", "syntax::tracked::Tracked<syntax::Exchange>", "Tracked<syntax::Exchange>", 1)],
      contract="""
        ensures r is Some <==> posting_amount.cost is Some, r matches Some(x) ==> *x == posting_amount.cost->Some_0,   // @posting_cost_exchange.is_the_written_cost
"""),
    U("posting_lot_exchange", BK, [r"fn posting_lot_exchange<'a, 'ctx>"], fn="posting_lot_exchange", rewrites=[RET(), ("R9-stub-path", "syntax::tracked::Tracked<syntax::Exchange>", "Tracked<syntax::Exchange>", 1)],
      contract="""
        ensures r is Some <==> posting_amount.lot.price is Some, r matches Some(x) ==> *x == posting_amount.lot.price->Some_0,   // @posting_lot_exchange.is_the_written_lot_price
"""),
    U("ComputedPosting::calculate_converted_amount", BK, [r"impl<'ctx> ComputedPosting<'ctx>", r"fn calculate_converted_amount\b"], fn="calculate_converted_amount", wrap=IMPL_CP,
      rewrites=[RET(),
                # R34c: `X.map(|x| Ok(E(..?..))).transpose()` -> `match X { Some(x) => Ok(Some(E(..?..))), None => Ok(None) }` (std definitions of Option::map /
                # Option::transpose; the `?` inside the closure and the `?` in the match arm both end the function with the converted error)
                ("R34c-map-ok-transpose", "re:self\\.cost\\s*\\.as_ref\\(\\)\\s*\\.or\\(self\\.lot\\.as_ref\\(\\)\\)\\s*\\.map\\(\\|x\\| Ok\\(x\\.exchange\\(self\\.amount\\.try_into\\(\\)\\?\\)\\)\\)\\s*\\.transpose\\(\\)",
                 "match self.cost.as_ref().or(self.lot.as_ref()) { Some(x) => Ok(Some(x.exchange(SingleAmount::try_from(self.amount)?))), None => Ok(None) }", 1)],
      contract="""
        ensures
            self.wf() ==> r is Ok,   // @calculate_converted_amount.wellformed_posting_has_one
            // the cost, else the lot price, applied to the posting's amount
            r matches Ok(v) ==> (v is Some <==> (self.cost is Some || self.lot is Some)),   // @calculate_converted_amount.present_iff_priced
"""),
    U("ComputedPosting::calculate_balance_amount", BK, [r"impl<'ctx> ComputedPosting<'ctx>", r"fn calculate_balance_amount\b"], fn="calculate_balance_amount", wrap=IMPL_CP,
      rewrites=[RET(), ("R20-into-to-from", "Ok(x.exchange(self.amount.try_into()?).into())", "Ok(PostingAmount::from(x.exchange(self.amount.try_into()?)))", 1)],
      contract="""
        ensures
            // C01: each posting is valued at its lot price, else its cost, else its own amount
            self.wf() ==> (r matches Ok(v) && is_balancing_value(*self, v)),   // @calculate_balance_amount.lot_else_cost_else_amount
            r matches Ok(v) ==> is_balancing_value(*self, v),
"""),
    U("posting_price_event", BK, [r"fn posting_price_event<'ctx>"], fn="posting_price_event", rewrites=[RET(), ("R12",)],
      contract="""
        requires computed.wf(),
        ensures
            r is Ok,
            (computed.cost is None && computed.lot is None) ==> r == Ok::<Option<PriceEvent>, BookKeepError>(None),
            (computed.cost is Some || computed.lot is Some) ==> (r matches Ok(Some(ev)) && ev.date == date
                && ev.price_x.commodity == computed.amount->Single_0.commodity && ev.price_y.v() != 0real),   // @posting_price_event.prices_the_posting_commodity
"""),
    U("check_balance", BK, [r"fn check_balance<'ctx>"], fn="check_balance",
      rewrites=[RET(), ("R4",), ("R10",), ("R9-containers", "&mut bcc::Vec<Posting>", "&mut Vec<Posting>", 1)],
      contract="""
        ensures
            // C01: accepted only if the rounded per-commodity totals are all zero, or exactly two commodities remain
            //      with non-zero totals of opposite sign (implied exchange at a positive rate)
            r is Ok ==> balanced(rounded(ctx, balance@)),                              // @check_balance.ok_implies_balanced
            all_zero(rounded(ctx, balance@)) ==> r is Ok,                              // @check_balance.zero_total_accepted
            r is Err ==> r matches Err(BookKeepError::UnbalancedPostings(_)),          // @check_balance.rejected_as_unbalanced
            final(postings)@.len() == old(postings)@.len(),
            forall|i: int| 0 <= i < old(postings)@.len() ==> (#[trigger] final(postings)@[i]).account == old(postings)@[i].account
                && final(postings)@[i].amount == old(postings)@[i].amount,              // @check_balance.frame_postings
"""),
    U("process_posting", BK, [r"fn process_posting<'ctx>"], fn="process_posting",
      rewrites=[RET(), ("R4",), ("R1-path", "super::Account", "Account", 1)],
      contract="""
        ensures
            ctx_extends(*old(ctx), *final(ctx)),
            // a posting with neither amount nor assertion is left to be deduced; nothing changes
            (posting.amount is None && posting.balance is None) ==> (r matches Ok((None, None)) && final(bal)@ == old(bal)@ && *final(ctx) == *old(ctx)),   // @process_posting.unconstrained_untouched
            // ---- C03: `Account = X` (no amount) ----
            (posting.amount is None && posting.balance is Some) ==> ({
                let x = posting_amount_of(posting.balance->Some_0.value.eval_result(*old(ctx)));
                let h = bget(old(bal)@, account);
                &&& (x is Err ==> r is Err)
                &&& (x is Ok && x->Ok_0 is Zero && h.dom().len() > 1 ==> r is Err)          // @process_posting.assign_zero_on_multi_commodity_rejected
                &&& (r matches Ok((ep, pe)) ==> x is Ok && pe is None && ep is Some
                        && assigned_amount_ok(h, x->Ok_0, ep->Some_0.amount)                                                        // @process_posting.assigned_amount_exact
                        && ep->Some_0.balance_delta == ep->Some_0.amount
                        && final(bal)@ == old(bal)@.insert(account, assigned_holdings(h, x->Ok_0)))                                  // @process_posting.assignment_leaves_account_at_X_only
            }),
            // ---- C02: regular posting, optionally with `= X` ----
            posting.amount is Some ==> ({
                let cp = computed_of(posting.amount->Some_0, *old(ctx));
                let ctx1 = computed_ctx(posting.amount->Some_0, *old(ctx));
                let h1 = nz(add_pa(bget(old(bal)@, account), cp->Ok_0.amount));
                &&& (cp is Err ==> r is Err)
                &&& (r matches Ok((ep, pe)) ==> cp is Ok && ep is Some && ep->Some_0.amount == cp->Ok_0.amount
                        && is_balancing_value(cp->Ok_0, ep->Some_0.balance_delta)                                                    // @process_posting.delta_is_balancing_value
                        && final(bal)@ == old(bal)@.insert(account, h1))                                                             // @process_posting.adds_amount_to_that_account_only
                &&& ((r is Ok && posting.balance is Some) ==> ({
                        let e = posting_amount_of(posting.balance->Some_0.value.eval_result(ctx1));
                        e is Ok && assertion_holds(h1, e->Ok_0) }))                                                                   // @process_posting.accepted_assertion_was_true
                &&& ((cp is Ok && posting.balance is Some) ==> ({
                        let e = posting_amount_of(posting.balance->Some_0.value.eval_result(ctx1));
                        (e is Ok && !assertion_holds(h1, e->Ok_0)) ==>
                            (r matches Err(BookKeepError::BalanceAssertionFailure { account_span, balance_span, .. })
                                && account_span == posting.account.span && balance_span == posting.balance->Some_0.span) }))          // @process_posting.false_assertion_rejected_pointing_at_posting
            }),
"""),
    U("add_transaction", BK, [r"fn add_transaction<'ctx>"], fn="add_transaction",
      rewrites=[RET(), ("R6",),
                ("R9-containers", "bcc::Vec::with_capacity_in(txn.posts.len(), ctx.arena)", "Vec::<Posting>::with_capacity(txn.posts.len())", 1),
                ("R9-containers", "postings.into_boxed_slice()", "postings", 1),
                ("R20-into-to-from", "amount: evaluated.amount.into(),", "amount: Amount::from(evaluated.amount),", 1)],
      body_start="""
    let ghost mut deltas: Seq<PostingAmount> = Seq::empty();
    let ghost mut bal_after_postings: Map<Account, Map<Commodity, real>> = bal@;
    let ghost bal_in: Map<Account, Map<Commodity, real>> = bal@;
""",
      loops={0: """
        invariant
            i <= txn.posts@.len(),
            postings@.len() == i,
            deltas.len() == i,
            balance@ == sum_deltas(deltas),
            forall|j: int| 0 <= j < i && unconstrained(txn.posts@[j].value) ==> #[trigger] deltas[j] is Zero,
            unfilled is None <==> count_unc(txn.posts@, i as int) == 0,
            unfilled is Some ==> count_unc(txn.posts@, i as int) == 1 && unfilled->Some_0.value < i
                && unconstrained(txn.posts@[unfilled->Some_0.value as int].value),
            count_unc(txn.posts@, i as int) <= 1,
            // C04: the running balance moves by exactly what the postings listed so far say, account by account
            forall|a: Account, c: Commodity| #[trigger] val(bal@, a, c) == val(bal_in, a, c) + acct_sum(postings@, i as int, a, c),
            unfilled is Some ==> postings@[unfilled->Some_0.value as int].amount@ == Map::<Commodity, real>::empty(),
            // C12: a posting is booked on the account its written name resolves to (an alias resolves to its canonical account)
            forall|j: int| 0 <= j < i ==> ctx.accounts.resolved(txn.posts@[j].value.account.value@) == Some(#[trigger] postings@[j].account),
"""},
      loop_body_start={0: """
        let ghost bal_before = bal@;
        let ghost postings_before = postings@;
"""},
      loop_body_end={0: """
        proof {
            assert forall|a: Account, c: Commodity| #[trigger] val(bal@, a, c) == val(bal_in, a, c) + acct_sum(postings@, (i + 1) as int, a, c) by {
                lemma_acct_sum_prefix(postings_before, postings@, i as int, a, c);
                assert(acct_sum(postings@, (i + 1) as int, a, c) == acct_sum(postings_before, i as int, a, c) + posting_term(postings@[i as int], a, c));
                assert(postings@[i as int].account == account);
                assert(postings@[i as int].amount@ == evaluated.amount.as_map());
                if posting.amount is None && posting.balance is None {
                    assert(bal@ == bal_before);
                    assert(evaluated.amount is Zero);
                } else if posting.amount is None {
                    assert(val(bal@, a, c) == val(bal_before, a, c) + posting_term(postings@[i as int], a, c));
                } else {
                    assert(bal@ == bal_before.insert(account, nz(add_pa(bget(bal_before, account), evaluated.amount))));
                    assert(val(bal@, a, c) == val(bal_before, a, c) + posting_term(postings@[i as int], a, c));
                }
                assert(val(bal@, a, c) == val(bal_before, a, c) + posting_term(postings@[i as int], a, c));
            }
        }
        proof {
            let ghost old_d = deltas;
            deltas = deltas.push(evaluated.balance_delta);
            assert(deltas.drop_last() =~= old_d);
        }
"""},
      after_loop={0: """
    proof { lemma_count_unc_mono(txn.posts@, 0, txn.posts@.len() as int); bal_after_postings = bal@; }
    let ghost postings_after_loop = postings@;
    let ghost postings_before_deduce = postings@;
"""},
      inserts=[("before", "let deduced: Amount = balance.negate();", 0, "let ghost postings_before_deduce = postings@;\n        ")],
      after_top_if={0: """
    proof {
        // C04: also after the deduced amount is filled in / the balance check ran
        assert forall|a: Account, c: Commodity| #[trigger] val(bal@, a, c) == val(bal_in, a, c) + acct_sum(postings@, postings@.len() as int, a, c) by {
            if unfilled is Some {
                let u = unfilled->Some_0.value as int;
                lemma_acct_sum_update(postings_before_deduce, postings@, u, postings@.len() as int, a, c);
                lemma_book_val(bal_after_postings, postings@[u].account, postings@[u].amount@, a, c);
            } else {
                lemma_acct_sum_prefix(postings_after_loop, postings@, postings@.len() as int, a, c);
            }
        }
    }
    proof {
        if unfilled is Some {
            let u = unfilled->Some_0.value as int;
            assert(postings@[u].amount@ == mneg(sum_deltas(deltas)));
            // C03: the deduced amount is booked on the deduced posting's own account and nowhere else   @add_transaction.deduced_booked_on_its_account_only
            assert(bal@ == bal_after_postings.insert(postings@[u].account,
                nz(madd(bget(bal_after_postings, postings@[u].account), postings@[u].amount@))));
        } else {
            assert(bal@ == bal_after_postings);   // @add_transaction.balance_check_does_not_touch_balances
        }
        assert(accepted_with(&*ctx, postings@, txn.posts@, deltas));
        assert(accepted(&*ctx, postings@, txn.posts@));
    }
"""},
      contract="""
        ensures
            // C03: two or more postings with neither amount nor assertion cannot be deduced
            count_unc(txn.posts@, txn.posts@.len() as int) >= 2 ==> r is Err,                                   // @add_transaction.two_unconstrained_rejected
            r matches Ok(t) ==> t.date == txn.date && t.postings@.len() == txn.posts@.len(),
            // C01/C03: accepted => one omitted amount absorbs exactly the negated sum of the balancing values,
            //          or the rounded totals are balanced
            r matches Ok(t) ==> accepted(&*final(ctx), t.postings@, txn.posts@),   // @add_transaction.accepted_only_if_deduced_or_balanced
            // C12: every stored posting sits on the account its written name resolves to - whichever alias or canonical spelling was written
            r matches Ok(t) ==> forall|j: int| 0 <= j < t.postings@.len() ==> final(ctx).accounts.resolved(txn.posts@[j].value.account.value@) == Some(#[trigger] t.postings@[j].account),   // @add_transaction.posting_booked_on_the_account_its_name_resolves_to
            // C04: the running balance moves by exactly the amounts the stored (register) postings list, per account and commodity
            r matches Ok(t) ==> forall|a: Account, c: Commodity| #[trigger] val(final(bal)@, a, c) == val(old(bal)@, a, c) + acct_sum(t.postings@, t.postings@.len() as int, a, c),   // @add_transaction.balance_moves_by_the_listed_postings
"""),
    U("ProcessAccumulator(type)", BK, [r"struct ProcessAccumulator<'ctx>"]),
    ("raw", """
impl ProcessAccumulator {
    /// C04 (data-structure invariant): for every account and commodity the running balance is the sum of the amounts listed by the
    /// stored postings - the register - of all transactions read so far
    pub open spec fn wf(&self) -> bool {
        forall|a: Account, c: Commodity| #[trigger] val(self.balance@, a, c) == txn_sum(self.txns@, self.txns@.len() as int, all_dates(), a, c)
    }
}
"""),
    U("ProcessAccumulator::new", BK, [r"impl<'ctx> ProcessAccumulator<'ctx>", r"fn new\b"], fn="new", wrap=("impl ProcessAccumulator {", "}"),
      rewrites=[RET()],
      contract="""
        ensures r.wf(), r.txns@.len() == 0,   // @ProcessAccumulator.new.empty_register_empty_balance
"""),
    U("ReportContext::account", "core/src/report/context.rs", [r"impl<'ctx> ReportContext<'ctx>", r"pub fn account\b"], fn="account", wrap=("impl ReportContext {", "}"), rewrites=[RET()],
      contract="\n        ensures r == self.accounts.resolved(value@),   // @ReportContext.account.resolves_through_the_store\n"),
    U("ReportContext::commodity", "core/src/report/context.rs", [r"impl<'ctx> ReportContext<'ctx>", r"pub fn commodity\b"], fn="commodity", wrap=("impl ReportContext {", "}"), rewrites=[RET()],
      contract="\n        ensures r == self.commodities.resolved(value@),   // @ReportContext.commodity.resolves_through_the_store\n"),
    U("ProcessAccumulator::process", BK, [r"impl<'ctx> ProcessAccumulator<'ctx>", r"fn process\b"], fn="process", wrap=("impl ProcessAccumulator {", "}"),
      rewrites=[RET(),
                ("R9-stub-path", "re:syntax::(AccountDetail|CommodityDetail)::", "\\1::", None),
                ("R11-ctor-as-fn", ".map_err(BookKeepError::InvalidAccount)", ".map_err(|e: u8| -> (b: BookKeepError) ensures b == BookKeepError::InvalidAccount(e) { BookKeepError::InvalidAccount(e) })", 2),
                ("R11-ctor-as-fn", ".map_err(BookKeepError::InvalidCommodity)", ".map_err(|e: u8| -> (b: BookKeepError) ensures b == BookKeepError::InvalidCommodity(e) { BookKeepError::InvalidCommodity(e) })", 2),
                ("R6c-for-ref-vec", "for cd in &commodity.details {", "for di__ in 0..commodity.details.len() { let cd = &commodity.details[di__];", 1),
                ("R6c-for-ref-vec", "re:for (\\w+) in &account\\.details \\{", "for ai__ in 0..account.details.len() { let \\1 = &account.details[ai__];", 1)],
      loops={0: """
                    invariant
                        ctx.accounts.registered(canonical),
                        ctx.accounts.resolved(account.name@) is Some,
                        forall|n: Seq<char>| old(ctx).accounts.resolved(n) is Some ==> ctx.accounts.resolved(n) == old(ctx).accounts.resolved(n),
                        ctx.accounts.resolved(account.name@) == Some(canonical), ctx.accounts.is_canonical(account.name@),
                        forall|n: Seq<char>| n != account.name@ ==> ctx.accounts.is_canonical(n) == old(ctx).accounts.is_canonical(n),
                        forall|n: Seq<char>| (ctx.accounts.is_alias(n) && !old(ctx).accounts.is_alias(n)) ==> ctx.accounts.resolved(n) == Some(canonical),
                        forall|j: int| 0 <= j < ai__ ==> (#[trigger] account.details@[j] matches AccountDetail::Alias(a) ==>
                            ((!old(ctx).accounts.is_canonical(a@) && !old(ctx).accounts.is_alias(a@)) ==> ctx.accounts.resolved(a@) == Some(canonical))),
""", 1: """
                    invariant
                        ctx.commodities.registered(canonical),
                        ctx.commodities.resolved(commodity.name@) is Some,
                        forall|n: Seq<char>| old(ctx).commodities.resolved(n) is Some ==> ctx.commodities.resolved(n) == old(ctx).commodities.resolved(n),
                        ctx.commodities.resolved(commodity.name@) == Some(canonical), ctx.commodities.is_canonical(commodity.name@),
                        forall|n: Seq<char>| n != commodity.name@ ==> ctx.commodities.is_canonical(n) == old(ctx).commodities.is_canonical(n),
                        forall|n: Seq<char>| (ctx.commodities.is_alias(n) && !old(ctx).commodities.is_alias(n)) ==> ctx.commodities.resolved(n) == Some(canonical),
                        forall|j: int| 0 <= j < di__ ==> (#[trigger] commodity.details@[j] matches CommodityDetail::Alias(a) ==>
                            ((!old(ctx).commodities.is_canonical(a@) && !old(ctx).commodities.is_alias(a@)) ==> ctx.commodities.resolved(a@) == Some(canonical))),
                        declared_scale(commodity.details@, di__ as int) matches Some(sc) ==> ctx.commodities.dp(canonical) == Some(sc),
"""},
      body_start="""        let ghost txns_before = self.txns@; let ghost bal_before = self.balance@;""",
      inserts=[("before", "Ok(())", 0, """proof {
                    let n = txns_before.len() as int;
                    assert(self.txns@.len() == n + 1);
                    assert forall|a: Account, c: Commodity| #[trigger] val(self.balance@, a, c) == txn_sum(self.txns@, self.txns@.len() as int, all_dates(), a, c) by {
                        lemma_txn_sum_prefix(txns_before, self.txns@, n, all_dates(), a, c);
                        assert(val(bal_before, a, c) == txn_sum(txns_before, n, all_dates(), a, c));
                        assert(all_dates()(self.txns@[n].date));
                    }
                }
                """)],
      contract="""
        requires old(self).wf(),
        ensures
            // C04: the stored balance stays the register sum (an entry that is rejected stops the run: no Ledger is built from it)
            r is Ok ==> final(self).wf(),   // @process.balance_stays_the_register_sum
            !(entry is Txn) ==> (final(self).txns == old(self).txns && final(self).balance == old(self).balance),   // @process.only_transactions_touch_the_register
            // C12: declaring as canonical a name that is already an alias is rejected (accounts and commodities alike)
            (entry is Account && old(ctx).accounts.is_alias(entry->Account_0.name@)) ==> r is Err,            // @process.account_declared_over_alias_rejected
            (entry is Commodity && old(ctx).commodities.is_alias(entry->Commodity_0.name@)) ==> r is Err,       // @process.commodity_declared_over_alias_rejected
            // an accepted declaration registers the name as canonical; names known before keep their meaning
            (entry is Account && r is Ok) ==> final(ctx).accounts.resolved(entry->Account_0.name@) is Some,    // @process.account_registered
            (entry is Commodity && r is Ok) ==> final(ctx).commodities.resolved(entry->Commodity_0.name@) is Some,   // @process.commodity_registered
            // C12: every `alias` line of an accepted declaration that introduces a new name makes that name MEAN the declared account / commodity
            // (whatever was booked or declared before: the declaration may come after the first use of the canonical name)
            (entry is Account && r is Ok) ==> forall|k: int| 0 <= k < entry->Account_0.details@.len() ==> (#[trigger] entry->Account_0.details@[k] matches AccountDetail::Alias(a) ==>
                ((!old(ctx).accounts.is_canonical(a@) && !old(ctx).accounts.is_alias(a@)) ==> final(ctx).accounts.resolved(a@) == final(ctx).accounts.resolved(entry->Account_0.name@))),   // @process.account_alias_means_the_declared_account
            (entry is Commodity && r is Ok) ==> forall|k: int| 0 <= k < entry->Commodity_0.details@.len() ==> (#[trigger] entry->Commodity_0.details@[k] matches CommodityDetail::Alias(a) ==>
                ((!old(ctx).commodities.is_canonical(a@) && !old(ctx).commodities.is_alias(a@)) ==> final(ctx).commodities.resolved(a@) == final(ctx).commodities.resolved(entry->Commodity_0.name@))),   // @process.commodity_alias_means_the_declared_commodity
            // C01: the precision of a `format` line is stored for the declared commodity, whatever the sample spells after the number
            (entry is Commodity && r is Ok) ==> (declared_scale(entry->Commodity_0.details@, entry->Commodity_0.details@.len() as int) matches Some(sc) ==>
                final(ctx).commodities.dp(final(ctx).commodities.resolved(entry->Commodity_0.name@)->Some_0) == Some(sc)),   // @process.declared_precision_is_stored
            entry is Account ==> forall|n: Seq<char>| old(ctx).accounts.resolved(n) is Some ==> final(ctx).accounts.resolved(n) == old(ctx).accounts.resolved(n),
            entry is Commodity ==> forall|n: Seq<char>| old(ctx).commodities.resolved(n) is Some ==> final(ctx).commodities.resolved(n) == old(ctx).commodities.resolved(n),
"""),
    # `process` (loader closure: outside Verus) hands the accumulator's fields to the Ledger as they are: textual anchors
    U("anchor:process starts from ProcessAccumulator::new", BK, [r"pub fn process<'ctx, L, F>"], no_canary=True,
      slice=r"(let mut accum = ProcessAccumulator::new\(\);)", slice_count=1, slice_template="/* anchor: {EXPR} */\n"),
    U("anchor:process feeds every entry to ProcessAccumulator::process", BK, [r"pub fn process<'ctx, L, F>"], no_canary=True,
      slice=r"(loader\.borrow\(\)\.load\(\|path, pctx, entry\| \{\s*accum\.process\(ctx, entry\)\.map_err\()", slice_count=1, slice_template="/* anchor: {EXPR} */\n"),
    U("anchor:process hands the register and its balance to the Ledger", BK, [r"pub fn process<'ctx, L, F>"], no_canary=True,
      slice=r"(Ok\(Ledger \{\s*transactions: accum\.txns,\s*raw_balance: accum\.balance,)", slice_count=1, slice_template="/* anchor: {EXPR} */\n"),
    # ---- load_price_db: what a price-database line `P date X rate Y` records (the parser and the file reading are outside; the event is a slice)
    U("callsite:load_price_db.event_of_a_line", PD, [r"impl<'ctx> PriceRepositoryBuilder<'ctx>", r"pub fn load_price_db\b"], fn="price_db_event", no_canary=True,
      slice=r"self\.insert_price\(\s*PriceSource::PriceDB,\s*(PriceEvent \{[\s\S]*?\n                \}),", slice_count=1, slice_raw=True,
      rewrites=[("R17-free-var", "entry.datetime.date()", "date", 1)],
      slice_template="""fn price_db_event(target: Commodity, rate: SingleAmount, date: NaiveDate) -> (ev: PriceEvent)
    ensures
        // C09: the line `P date X rate Y` says: on that date 1 X = rate Y - recorded from the price database (the source is in the same statement: anchor)
        ev.price_x.v() == 1real && ev.price_x.commodity == target,   // @load_price_db.one_unit_of_the_priced_commodity
        ev.price_y == rate, ev.date == date,                          // @load_price_db.priced_at_the_stated_rate_on_the_stated_date
{
    {EXPR}
}"""),
    U("anchor:load_price_db records its lines as price-database prices", PD, [r"impl<'ctx> PriceRepositoryBuilder<'ctx>", r"pub fn load_price_db\b"], no_canary=True,
      slice=r"(self\.insert_price\(\s*PriceSource::PriceDB,)", slice_count=1, slice_template="/* anchor: {EXPR} */\n"),
]
