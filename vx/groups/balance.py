"""C02/C03/C04: Balance operations over the entry API."""
from ._amount_units import TYPES, SINGLE, POSTING, AMOUNT, opaque
from ._balance_units import BALANCE_TYPES, BALANCE

GROUP = {
    "name": "balance",
    "uses": "use std::collections::HashMap;\nuse vstd::std_specs::hash::*;\nuse core::ops::{Add, AddAssign, Mul, MulAssign, Neg, Sub, SubAssign};\n",
    "broadcast": ["rust_decimal::axiom_round", "rust_decimal::axiom_sign", "key_axioms::axiom_commodity_key_model", "key_axioms::axiom_account_key_model",
                  "amount_lemmas::lemma_single_entry", "amount_lemmas::lemma_ncomm", "balance_view::lemma_balance_view"],
    "parts": [
        ("text", "rust_decimal.rs"),
        ("text", "handles.rs"),
        ("text", "std_gaps.rs"),
        ("text", "ctx_stub.rs"),
        *TYPES,
        ("text", "amount_spec.rs"),
        *opaque(SINGLE), *opaque(POSTING), *opaque(AMOUNT),
        *BALANCE_TYPES,
        *BALANCE,
    ],
}
