"""C07 (and its C06 share): PrettyDecimal::from_str against the literal grammar."""
F = "core/src/syntax/pretty_decimal.rs"

FROM_STR_CONTRACT = """
    requires
        s.spec_bytes().len() + 4 <= usize::MAX,   // assumed: true of every Rust str (len <= isize::MAX)
    ensures
        r is Ok <==> (wellformed(s.spec_bytes()) && representable(s.spec_bytes())),   // @from_str.ok_iff_wellformed_and_representable
        r matches Ok(pd) ==> pd.value.mant() == lit_sign(s.spec_bytes()) * digits_val(s.spec_bytes(), s.spec_bytes().len() as int),   // @from_str.value_exact
        r matches Ok(pd) ==> pd.value.dscale() == frac_digits(s.spec_bytes()),   // @from_str.scale_exact
        r matches Ok(pd) ==> pd.format == style(s.spec_bytes()),   // @from_str.style_kept
"""

FROM_STR_INV = """
            invariant
                bytes@ == s.spec_bytes(),
                bytes@.len() + 4 <= usize::MAX,
                0 <= i <= bytes@.len(),
                prefix_len as int == (if i > 0 && bytes@[0] == 45u8 { 1int } else { 0int }),
                sign as int == (if prefix_len == 1 { -1int } else { 1int }),
                forall|j: int| prefix_len <= j < i ==> is_digit(#[trigger] bytes@[j]) || bytes@[j] == 44u8 || bytes@[j] == 46u8,
                forall|j: int| dot_idx(bytes@, i as int) < j < i ==> is_digit(#[trigger] bytes@[j]),
                scale is None <==> dot_idx(bytes@, i as int) == i,
                scale matches Some(k) ==> k as int == i - dot_idx(bytes@, i as int) - 1 && k <= 28,
                comma_pos == (if dot_idx(bytes@, i as int) < i || first_comma(bytes@, i as int) == i { None::<usize> } else { Some((last_comma(bytes@, i as int) + 4) as usize) }),
                first_comma(bytes@, i as int) < i ==> {
                    let c0 = first_comma(bytes@, i as int);
                    let d = dot_idx(bytes@, i as int);
                    let lc = last_comma(bytes@, i as int);
                    &&& prefix_len < c0 <= prefix_len + 3
                    &&& c0 < d
                    &&& (lc - c0) % 4 == 0
                    &&& (d == i ==> i <= lc + 4)
                    &&& (d < i ==> d == lc + 4)
                    &&& forall|j: int| c0 <= j < d ==> ((#[trigger] bytes@[j] == 44u8) <==> (j - c0) % 4 == 0)
                },
                format == (if first_comma(bytes@, i as int) < i { Some(Format::Comma3Dot) }
                           else if dot_idx(bytes@, i as int) - prefix_len >= 4 { Some(Format::Plain) } else { None::<Format> }),
                mantissa as int == digits_val(bytes@, i as int),
                has_digit <==> ndigits(bytes@, i as int) >= 1,
                // the closure's own contract (R11) has to be carried into the loop
                forall|o: usize, cp: Option<usize>, p: usize| o <= 1 ==> aligned_comma.requires((o, cp, p)),
                forall|o: usize, cp: Option<usize>, p: usize, r: bool| aligned_comma.ensures((o, cp, p), r) ==> r == ((cp is None && p > o && p <= 3 + o) || cp == Some(p)),
            decreases bytes@.len() - i,
"""

FROM_STR_LOOP_START = """
            proof {
                let n = bytes@.len() as int;
                lemma_idx_bounds(bytes@, i as int); lemma_idx_bounds(bytes@, i + 1); lemma_idx_bounds(bytes@, n);
                lemma_idx_stable(bytes@, i as int, n); lemma_idx_stable(bytes@, i + 1, n);
            }
"""

FROM_STR_AFTER_LOOP = """
        proof {
            lemma_idx_bounds(bytes@, bytes@.len() as int);
            assert(sign * mantissa == mantissa || sign * mantissa == -mantissa) by (nonlinear_arith) requires sign == 1 || sign == -1;
            assert(lit_sign(bytes@) == sign);
            assert(sign * mantissa == lit_sign(bytes@) * digits_val(bytes@, bytes@.len() as int));
        }
"""

TYPES = [
    ("unit", {"name": "Format", "file": F, "path": [r"pub enum Format\b"]}),
    ("unit", {"name": "PrettyDecimal(type)", "file": F, "path": [r"pub struct PrettyDecimal\b"]}),
    ("unit", {"name": "Error", "file": F, "path": [r"pub enum Error\b"]}),
    ("text", "prettydec_from_impl.rs"),
]

GROUP = {
    "name": "prettydec",
    "uses": "use vstd::string::*;\n",
    "parts": [
        ("text", "rust_decimal_core.rs"),
        ("text", "use_decimal.rs"),
        ("text", "std_gaps_u8.rs"),
        *TYPES,
        ("text", "literal_spec.rs"),
        ("unit", {
            "name": "try_find_char", "file": F, "path": [r"fn try_find_char\b"],
            "opaque": True,   # body is iterator adapters over char boundaries; only builds the message text
        }),
        ("unit", {
            "name": "from_str", "file": F, "fn": "from_str",
            "path": [r"impl FromStr for PrettyDecimal\b", r"fn from_str\b"],
            "rewrites": [
                ("R0-named-return", "-> Result<Self, Self::Err>", "-> (r: Result<PrettyDecimal, Error>)", 1),
                ("R0-self-type", "Ok(Self { format, value })", "Ok(PrettyDecimal { format, value })", 1),
                ("R5",),
                ("R11c", {"name": "aligned_comma", "params": [("offset", "usize"), ("cp", "Option<usize>"), ("pos", "usize")], "ret": "r: bool",
                          "requires": "offset <= 1",
                          # first comma after a leading group of 1..3 digits (behind the sign); later ones exactly where the previous group of three ends
                          "ensures": "r == ((cp is None && pos > offset && pos <= 3 + offset) || cp == Some(pos))"}),
            ],
            "contract": FROM_STR_CONTRACT,
            "loops": {0: FROM_STR_INV},
            "loop_body_start": {0: FROM_STR_LOOP_START},
            "after_loop": {0: FROM_STR_AFTER_LOOP},
        }),
        # ---- the extent of a number token inside the ledger parser: which characters the scanner takes (parse/primitive.rs)
        ("raw", """
pub assume_specification [char::is_ascii_digit] (c: &char) -> (r: bool)
    ensures r == ('0' <= *c && *c <= '9');
"""),
        ("unit", {
            "name": "callsite:primitive::pretty_decimal.token_chars", "file": "core/src/parse/primitive.rs", "path": [r"pub fn pretty_decimal<'a, I, E>"], "fn": "number_char", "no_canary": True,
            "slice": r"let c = c\.as_char\(\);\s*([^}]*?)\s*\}\),", "slice_count": 1,
            "slice_template": """fn number_char(c: char) -> (b: bool)
    ensures
        // C07 / C05: a number token is made of digits, commas and dots only - a minus sign can only LEAD it (it is taken by a separate
        //            optional `-` in front, textual anchor below), so `1-2` is a subtraction and `1 -2` two tokens
        b == (('0' <= c && c <= '9') || c == ',' || c == '.'),   // @primitive.pretty_decimal.token_is_digits_commas_dots
{
    {EXPR}
}""",
        }),
        ("unit", {
            "name": "anchor:primitive::pretty_decimal an optional leading minus, then the token, parsed by FromStr", "file": "core/src/parse/primitive.rs", "path": [r"pub fn pretty_decimal<'a, I, E>"], "no_canary": True,
            "slice": r"(opt\(one_of\('-'\)\),\s*take_while\(1\.\.,)[\s\S]*?(\.take\(\)\s*\.try_map\(str::parse\))", "slice_count": 1, "slice_raw": True, "slice_groups": "all",
            "slice_template": "/* anchor: {EXPR} */\n",
        }),
    ],
}
