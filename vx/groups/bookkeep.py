"""C01/C02/C03 (+C06 share): book-keeping of one transaction."""
from ._amount_units import TYPES, SINGLE, POSTING, AMOUNT, opaque
from ._balance_units import BALANCE_TYPES, BALANCE
from ._eval_units import EXPR_TYPES, EVALUATED_TYPE, EVALUATED
from ._bookkeep_units import BK_TYPES, BOOKKEEP, DECL_TYPES

GROUP = {
    "name": "bookkeep",
    "uses": "use std::collections::HashMap;\nuse vstd::std_specs::hash::*;\nuse core::ops::{Add, AddAssign, Mul, MulAssign, Neg, Sub, SubAssign};\nuse vstd::pervasive::unreached;\n",
    "broadcast": ["rust_decimal::axiom_round", "rust_decimal::axiom_sign", "key_axioms::axiom_commodity_key_model", "key_axioms::axiom_account_key_model",
                  "amount_lemmas::lemma_single_entry", "amount_lemmas::lemma_ncomm", "balance_view::lemma_balance_view"],
    "parts": [
        ("text", "rust_decimal.rs"),
        ("text", "chrono.rs"),
        ("text", "handles.rs"),
        ("text", "std_gaps.rs"),
        ("text", "ctx_stub.rs"),
        *TYPES,
        ("text", "amount_spec.rs"),
        *opaque(SINGLE), *opaque(POSTING), *opaque(AMOUNT),
        *BALANCE_TYPES, *opaque(BALANCE),
        *EXPR_TYPES, *EVALUATED_TYPE,
        ("text", "evaluated_spec.rs"),
        *opaque(EVALUATED),
        *DECL_TYPES,
        ("text", "syntax_stub.rs"),
        *BK_TYPES,
        *BOOKKEEP,
    ],
}
