"""C18: the sign and date helpers of the Camt053 importer (the importer itself is decided only by the bounded family c18)."""
from ._amount_units import U, RET
CA = "cli/src/import/iso_camt053.rs"
SE = "cli/src/import/single_entry.rs"
XN = "cli/src/import/iso_camt053/xmlnode.rs"
AM = "cli/src/import/amount.rs"

GROUP = {
    "name": "camt",
    "uses": "use vstd::std_specs::cmp::*;\nuse std::collections::HashMap;\n",
    "parts": [
        ("text", "rust_decimal.rs"),
        ("text", "chrono.rs"),
        ("text", "camt_stub.rs"),
        U("OwnedAmount(type)", AM, [r"pub struct OwnedAmount\b"]),
        ("raw", "pub mod xmlnode {\nuse super::*;\npub use super::xmlnode_stub::{DateHolder, Entry};\n"),
        U("xmlnode::CreditOrDebit", XN, [r"pub enum CreditOrDebit\b"], derive="Clone, Copy"),
        U("xmlnode::Amount", XN, [r"pub struct Amount\b"]),
        ("raw", "}\n"),
        U("xmlnode::Amount::to_data", CA, [r"impl xmlnode::Amount\b", r"fn to_data\b"], fn="to_data", wrap=("impl xmlnode::Amount {", "}"),
          rewrites=[RET()],
          contract="""
        ensures
            // C18: the account moves by +amount for a credit and by -amount for a debit, in the statement's currency
            credit_or_debit is Credit ==> r.value.val() == self.value.val(),      // @to_data.credit_is_positive
            credit_or_debit is Debit ==> r.value.val() == -self.value.val(),      // @to_data.debit_is_negative
            r.commodity@ == self.currency@,                                       // @to_data.keeps_currency
"""),
        ("raw", "pub mod syntax { #[derive(Clone, Copy, PartialEq, Eq)] pub enum ClearState { Uncleared, Cleared, Pending } }\n"),
        U("Charge(type)", SE, [r"struct Charge\b"]),
        U("Txn(type)", SE, [r"pub struct Txn\b"]),
        U("Txn::effective_date", SE, [r"impl Txn\b", r"pub fn effective_date\b"], fn="effective_date", wrap=("impl Txn {", "}"),
          rewrites=[RET()],
          contract="""
        ensures
            // C18: the booking date becomes the effective date only when it differs from the transaction (value) date
            // (the result is `self` handed back for chaining: its value at return time is what the caller continues with)
            r.date == old(self).date,
            r.effective_date == (if old(self).date.day() != effective_date.day() { Some(effective_date) } else { old(self).effective_date }),   // @Txn.effective_date.only_when_different
            r.amount == old(self).amount, r.balance == old(self).balance, r.payee == old(self).payee,
"""),
        U("xmlnode::Entry::guess_value_date", CA, [r"impl xmlnode::Entry\b", r"fn guess_value_date\b"], fn="guess_value_date", wrap=("impl xmlnode::Entry {", "}"),
          rewrites=[RET()],
          contract="""
        ensures
            // C18: transactions are dated by the value date, by the booking date when the entry has none
            r == (match self.value_date { Some(v) => v.date(), None => self.booking_date.date() }),   // @guess_value_date.value_date_else_booking_date
"""),
    ],
}
