"""C18: the sign and date helpers of the Camt053 importer (the importer itself is decided only by the bounded family c18)."""
from ._amount_units import U, RET
CA = "cli/src/import/iso_camt053.rs"
SE = "cli/src/import/single_entry.rs"
XN = "cli/src/import/iso_camt053/xmlnode.rs"
AM = "cli/src/import/amount.rs"

GROUP = {
    "name": "camt",
    "uses": "use vstd::std_specs::cmp::*;\nuse std::collections::HashMap;\n",
    "parts": [
        ("text", "rust_decimal.rs"),
        ("text", "chrono.rs"),
        ("text", "camt_stub.rs"),
        U("OwnedAmount(type)", AM, [r"pub struct OwnedAmount\b"]),
        ("raw", "pub mod xmlnode {\nuse super::*;\npub use super::xmlnode_stub::{DateHolder, Entry, CreditDebitIndicator, References, TransactionDetails, Statement, Balance, BalanceType, CodeOrProperty, BalanceCodeValue, Charges, ChargeRecord, AmountDetails, AmountWithExchange, CurrencyExchange, ExchangeRate};\n"),
        U("xmlnode::CreditOrDebit", XN, [r"pub enum CreditOrDebit\b"], derive="Clone, Copy"),
        U("xmlnode::Amount", XN, [r"pub struct Amount\b"]),
        U("xmlnode::BalanceCode", XN, [r"pub enum BalanceCode\b"], derive="PartialEq, Eq, Clone, Copy"),
        ("raw", "}\n"),
        U("xmlnode::Amount::to_data", CA, [r"impl xmlnode::Amount\b", r"fn to_data\b"], fn="to_data", wrap=("impl xmlnode::Amount {", "}"),
          rewrites=[RET()],
          contract="""
        ensures
            // C18: the account moves by +amount for a credit and by -amount for a debit, in the statement's currency
            credit_or_debit is Credit ==> r.value.val() == self.value.val(),      // @to_data.credit_is_positive
            credit_or_debit is Debit ==> r.value.val() == -self.value.val(),      // @to_data.debit_is_negative
            r.commodity@ == self.currency@,                                       // @to_data.keeps_currency
"""),
        ("raw", "pub mod syntax { #[derive(Clone, Copy, PartialEq, Eq)] pub enum ClearState { Uncleared, Cleared, Pending } }\n"),
        U("Charge(type)", SE, [r"struct Charge\b"]),
        U("Txn(type)", SE, [r"pub struct Txn\b"]),
        U("Txn::effective_date", SE, [r"impl Txn\b", r"pub fn effective_date\b"], fn="effective_date", wrap=("impl Txn {", "}"),
          rewrites=[RET()],
          contract="""
        ensures
            // C18: the booking date becomes the effective date only when it differs from the transaction (value) date
            // (the result is `self` handed back for chaining: its value at return time is what the caller continues with)
            *final(self) == *final(r),   // the reference handed back IS self: what the caller does through it ends up in self
            r.date == old(self).date,
            r.effective_date == (if old(self).date.day() != effective_date.day() { Some(effective_date) } else { old(self).effective_date }),   // @Txn.effective_date.only_when_different
            r.amount == old(self).amount, r.balance == old(self).balance, r.payee == old(self).payee,
"""),
        U("xmlnode::Entry::guess_value_date", CA, [r"impl xmlnode::Entry\b", r"fn guess_value_date\b"], fn="guess_value_date", wrap=("impl xmlnode::Entry {", "}"),
          rewrites=[RET()],
          contract="""
        ensures
            // C18: transactions are dated by the value date, by the booking date when the entry has none
            r == (match self.value_date { Some(v) => v.date(), None => self.booking_date.date() }),   // @guess_value_date.value_date_else_booking_date
"""),
        # ---- the Txn setters the importer uses (trivial bodies, extracted so that the slices below are checked against what they really do)
        U("Txn::new", SE, [r"impl Txn\b", r"pub fn new\b"], fn="new", wrap=("impl Txn {", "}"), rewrites=[RET()],
          contract="""
        ensures r.date == date, r.amount == amount, r.effective_date is None, r.balance is None, r.dest_account is None, r.clear_state is None, r.code is None,
            r.transferred_amount is None, r.charges@.len() == 0, r.comments@.len() == 0,   // @Txn.new.only_date_payee_amount
"""),
        U("Txn::dest_account_option", SE, [r"impl Txn\b", r"pub fn dest_account_option<'a>"], fn="dest_account_option", wrap=("impl Txn {", "}"),
          rewrites=[RET(), ("R24-std-model", "dest_account.map(str::to_string)", "opt_str_to_string(dest_account)", 1)],
          contract="""
        ensures *final(self) == *final(r), *r == (Txn { dest_account: r.dest_account, ..*old(self) }), r.dest_account is Some <==> dest_account is Some,
            r.dest_account matches Some(x) ==> x@ == dest_account->Some_0@,   // @Txn.dest_account_option.sets_only_the_counter_account
"""),
        U("Txn::dest_account", SE, [r"impl Txn\b", r"pub fn dest_account<'a>"], fn="dest_account", wrap=("impl Txn {", "}"),
          rewrites=[RET(), ("R24-std-model", "Some(dest_account.to_string())", "Some(str_to_string(dest_account))", 1)],
          contract="""
        ensures *final(self) == *final(r), *r == (Txn { dest_account: r.dest_account, ..*old(self) }), r.dest_account matches Some(x) && x@ == dest_account@,
"""),
        U("Txn::code_option", SE, [r"impl Txn\b", r"pub fn code_option<'a>"], fn="code_option", wrap=("impl Txn {", "}"),
          rewrites=[RET(), ("R24-std-model", "code.map(str::to_string)", "opt_str_to_string(code)", 1)],
          contract="""
        ensures *final(self) == *final(r), *r == (Txn { code: r.code, ..*old(self) }), r.code is Some <==> code is Some,
"""),
        U("Txn::clear_state", SE, [r"impl Txn\b", r"pub fn clear_state\b"], fn="clear_state", wrap=("impl Txn {", "}"), rewrites=[RET()],
          contract="""
        ensures *final(self) == *final(r), *r == (Txn { clear_state: Some(clear_state), ..*old(self) }),
"""),
        U("Txn::balance", SE, [r"impl Txn\b", r"pub fn balance\b"], fn="balance", wrap=("impl Txn {", "}"), rewrites=[RET()],
          contract="""
        ensures *final(self) == *final(r), *r == (Txn { balance: Some(balance), ..*old(self) }),   // @Txn.balance.sets_only_the_assertion
"""),
        # ---- statement slices of iso_camt053::import (the function as a whole - serde model, Either of two iterators, extractor - is outside Verus)
        U("callsite:import.entry_without_details", CA, [r"pub fn import<R>"], fn="entry_txn", no_canary=True,
          slice=r"for entry in entries \{\s*((?:(?://[^\n]*\n\s*)|(?:let \w+ = [^;]*;\s*))*)if entry\.details\.transactions\.is_empty\(\) \{\s*(?://[^\n]*\n\s*)*(let amount = [^;]*;)[\s\S]*?(let mut txn = single_entry::Txn::new\([^;]*;)\s*(txn\s*\.effective_date\([^;]*;)", slice_count=1, slice_raw=True, slice_groups="all",
          rewrites=[("R1-path", "single_entry::Txn::new(", "Txn::new(", 1)],
          slice_template="""fn entry_txn(entry: &xmlnode::Entry, fragment: &Fragment) -> (txn: Txn)
    ensures
        // C18: an entry without details becomes one transaction: the account moves by +amount for a credit entry and -amount for a debit entry,
        txn.amount.value.val() == (if entry.credit_or_debit.value is Credit { entry.amount.value.val() } else { -entry.amount.value.val() }),   // @import.entry_amount_signed_by_the_entry_indicator
        txn.amount.commodity@ == entry.amount.currency@,
        // dated by value date (booking date when there is none), the booking date as effective date when different
        txn.date == (match entry.value_date { Some(v) => v.date(), None => entry.booking_date.date() }),   // @import.entry_dated_by_value_date
        txn.effective_date == (if txn.date.day() != entry.booking_date.date().day() { Some(entry.booking_date.date()) } else { None::<NaiveDate> }),   // @import.entry_booking_date_is_the_effective_date_when_different
        txn.balance is None,
{
    {EXPR}
    txn
}"""),
        U("callsite:import.detail_of_a_batched_entry", CA, [r"pub fn import<R>"], fn="detail_txn", no_canary=True,
          slice=r"for entry in entries \{\s*((?:(?://[^\n]*\n\s*)|(?:let \w+ = [^;]*;\s*))*)[\s\S]*?for transaction in &entry\.details\.transactions \{\s*(let amount = [^;]*;)[\s\S]*?(let code = [^;]*;)[\s\S]*?(let mut txn = single_entry::Txn::new\([^;]*;)\s*(txn\s*\.effective_date\([^;]*;)", slice_count=1, slice_raw=True, slice_groups="all",
          rewrites=[("R1-path", "single_entry::Txn::new(", "Txn::new(", 1), ("R24-std-model", "transaction.refs.account_servicer_reference.as_deref()", "opt_string_as_deref(&transaction.refs.account_servicer_reference)", 1)],
          slice_template="""fn detail_txn(entry: &xmlnode::Entry, transaction: &xmlnode::TransactionDetails, fragment: &Fragment) -> (txn: Txn)
    ensures
        // C18: every detail of a batched entry becomes one transaction, signed by the DETAIL's own credit / debit indicator,
        txn.amount.value.val() == (if transaction.credit_or_debit.value is Credit { transaction.amount.value.val() } else { -transaction.amount.value.val() }),   // @import.detail_amount_signed_by_its_own_indicator
        txn.amount.commodity@ == transaction.amount.currency@,
        // dated like its entry: value date (else booking date), booking date as effective date when different
        txn.date == (match entry.value_date { Some(v) => v.date(), None => entry.booking_date.date() }),   // @import.detail_dated_like_its_entry
        txn.effective_date == (if txn.date.day() != entry.booking_date.date().day() { Some(entry.booking_date.date()) } else { None::<NaiveDate> }),
        txn.balance is None,
{
    {EXPR}
    txn
}"""),
        U("callsite:import.opening_balance_transaction", CA, [r"pub fn import<R>"], fn="opening_txn", no_canary=True,
          slice=r"if let Some\(first\) = stmt\.entries\.first\(\) \{\s*(let mut txn = single_entry::Txn::new\([^;]*;\s*txn\.dest_account\([^;]*;\s*txn\.balance\([^;]*;)", slice_count=1, slice_raw=True,
          rewrites=[("R1-path", "single_entry::Txn::new(", "Txn::new(", 1)],
          slice_template="""fn opening_txn(first: &xmlnode::Entry, opening_balance: OwnedAmount) -> (txn: Txn)
    ensures
        // C18: the opening-balance transaction moves nothing and asserts the opening balance, dated like the first entry
        txn.amount.value.val() == 0real, txn.amount.commodity@ == opening_balance.commodity@,   // @import.opening_transaction_moves_nothing
        txn.balance == Some(opening_balance),                                                      // @import.opening_transaction_asserts_the_opening_balance
        txn.date == (match first.value_date { Some(v) => v.date(), None => first.booking_date.date() }),
        txn.dest_account matches Some(a) && a@ == "Equity:Adjustments"@,
{
    {EXPR}
    txn
}"""),
        U("callsite:import.pending_unless_cleared", CA, [r"pub fn import<R>"], fn="mark_pending", no_canary=True,
          slice=r"(if !fragment\.cleared \{\s*txn\.clear_state\(syntax::ClearState::Pending\);\s*\})", slice_count=2, slice_raw=True,
          slice_template="""fn mark_pending(txn: &mut Txn, fragment: &Fragment)
    ensures
        // C17/C18: the counter-posting is marked pending unless the rules cleared the record; nothing else about the transaction changes
        final(txn).clear_state == (if fragment.cleared { old(txn).clear_state } else { Some(syntax::ClearState::Pending) }),   // @import.pending_unless_cleared
        final(txn).amount == old(txn).amount, final(txn).date == old(txn).date, final(txn).balance == old(txn).balance,
{
    {EXPR}
}"""),
        # the closing balance is attached after all entries of the statement were converted, to the last transaction produced (textual anchor on the position)
        U("anchor:import.closing_balance_after_the_entry_loop", CA, [r"pub fn import<R>"], no_canary=True,
          slice=r"(res\.push\(txn\);\s*\}\s*\}\s*if let Some\(last_txn\) = res\.last_mut\(\) \{\s*if let Some\(b\) = closing_balance \{\s*last_txn\.balance\(b\);\s*\}\s*\}\s*\}\s*Ok\(res\))", slice_count=1, slice_raw=True, slice_template="/* anchor: {EXPR} */\n"),
        U("anchor:import.rows_in_configured_order", CA, [r"pub fn import<R>"], no_canary=True,
          slice=r"(config::RowOrder::OldToNew => Either::Left\(stmt\.entries\.iter\(\)\),\s*config::RowOrder::NewToOld => Either::Right\(stmt\.entries\.iter\(\)\.rev\(\)\),)", slice_count=1, slice_raw=True, slice_template="/* anchor: {EXPR} */\n"),
        U("anchor:import.details_replace_the_entry", CA, [r"pub fn import<R>"], no_canary=True,
          slice=r"(if entry\.details\.transactions\.is_empty\(\) \{)[\s\S]*?(for transaction in &entry\.details\.transactions \{)", slice_count=1, slice_raw=True, slice_groups="all", slice_template="/* anchor: {EXPR} */\n"),
        U("anchor:import.opening_before_the_entries", CA, [r"pub fn import<R>"], no_canary=True,
          slice=r"(if let Some\(opening_balance\) = find_balance\(&stmt, xmlnode::BalanceCode::Opening\) \{\s*if let Some\(first\) = stmt\.entries\.first\(\) \{)[\s\S]*?(let closing_balance = find_balance\(&stmt, xmlnode::BalanceCode::Closing\);\s*let entries = match)", slice_count=1, slice_raw=True, slice_groups="all", slice_template="/* anchor: {EXPR} */\n"),
        # ---- find_balance, whole function: the FIRST balance record carrying the code, signed by its own indicator
        ("raw", """
// derive(PartialEq) on BalanceCode: structural equality (R13-style expansion)
impl vstd::std_specs::cmp::PartialEqSpecImpl for xmlnode::BalanceCode {
    open spec fn obeys_eq_spec() -> bool { true }
    open spec fn eq_spec(&self, o: &Self) -> bool { *self == *o }
}
pub open spec fn first_with_code(bals: Seq<xmlnode::Balance>, code: xmlnode::BalanceCode, from: int) -> Option<int>
    decreases bals.len() - from
{
    if from < 0 || from >= bals.len() { None } else if bals[from].balance_type.credit_or_property.code.value == code { Some(from) } else { first_with_code(bals, code, from + 1) }
}
"""),
        U("find_balance", CA, [r"fn find_balance\b"], fn="find_balance",
          rewrites=[RET(),
                    ("R40-filter-map-next", "re:stmt\\.balance\\s*\\.iter\\(\\)\\s*\\.filter\\(\\|x\\| x\\.balance_type\\.credit_or_property\\.code\\.value == code\\)\\s*\\.map\\(\\|x\\| x\\.amount\\.to_data\\(x\\.credit_or_debit\\.value\\)\\)\\s*\\.next\\(\\)",
                     "for i__ in 0..stmt.balance.len() { let x = &stmt.balance[i__]; if x.balance_type.credit_or_property.code.value == code { return Some(x.amount.to_data(x.credit_or_debit.value)); } }\n    None", 1)],
          contract="""
    ensures
        // C18: the opening / closing balance is the first balance record of the statement with that code (each look-up on its own:
        //      the order of the records does not matter), credit positive, debit negative
        first_with_code(stmt.balance@, code, 0) is None ==> r is None,   // @find_balance.none_without_such_a_record
        first_with_code(stmt.balance@, code, 0) matches Some(k) ==> (r matches Some(a)
            && a.value.val() == (if stmt.balance@[k].credit_or_debit.value is Credit { stmt.balance@[k].amount.value.val() } else { -stmt.balance@[k].amount.value.val() })
            && a.commodity@ == stmt.balance@[k].amount.currency@),   // @find_balance.first_record_with_the_code_signed_by_its_indicator
""",
          loops={0: """
        invariant first_with_code(stmt.balance@, code, 0) == first_with_code(stmt.balance@, code, i__ as int),
"""}),
        # ---- charges: add_charges (whole function) and the two Txn methods it ends in
        ("raw", """impl vstd::std_specs::ops::NegSpecImpl for OwnedAmount {
    open spec fn obeys_neg_spec() -> bool { false }
    open spec fn neg_req(self) -> bool { true }
    open spec fn neg_spec(self) -> OwnedAmount { arbitrary() }
}
"""),
        U("Neg for OwnedAmount", AM, [r"impl std::ops::Neg for OwnedAmount\b"], fn="neg", rewrites=[RET()], opaque=True, no_canary=True,
          contract="""
        ensures r.commodity == self.commodity, r.value.val() == -self.value.val(),   // proved in group csvsign
"""),
        U("Txn::transferred_amount", SE, [r"impl Txn\b", r"pub fn transferred_amount\b"], fn="transferred_amount", wrap=("impl Txn {", "}"), rewrites=[RET()],
          contract="""
        ensures *final(self) == *final(r), *r == (Txn { transferred_amount: Some(amount), ..*old(self) }),
"""),
        U("Txn::add_charge", SE, [r"impl Txn\b", r"pub fn add_charge<'a>"], fn="add_charge", wrap=("impl Txn {", "}"),
          rewrites=[RET(), ("R24-std-model", "payee: payee.to_string(),", "payee: str_to_string(payee),", 1)],
          contract="""
        ensures *final(self) == *final(r), r.charges@.len() == old(self).charges@.len() + 1, r.charges@.last().amount == amount,
            r.charges@.subrange(0, old(self).charges@.len() as int) == old(self).charges@,
            r.amount == old(self).amount, r.transferred_amount == old(self).transferred_amount, r.balance == old(self).balance, r.date == old(self).date,   // @Txn.add_charge.a_charge_included_in_the_amount_changes_nothing_else
"""),
        U("Txn::try_add_charge_not_included", SE, [r"impl Txn\b", r"pub fn try_add_charge_not_included<'a>"], fn="try_add_charge_not_included", wrap=("impl Txn {", "}"),
          rewrites=[RET(), ("R24-std-model", "payee: payee.to_string(),", "payee: str_to_string(payee),", 1),
                    ("R24-std-model", "if amount.commodity != self.amount.commodity {", "if string_ne(&amount.commodity, &self.amount.commodity) {", 1),
                    ("R24-std-model", "commodity: amount.commodity.clone(),", "commodity: string_clone(&amount.commodity),", 1)],
          contract="""
        ensures
            // a charge that is NOT included in the entry amount: what was transferred is the amount plus the charge, in the same commodity
            (old(self).amount.commodity@ != amount.commodity@ || old(self).transferred_amount is Some) ==> r is Err,   // @Txn.try_add_charge_not_included.other_commodity_or_second_transfer_rejected
            r is Err ==> *final(self) == *old(self),   // @Txn.try_add_charge_not_included.rejected_charge_changes_nothing
            r matches Ok(t) ==> *final(self) == *final(t) && t.charges@.len() == old(self).charges@.len() + 1 && t.charges@.last().amount == amount
                && t.amount == old(self).amount && t.balance == old(self).balance && t.date == old(self).date
                && (t.transferred_amount matches Some(x) && x.value.val() == old(self).amount.value.val() + amount.value.val() && x.commodity@ == amount.commodity@),   // @Txn.try_add_charge_not_included.transferred_is_amount_plus_charge
"""),
        U("add_charges", CA, [r"fn add_charges\b"], fn="add_charges", wrap=("#[verifier::loop_isolation(false)]", ""),
          rewrites=[RET(), ("R1-path", "txn: &mut single_entry::Txn,", "txn: &mut Txn,", 1), ("R1-path", "charges: &Option<xmlnode::Charges>,", "charges: &Option<xmlnode::Charges>,", 1),
                    # the index is advanced right after the element is taken, so that the body's `continue` behaves as in the `for` loop
                    ("R6d-for-ref-vec-with-continue", "for cr in &charges.records {", "let mut ci__: usize = 0; while ci__ < charges.records.len() { let cr = &charges.records[ci__]; ci__ += 1;", 1),
                    ("R11-ok-or", "re:let payee = config\\.operator\\.as_ref\\(\\)\\.ok_or\\(ImportError::InvalidConfig\\([^;]*\\)\\)\\?;",
                     "let payee = match config.operator.as_ref() { Some(p__) => p__, None => { return Err(ImportError::InvalidConfig(\"config should have operator to have charge\")); } };", 1)],
          contract="""
        ensures
            // C18: the account amount, the date and the balance assertion of the transaction are never touched by its charges
            final(txn).amount == old(txn).amount, final(txn).date == old(txn).date, final(txn).balance == old(txn).balance,   // @add_charges.charges_never_change_the_account_posting
            charges is None ==> (r is Ok && *final(txn) == *old(txn)),
""",
          loops={0: """
        invariant ci__ <= charges.records@.len(), txn.amount == old(txn).amount, txn.date == old(txn).date, txn.balance == old(txn).balance,
        decreases charges.records@.len() - ci__,
"""}),
        # ---- a detail booked in another currency: the transferred amount and its rate
        U("CommodityPair(type)", SE, [r"pub struct CommodityPair\b"]),
        ("raw", """
impl Txn {
    /// Txn::add_rate (String-keyed table: ASSUMED here; what it records is a slice in group csvrow): only the rate table changes
    #[verifier::external_body]
    pub fn add_rate(&mut self, key: CommodityPair, rate: Decimal) -> (r: Result<&mut Txn, ImportError>)
        ensures
            r matches Ok(t) ==> *final(self) == *final(t) && t.amount == old(self).amount && t.date == old(self).date && t.balance == old(self).balance
                && t.transferred_amount == old(self).transferred_amount && t.charges == old(self).charges,
            r is Err ==> *final(self) == *old(self),
    { unimplemented!() }
}
"""),
        ("raw", """
/// the amount a detail was settled in when that differs from the booked amount (None: no amount details, or the same amount)
pub open spec fn other_currency(t: &xmlnode::TransactionDetails) -> Option<xmlnode::Amount> {
    match t.amount_details {
        Some(ad) => if t.amount.currency@ == ad.transaction.amount.currency@ && t.amount.value.val() == ad.transaction.amount.value.val() { None } else { Some(ad.transaction.amount) },
        None => None,
    }
}
"""),
        U("callsite:import.detail_in_another_currency", CA, [r"pub fn import<R>"], fn="detail_transfer", no_canary=True,
          slice=r"for entry in entries \{\s*((?:(?://[^\n]*\n\s*)|(?:let \w+ = [^;]*;\s*))*)[\s\S]*?(if let Some\(amount_details\) = transaction\.amount_details\.as_ref\(\) \{[\s\S]*?\n                \})\s*add_charges\(&mut txn, config, &entry\.charges\)\?;\s*add_charges\(&mut txn, config, &transaction\.charges\)\?;", slice_count=1, slice_raw=True, slice_groups="all",
          rewrites=[("R24-std-model", "re:if (transaction\\.amount) != (amount_details\\.transaction\\.amount) \\{", "if amount_ne(&\\1, &\\2) {", 1),
                    ("R24-std-model", "exchange.source_currency.clone()", "string_clone(&exchange.source_currency)", 1), ("R24-std-model", "exchange.target_currency.clone()", "string_clone(&exchange.target_currency)", 1)],
          slice_template="""fn detail_transfer(txn: &mut Txn, entry: &xmlnode::Entry, transaction: &xmlnode::TransactionDetails) -> (r: Result<(), ImportError>)
    ensures
        // C18: what moves the ACCOUNT is never touched by the currency details of a record
        final(txn).amount == old(txn).amount, final(txn).date == old(txn).date, final(txn).balance == old(txn).balance,   // @import.currency_details_never_change_the_account_posting
        // the counter amount is the detail's transaction amount, signed by the detail's own indicator - only when it differs from the booked amount
        (r is Ok && other_currency(transaction) is Some) ==> (final(txn).transferred_amount matches Some(x)
            && x.commodity@ == other_currency(transaction)->Some_0.currency@
            && x.value.val() == (if transaction.credit_or_debit.value is Credit { other_currency(transaction)->Some_0.value.val() } else { -other_currency(transaction)->Some_0.value.val() })),   // @import.transferred_amount_signed_by_the_detail_indicator
        (r is Ok && other_currency(transaction) is None) ==> final(txn).transferred_amount == old(txn).transferred_amount,   // @import.same_currency_detail_has_no_transferred_amount
{
    {EXPR}
    Ok(())
}"""),
    ],
}
