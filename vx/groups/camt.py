"""C18: the sign and date helpers of the Camt053 importer (the importer itself is decided only by the bounded family c18)."""
from ._amount_units import U, RET
CA = "cli/src/import/iso_camt053.rs"
XN = "cli/src/import/iso_camt053/xmlnode.rs"
AM = "cli/src/import/amount.rs"

GROUP = {
    "name": "camt",
    "uses": "use vstd::std_specs::cmp::*;\n",
    "parts": [
        ("text", "rust_decimal.rs"),
        ("text", "chrono.rs"),
        ("text", "camt_stub.rs"),
        U("OwnedAmount(type)", AM, [r"pub struct OwnedAmount\b"]),
        ("raw", "pub mod xmlnode {\nuse super::*;\npub use super::xmlnode_stub::{DateHolder, Entry};\n"),
        U("xmlnode::CreditOrDebit", XN, [r"pub enum CreditOrDebit\b"], derive="Clone, Copy"),
        U("xmlnode::Amount", XN, [r"pub struct Amount\b"]),
        ("raw", "}\n"),
        U("xmlnode::Amount::to_data", CA, [r"impl xmlnode::Amount\b", r"fn to_data\b"], fn="to_data", wrap=("impl xmlnode::Amount {", "}"),
          rewrites=[RET()],
          contract="""
        ensures
            // C18: the account moves by +amount for a credit and by -amount for a debit, in the statement's currency
            credit_or_debit is Credit ==> r.value.val() == self.value.val(),      // @to_data.credit_is_positive
            credit_or_debit is Debit ==> r.value.val() == -self.value.val(),      // @to_data.debit_is_negative
            r.commodity@ == self.currency@,                                       // @to_data.keeps_currency
"""),
        U("xmlnode::Entry::guess_value_date", CA, [r"impl xmlnode::Entry\b", r"fn guess_value_date\b"], fn="guess_value_date", wrap=("impl xmlnode::Entry {", "}"),
          rewrites=[RET()],
          contract="""
        ensures
            // C18: transactions are dated by the value date, by the booking date when the entry has none
            r == (match self.value_date { Some(v) => v.date(), None => self.booking_date.date() }),   // @guess_value_date.value_date_else_booking_date
"""),
    ],
}
