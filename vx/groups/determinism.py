"""C13: the order in which hash-map-backed values reach the output is a function of the map's contents (not of the hash seed)."""
from ._amount_units import U, RET, TYPES
AM = "core/src/report/eval/amount.rs"
BA = "core/src/report/balance.rs"
EX = "cli/src/import/extract.rs"
QU = "core/src/report/query.rs"
PD = "core/src/report/price_db.rs"
CFG = "cli/src/import/config.rs"
CSV = "cli/src/import/csv.rs"

SORT_PROOF = lambda model, view, mapexpr, le: (
    "let ghost pre__ = {v}; {m}; proof {{ det::lemma_sorted_perm_canonical(pre__, {v}, {mp}, {le}); }}"
    .format(v=view, m=model, mp=mapexpr, le=le))
# `V.sort_unstable_by_key(|(K, _)| K.as_str());` with V and K taken from the code (group 1 = V)
SORT_BY_NAME_RX = r"re:\b(\w+)\.sort_unstable_by_key\(\|\((\w+), _\)\| \2\.as_str\(\)\);"

GROUP = {
    "name": "determinism",
    "uses": "use std::collections::HashMap;\nuse vstd::std_specs::hash::*;\n",
    "broadcast": ["key_axioms::axiom_commodity_key_model", "key_axioms::axiom_account_key_model"],
    "parts": [
        ("text", "rust_decimal.rs"),
        ("text", "handles.rs"),
        ("text", "hashmap_iter_models.rs"),
        ("text", "determinism_spec.rs"),
        U("Amount(type)", AM, [r"pub struct Amount\b"], pub_fields=True),
        U("Balance(type)", BA, [r"pub struct Balance<'ctx>"], pub_fields=True),
        # ---- Amount::sorted_values: the order in which the commodities of an amount are printed (balance / register / eval /
        #      error texts, through InlinePrintAmount) and iterated (Amount::iter: conversion, first reported missing rate)
        U("Amount::sorted_values", AM, [r"impl<'ctx> Amount<'ctx>", r"fn sorted_values\b"], fn="sorted_values", wrap=("impl Amount {", "}"),
          rewrites=[("R0", "ret_"),
                    ("R24-hashmap-collect", "self.values.iter().collect()", "hashmap_entries(&self.values)", 1),
                    ("R24-sort-by-name", SORT_BY_NAME_RX,
                     SORT_PROOF("sort_unstable_by_commodity_name(&mut \\1)", "refs_view(\\1@)", "self.values@", "commodity_le()"), "opt")],
          contract="""
        ensures
            // C13: the commodities of an amount are listed in an order that depends on the amount alone
            det::is_canonical(refs_view(ret_@), self.values@, commodity_le()),   // @Amount.sorted_values.order_is_function_of_the_amount
"""),
        # its two users take the listing as it is (textual anchors: a change here is a lost anchor, exit 2)
        U("anchor:InlinePrintAmount::fmt uses sorted_values", AM, [r"impl Display for InlinePrintAmount<'_, '_>", r"fn fmt\b"], no_canary=True,
          slice=r"(let vs = self\.0\.sorted_values\(\);)", slice_count=1, slice_template="/* anchor: {EXPR} */\n"),
        U("anchor:Amount::iter uses sorted_values", AM, [r"impl<'ctx> Amount<'ctx>", r"pub fn iter\b"], no_canary=True,
          slice=r"(self\.sorted_values\(\)\s*\.into_iter\(\))", slice_count=1, slice_template="/* anchor: {EXPR} */\n"),
        # ---- Balance::into_vec: the account order of the balance report
        U("Balance::into_vec", BA, [r"impl<'ctx> Balance<'ctx>", r"pub fn into_vec\b"], fn="into_vec", wrap=("impl Balance {", "}"),
          rewrites=[("R0", "ret_"),
                    ("R24-hashmap-collect", "self.accounts.into_iter().collect()", "hashmap_into_entries(self.accounts)", 1),
                    ("R24-sort-by-name", SORT_BY_NAME_RX,
                     SORT_PROOF("sort_unstable_by_account_name(&mut \\1)", "\\1@", "self.accounts@", "account_le()"), "opt")],
          contract="""
        ensures det::is_canonical(ret_@, self.accounts@, account_le()),   // @Balance.into_vec.order_is_function_of_the_balance
"""),
        # ---- Ledger::balance (`balance -X`): the order in which accounts are converted decides which missing rate is reported
        U("anchor:Balance::iter is accounts.iter()", BA, [r"impl<'ctx> Balance<'ctx>", r"pub\(crate\) fn iter\b"], no_canary=True,
          slice=r"(self\.accounts\.iter\(\))", slice_count=1, slice_template="/* anchor: {EXPR} */\n"),
        U("callsite:Ledger::balance.conversion_order", QU, [r"impl<'ctx> Ledger<'ctx>", r"pub fn balance\b"], fn="conversion_account_order", no_canary=True,
          slice=r"(let mut accounts: Vec<[^;]*;\s*(?:accounts\.sort_unstable_by_key\([^;]*;)?)", slice_count=1,
          slice_template="""fn conversion_account_order<'a>(balance: &'a Balance) -> (accounts: Vec<(&'a Account, &'a Amount)>)
    ensures
        // C13: accounts are converted (and the first missing rate reported) in an order that depends on the balance alone
        det::is_canonical(refs_view(accounts@), balance.accounts@, account_le()),   // @Ledger.balance.conversion_order_is_function_of_the_balance
{
    {EXPR}
    accounts
}""",
          rewrites=[("R24-hashmap-collect", "balance.iter().collect()", "hashmap_entries(&balance.accounts)", 1),
                    ("R24-sort-by-name", "accounts.sort_unstable_by_key(|(a, _)| a.as_str());",
                     SORT_PROOF("sort_unstable_by_account_name_refs(&mut accounts)", "refs_view(accounts@)", "balance.accounts@", "account_le()"), "opt")]),
        U("anchor:the conversion loop walks that listing", QU, [r"impl<'ctx> Ledger<'ctx>", r"pub fn balance\b"], no_canary=True,
          slice=r"(for \(account, original_amount\) in accounts \{)", slice_count=1, slice_template="/* anchor: {EXPR} */\n"),
        # ---- compute_price_table: the order in which the neighbours of a commodity are visited decides which of two equally
        #      distant rates is kept (`balance -X`, `eval -X`)
        ("raw", "#[verifier::external_body]\npub struct Entry { _p: usize }   // stand-in for price_db::Entry (never looked inside)\n"),
        U("callsite:compute_price_table.neighbor_order", PD, [r"impl<'ctx> NaivePriceRepository<'ctx>", r"fn compute_price_table\b"], fn="neighbor_order", no_canary=True,
          slice=r"(let mut neighbors: Vec<[^;]*;\s*(?:neighbors\.sort_unstable_by_key\([^;]*;)?)\s*for \(j, Entry\(source, rates\)\) in neighbors", slice_count=1,
          slice_template="""fn neighbor_order<'a>(neighbors: &'a HashMap<Commodity, Entry>) -> (r: Vec<(&'a Commodity, &'a Entry)>)
    ensures
        // C13: neighbours are visited (and ties between equally distant rates broken) in an order that depends on the records alone
        det::is_canonical(refs_view(r@), neighbors@, commodity_le()),   // @compute_price_table.neighbor_order_is_function_of_the_records
{
    let ghost records = neighbors@;
    {EXPR}
    neighbors
}""",
          rewrites=[("R24-hashmap-collect", "neighbors.iter().collect()", "hashmap_entries(neighbors)", 1),
                    ("R24-sort-by-name", "neighbors.sort_unstable_by_key(|(c, _)| c.as_str());",
                     SORT_PROOF("sort_unstable_by_commodity_name(&mut neighbors)", "refs_view(neighbors@)", "records", "commodity_le()"), "opt")]),
        # ---- import: the order in which the field matchers of one rewrite rule are applied
        ("raw", "pub mod config {\nuse super::*;\n"),
        U("config::RewriteField", CFG, [r"pub enum RewriteField\b"]),
        U("config::FieldMatcher", CFG, [r"pub struct FieldMatcher\b"]),
        U("config::FieldKey", CFG, [r"pub enum FieldKey\b"]),
        ("raw", "#[verifier::external_body]\npub struct FieldPos { _p: usize }   // stand-in (never looked inside)\n}\n"),
        ("text", "determinism_fields.rs"),
        U("callsite:MatchAndExpr::try_from.order", EX, [r"impl<M: EntityMatcher> TryFrom<&config::FieldMatcher> for MatchAndExpr<M>", r"fn try_from\b"], fn="matcher_field_order", no_canary=True,
          slice=r"(let mut fields: Vec<[^;]*;\s*(?:fields\.sort_unstable_by_key\([^;]*;)?)\s*let matchers", slice_count=1,
          slice_template="""fn matcher_field_order<'a>(from: &'a config::FieldMatcher) -> (fields: Vec<(&'a config::RewriteField, &'a String)>)
    ensures
        // C13: the field matchers of a rule are applied in an order that depends on the rule alone
        det::is_canonical(refs_view(fields@), from.fields@, field_le()),   // @MatchAndExpr.field_order_is_function_of_the_rule
{
    {EXPR}
    fields
}""",
          rewrites=[("R24-hashmap-collect", "from.fields.iter().collect()", "hashmap_entries(&from.fields)", 1),
                    ("R24-sort-by-field", "fields.sort_unstable_by_key(|(fd, _)| **fd);",
                     SORT_PROOF("sort_unstable_by_field(&mut fields)", "refs_view(fields@)", "from.fields@", "field_le()"), "opt")]),
        # ---- CSV import: the order in which the configured fields are resolved decides which invalid field is reported
        U("callsite:FieldMap::try_new.order", CSV, [r"impl FieldMap\b", r"fn try_new\b"], fn="csv_field_order", no_canary=True,
          slice=r"(let mut fields: Vec<[^;]*;\s*(?:fields\.sort_unstable_by_key\([^;]*;)?)\s*for \(&k, pos\) in fields", slice_count=1,
          slice_template="""fn csv_field_order<'a>(config_mapping: &'a HashMap<config::FieldKey, config::FieldPos>) -> (fields: Vec<(&'a config::FieldKey, &'a config::FieldPos)>)
    ensures
        // C13: the configured fields are resolved (and the first invalid one reported) in an order that depends on the config alone
        det::is_canonical(refs_view(fields@), config_mapping@, fieldkey_le()),   // @FieldMap.try_new.field_order_is_function_of_the_config
{
    {EXPR}
    fields
}""",
          rewrites=[("R24-hashmap-collect", "config_mapping.iter().collect()", "hashmap_entries(config_mapping)", 1),
                    ("R24-sort-by-field", "fields.sort_unstable_by_key(|(k, _)| **k);",
                     SORT_PROOF("sort_unstable_by_fieldkey(&mut fields)", "refs_view(fields@)", "config_mapping@", "fieldkey_le()"), "opt")]),
        # ---- `okane accounts`: the order in which the known accounts are listed
        U("ReportContext::all_accounts", "core/src/report/context.rs", [r"impl<'ctx> ReportContext<'ctx>", r"pub\(super\) fn all_accounts\b"], fn="all_accounts", wrap=("impl ReportContextStub {", "}"),
          rewrites=[("R0", "ret_"),
                    ("R24-hashmap-collect", "self.all_accounts_unsorted().collect()", "collect_all_accounts_unsorted(self)", 1),
                    ("R24-sort-by-name", "re:\\b(\\w+)\\.sort_unstable_by_key\\(\\|(\\w+)\\| \\2\\.as_str\\(\\)\\);",
                     "let ghost pre__ = \\1@.map_values(|a: Account| (a, ())); sort_accounts_by_name(&mut \\1); proof { det::lemma_sorted_perm_canonical(pre__, \\1@.map_values(|a: Account| (a, ())), canonical_accounts_of(self), account_le()); }", "opt")],
          contract="""
        ensures
            // C13: the accounts are listed in an order that depends on the set of known accounts alone
            det::is_canonical(ret_@.map_values(|a: Account| (a, ())), canonical_accounts_of(self), account_le()),   // @ReportContext.all_accounts.order_is_function_of_the_known_accounts
"""),
    ],
}
