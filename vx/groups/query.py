"""C04 / C10 (/ C13): Ledger::balance, whole function - the re-fold over the stored postings within the date window and the two
conversion branches - plus Balance::round."""
from ._amount_units import U, RET, TYPES, SINGLE, POSTING, AMOUNT, opaque
from ._balance_units import BALANCE_TYPES, BALANCE
from . import convert as _convert
from . import daterange as _daterange
QU = "core/src/report/query.rs"
TX = "core/src/report/transaction.rs"
BA = "core/src/report/balance.rs"

# the convert group's parts up to and including convert_amount (types + contracts proved there; bodies dropped here)
_CONV = [p for p in _convert.GROUP["parts"]]
_DR = [p for p in _daterange.GROUP["parts"] if not (p[0] == "text" and p[1] in ("chrono.rs", "commodity_stub.rs"))]

SORT_PROOF = lambda model, view, mapexpr, le: (
    "let ghost pre__ = {v}; {m}; proof {{ det::lemma_sorted_perm_canonical(pre__, {v}, {mp}, {le}); }}"
    .format(v=view, m=model, mp=mapexpr, le=le))

GROUP = {
    "name": "query",
    "uses": _convert.GROUP["uses"],
    "broadcast": list(_convert.GROUP["broadcast"]) + ["balance_view::lemma_balance_view"],
    "parts": [
        *opaque(_CONV),
        *BALANCE_TYPES,
        *opaque(BALANCE),
        *opaque(_DR),
        ("text", "determinism_spec.rs"),
        ("text", "query_stub.rs"),
        U("QueryError", QU, [r"pub enum QueryError\b"]),
        U("Posting(type)", TX, [r"pub struct Posting<'ctx>"]),
        U("Transaction(type)", TX, [r"pub struct Transaction<'ctx>"],
          rewrites=[("R9-arena-box-slice", "bumpalo::boxed::Box<[Posting]>", "Vec<Posting>", 1)]),
        U("Ledger(type)", QU, [r"pub struct Ledger<'ctx>"]),
        ("text", "query_spec.rs"),
        ("text", "ledger_sum.rs"),
        ("text", "query_theorems.rs"),
        # ---- the register: Ledger::postings lists exactly the postings of the selected account(s), in file order
        ("text", "register_spec.rs"),
        ("text", "register_listing.rs"),
        U("AccountFilter(type)", QU, [r"enum AccountFilter<'ctx>"]),
        U("AccountFilter::is_match", QU, [r"impl<'ctx> AccountFilter<'ctx>", r"fn is_match\b"], fn="is_match", wrap=("impl AccountFilter {", "}"), opaque=True, no_canary=True,
          rewrites=[RET()],
          contract="""
        ensures r == (match *self { AccountFilter::Any => true, AccountFilter::Set(targets) => targets@.contains(*account) }),   // proved in group `register`
"""),
        U("AccountFilter::new", QU, [r"impl<'ctx> AccountFilter<'ctx>", r"fn new\b"], fn="new", wrap=("impl AccountFilter {", "}"), opaque=True, no_canary=True,
          rewrites=[RET()],
          contract="""
        ensures
            // proved in group `register` on the real body (whole function); what stays assumed there: all_accounts_unsorted lists every known account once
            filter is None ==> r == Some(AccountFilter::Any),
            filter matches Some(f) ==> (match r {
                Some(AccountFilter::Set(t)) => forall|x: Account| t@.contains(x) == #[trigger] by_name(ctx, f@)(x),
                Some(AccountFilter::Any) => false,
                None => forall|x: Account| !#[trigger] by_name(ctx, f@)(x) }),
"""),
        U("anchor:Ledger::transactions is transactions.iter()", QU, [r"impl<'ctx> Ledger<'ctx>", r"pub fn transactions\b"], no_canary=True,
          slice=r"(self\.transactions\.iter\(\))", slice_count=1, slice_template="/* anchor: {EXPR} */\n"),
        U("Ledger::postings", QU, [r"impl<'ctx> Ledger<'ctx>", r"pub fn postings<'a>"], fn="postings", wrap=("impl Ledger {", "}"),
          rewrites=[RET(), ("R24-std-model", "query.account.as_deref()", "opt_string_as_deref(&query.account)", 1),
                    ("splice-proof", "None => return Vec::new(),", "None => { proof { lemma_reg_seq_none(self.transactions@, self.transactions@.len() as int, sel); assert(refs_of(Seq::<&Posting>::empty()) =~= Seq::<Posting>::empty()); } return Vec::new() }", 1),
                    ("R37-flat-map-filter-collect", "re:self\\.transactions\\(\\)\\s*\\.flat_map\\(\\|txn\\| &\\*txn\\.postings\\)\\s*\\.filter\\(\\|x\\| af\\.is_match\\(&x\\.account\\)\\)\\s*\\.collect\\(\\)",
                     "{ let mut out__: Vec<&Posting> = Vec::new();\n        for ti__ in 0..self.transactions.len() { let txn = &self.transactions[ti__];\n            for pi__ in 0..txn.postings.len() { let x = &txn.postings[pi__]; if af.is_match(&x.account) { out__.push(x); } } }\n        out__ }", 1)],
          contract="""
        ensures
            // C04: no account asked for = every posting, in file order
            query.account is None ==> refs_of(r@) == reg_seq(self.transactions@, self.transactions@.len() as int, everything()),   // @Ledger.postings.without_argument_lists_everything
            // C04: an account asked for = exactly the postings whose own account carries exactly that name, in file order (none known = nothing)
            query.account matches Some(f) ==> refs_of(r@) == reg_seq(self.transactions@, self.transactions@.len() as int, by_name(ctx, f@)),   // @Ledger.postings.lists_the_postings_of_the_account_of_that_name
""",
          body_start="""        let ghost sel: spec_fn(Account) -> bool = if query.account is None { everything() } else { by_name(ctx, query.account->Some_0@) };""",
          loops={0: """
            invariant
                refs_of(out__@) == reg_seq(self.transactions@, ti__ as int, sel),
                forall|x: Account| #[trigger] sel(x) == (match af { AccountFilter::Any => true, AccountFilter::Set(targets) => targets@.contains(x) }),
""", 1: """
            invariant
                ti__ < self.transactions@.len(), txn == &self.transactions@[ti__ as int],
                refs_of(out__@) == reg_seq(self.transactions@, ti__ as int, sel) + sel_prefix(txn.postings@, pi__ as int, sel),
                forall|x: Account| #[trigger] sel(x) == (match af { AccountFilter::Any => true, AccountFilter::Set(targets) => targets@.contains(x) }),
"""},
          loop_body_start={1: "                let ghost out_before__ = out__@;"},
          loop_body_end={1: """                proof {
                    if sel(txn.postings@[pi__ as int].account) {
                        assert(refs_of(out__@) =~= refs_of(out_before__).push(txn.postings@[pi__ as int]));
                        assert(refs_of(out__@) =~= reg_seq(self.transactions@, ti__ as int, sel) + sel_prefix(txn.postings@, pi__ as int, sel).push(txn.postings@[pi__ as int]));
                    }
                }"""}),

        # ---- Balance::round: every account's holdings rounded, no account added or dropped
        U("Balance::round", BA, [r"impl<'ctx> Balance<'ctx>", r"pub fn round\b"], fn="round", wrap=("impl Balance {", "}"),
          rewrites=[("R25e",)],
          contract="""
        ensures final(self)@ == round_b(ctx, old(self)@),   // @Balance.round.every_account_rounded_none_added_or_dropped
""",
          loops={0: """
            invariant
                i__ <= keys__@.len(),
                keys__@.no_duplicates(),
                forall|a: Account| keys__@.contains(a) <==> old(self).accounts@.contains_key(a),
                self.accounts@.dom() == old(self).accounts@.dom(),
                forall|j: int| 0 <= j < i__ ==> (#[trigger] self.accounts@[keys__@[j]])@ == rounded(ctx, old(self).accounts@[keys__@[j]]@),
                forall|j: int| i__ <= j < keys__@.len() ==> #[trigger] self.accounts@[keys__@[j]] == old(self).accounts@[keys__@[j]],
            decreases keys__@.len() - i__,
"""},
          loop_body_start={0: "            proof { assert(keys__@.contains(keys__@[i__ as int])); }"},
          loop_body_end={0: """            proof {
                assert(self.accounts@.dom() =~= old(self).accounts@.dom());
                assert forall|j: int| 0 <= j < i__ implies (#[trigger] self.accounts@[keys__@[j]])@ == rounded(ctx, old(self).accounts@[keys__@[j]]@) by {
                    if j < i__ - 1 { assert(keys__@[j] != keys__@[i__ - 1]); }
                }
                assert forall|j: int| i__ <= j < keys__@.len() implies #[trigger] self.accounts@[keys__@[j]] == old(self).accounts@[keys__@[j]] by {
                    assert(keys__@[j] != keys__@[i__ - 1]);
                }
            }"""},
          after_loop={0: """        proof {
            assert forall|a: Account| self.accounts@.contains_key(a) implies (#[trigger] self.accounts@[a])@ == rounded(ctx, old(self).accounts@[a]@) by {
                assert(keys__@.contains(a));
                let j = choose|j: int| 0 <= j < keys__@.len() && keys__@[j] == a;
                assert(self.accounts@[keys__@[j]]@ == rounded(ctx, old(self).accounts@[keys__@[j]]@));
            }
            assert(self@ =~= round_b(ctx, old(self)@));
        }"""}),
        # ---- Ledger::balance, the whole function
        U("Ledger::balance", QU, [r"impl<'ctx> Ledger<'ctx>", r"pub fn balance\b"], fn="balance", wrap=("impl Ledger {\n#[verifier::loop_isolation(false)]", "}"), canary_rlimit=3,
          rewrites=[RET(), ("R30",), ("R1-path", "price_db::convert_amount(", "convert_amount(", 2),
                    ("R4-to-string", "err.to_string()", "opaque_string()", 2),
                    ("R24-hashmap-collect", "balance.iter().collect()", "hashmap_entries(&cow_ref(&balance).accounts)", 1),
                    ("R24-sort-by-name", "accounts.sort_unstable_by_key(|(a, _)| a.as_str());",
                     SORT_PROOF("sort_unstable_by_account_name_refs(&mut accounts)", "refs_view(accounts@)", "balance.value().accounts@", "account_le()"), "opt"),
                    ("R6b", "accounts")],
          contract="""
        requires old(self).price_repos.cache_consistent(),
        ensures
            // a report changes nothing: same postings, same stored balance, same price records (the memo stays consistent with them)
            final(self).price_repos.cache_consistent(),
            final(self).price_repos.inner == old(self).price_repos.inner,
            final(self).transactions == old(self).transactions,
            final(self).raw_balance == old(self).raw_balance,
            // C04: without a window (and without per-posting conversion) the stored whole-history balance is reported as it is
            (query.conversion is None && !recompute(query)) ==> (r matches Ok(c) && c.value() == old(self).raw_balance),   // @Ledger.balance.whole_history_is_the_stored_balance
            // C04: with a window the report is the sum of the postings of the transactions dated in [start, end) - every one of them,
            //      once, nothing else - rounded to the declared precisions
            (query.conversion is None && recompute(query)) ==> (r matches Ok(c) && c.value()@ ==
                round_b(ctx, fold_txns(&old(self).price_repos.inner, query, old(self).transactions@, old(self).transactions@.len() as int))),   // @Ledger.balance.window_report_is_the_register_sum
            // C10 --historical: every posting converted at its own transaction's date, or the command fails
            (query.conversion matches Some(cv) && cv.strategy is Historical && deltas_ok(&old(self).price_repos.inner, query, old(self).transactions@, old(self).transactions@.len() as int, 0)) ==>
                (r matches Ok(c) && c.value()@ ==
                    round_b(ctx, fold_txns(&old(self).price_repos.inner, query, old(self).transactions@, old(self).transactions@.len() as int))),   // @Ledger.balance.historical_converts_every_posting_at_its_date
            (query.conversion matches Some(cv) && cv.strategy is Historical && !deltas_ok(&old(self).price_repos.inner, query, old(self).transactions@, old(self).transactions@.len() as int, 0)) ==>
                r is Err,   // @Ledger.balance.historical_missing_rate_fails
            // C10 at the report date: every account of the (stored or re-folded) balance converted on its own, every holding once, or failure
            query.conversion matches Some(cv) ==> (cv.strategy matches ConversionStrategy::UpToDate { now } ==> (!recompute(query) ==>
                (match r { Ok(c) => accounts_convertible(&old(self).price_repos.inner, old(self).raw_balance.accounts@, cv.target, now)
                                    && is_conversion_of(ctx, &old(self).price_repos.inner, old(self).raw_balance.accounts@, cv.target, now, c.value()@),
                           Err(_) => !accounts_convertible(&old(self).price_repos.inner, old(self).raw_balance.accounts@, cv.target, now) }))),   // @Ledger.balance.report_date_conversion_of_the_stored_balance
            query.conversion matches Some(cv) ==> (cv.strategy matches ConversionStrategy::UpToDate { now } ==> (recompute(query) ==>
                converts_a_balance_with_view(ctx, &old(self).price_repos.inner,
                    round_b(ctx, fold_txns(&old(self).price_repos.inner, query, old(self).transactions@, old(self).transactions@.len() as int)), cv.target, now,
                    match r { Ok(c) => Some(c.value()@), Err(_) => None }))),   // @Ledger.balance.report_date_conversion_of_the_window_balance
""",
          body_start="""        let ghost inner0 = &old(self).price_repos.inner;
        let ghost txns = old(self).transactions@;""",
          loops={0: """
            invariant
                self.price_repos.cache_consistent(),
                self.price_repos.inner == old(self).price_repos.inner,
                self.transactions == old(self).transactions,
                self.raw_balance == old(self).raw_balance,
                deltas_ok(inner0, query, txns, ti__ as int, 0),
                bal@ == fold_txns(inner0, query, txns, ti__ as int),
""", 1: """
            invariant
                self.price_repos.cache_consistent(),
                self.price_repos.inner == old(self).price_repos.inner,
                self.transactions == old(self).transactions,
                self.raw_balance == old(self).raw_balance,
                deltas_ok(inner0, query, txns, ti__ as int, pi__ as int),
                bal@ == (if in_range(query.date_range.start, query.date_range.end, txn.date) { fold_postings(fold_txns(inner0, query, txns, ti__ as int), inner0, query, txns, ti__ as int, pi__ as int) }
                         else { fold_txns(inner0, query, txns, ti__ as int) }),
""", 2: """
                    invariant
                self.price_repos.cache_consistent(),
                self.price_repos.inner == old(self).price_repos.inner,
                self.transactions == old(self).transactions,
                self.raw_balance == old(self).raw_balance,
                        det::is_canonical(refs_view(accounts@), balance.value().accounts@, account_le()),
                        forall|k: int| 0 <= k < i__ ==> (#[trigger] conv_amount(inner0, *accounts@[k].1, target, now)) is Some,
                        forall|a: Account| converted@.contains_key(a) <==> (exists|k: int| 0 <= k < i__ && *(#[trigger] accounts@[k]).0 == a),
                        forall|k: int| 0 <= k < i__ ==> converted@[*(#[trigger] accounts@[k]).0] == nz(madd(Map::<Commodity, real>::empty(), conv_amount(inner0, *accounts@[k].1, target, now).unwrap())),
"""},
          loop_body_start={1: """            proof {
                assert(txns[ti__ as int].postings@[pi__ as int] == txn.postings@[pi__ as int]);
                assert(delta_at(inner0, query, txns, ti__ as int, pi__ as int) == posting_delta(inner0, query.conversion, txn.date, txn.postings@[pi__ as int]));
            }""",
                           2: """                    proof {
                        assert(refs_view(accounts@)[i__ as int] == (*accounts@[i__ as int].0, *accounts@[i__ as int].1));
                        assert(balance.value().accounts@.contains_key(*accounts@[i__ as int].0) && balance.value().accounts@[*accounts@[i__ as int].0] == *accounts@[i__ as int].1);
                        assert forall|k: int| 0 <= k < i__ implies *(#[trigger] accounts@[k]).0 != *accounts@[i__ as int].0 by {
                            assert(refs_view(accounts@)[k].0 != refs_view(accounts@)[i__ as int].0);
                        }
                    }"""},
          loop_body_end={1: """            proof {
                reveal_with_fuel(fold_postings, 2);
            }"""},
          inserts=[("before", "converted.round(ctx);", 0, """proof {
                    let base = balance.value().accounts@;
                    assert forall|a: Account| base.contains_key(a) implies (#[trigger] conv_amount(inner0, base[a], target, now)) is Some
                        && converted@.contains_key(a) && converted@[a] == nz(madd(Map::<Commodity, real>::empty(), conv_amount(inner0, base[a], target, now).unwrap())) by {
                        let k = choose|k: int| 0 <= k < refs_view(accounts@).len() && (#[trigger] refs_view(accounts@)[k]).0 == a;
                        assert(refs_view(accounts@)[k] == (*accounts@[k].0, *accounts@[k].1));
                        assert(base[a] == *accounts@[k].1);
                        assert(conv_amount(inner0, *accounts@[k].1, target, now) is Some);
                    }
                    assert forall|a: Account| converted@.contains_key(a) implies base.contains_key(a) by {
                        let k = choose|k: int| 0 <= k < accounts@.len() && *(#[trigger] accounts@[k]).0 == a;
                        assert(refs_view(accounts@)[k] == (*accounts@[k].0, *accounts@[k].1));
                    }
                    assert(converted@.dom() =~= base.dom());
                }
                let ghost converted0 = converted@;
                """),
                   ("before", "Ok(Cow::Owned(converted))", 0, """proof {
                    let base = balance.value().accounts@;
                    assert(converted@.dom() =~= base.dom());
                    assert forall|a: Account| base.contains_key(a) implies #[trigger] converted@[a] == rounded(ctx, nz(madd(Map::<Commodity, real>::empty(), conv_amount(inner0, base[a], target, now).unwrap()))) by {
                        assert(converted0.contains_key(a));
                    }
                    assert(is_conversion_of(ctx, inner0, base, target, now, converted@));
                    assert(balance.value()@ == balance.value()@);
                }
                """)],
          after_loop={1: """            proof {
                reveal_with_fuel(fold_txns, 2);
                assert(txn.postings@.len() == txns[ti__ as int].postings@.len());
            }"""}),
        # ---- Ledger::eval (`okane eval [-X T]`): the expression's amount, converted as a whole at the asked date when an exchange commodity is given
        U("EvalContext(type)", QU, [r"pub struct EvalContext\b"]),
        ("raw", """
pub mod syntax { pub mod expr { #[verifier::external_body] pub struct ValueExpr { _p: usize } } }
#[verifier::external_body] pub struct Evaluated { _p: usize }
/// ASSUMED models of what Ledger::eval calls outside this group: the expression parser (parse/expr.rs, bounded family c08), the read-only evaluator
/// (Evaluable::eval; eval_visit is proved in group evalvisit), TryFrom<Evaluated> for Amount (proved in group evaluated)
pub uninterp spec fn parsed_expr(text: Seq<char>) -> Result<syntax::expr::ValueExpr, parse::ParseError>;
#[verifier::external_body]
pub fn parse_value_expr(text: &str) -> (r: Result<syntax::expr::ValueExpr, parse::ParseError>) ensures r == parsed_expr(text@) { unimplemented!() }
impl syntax::expr::ValueExpr {
    pub uninterp spec fn eval_ro(&self, ctx: &ReportContext) -> Result<Evaluated, EvalError>;
    #[verifier::external_body]
    pub fn eval(&self, ctx: &ReportContext) -> (r: Result<Evaluated, EvalError>) ensures r == self.eval_ro(ctx) { unimplemented!() }
}
pub uninterp spec fn amount_of(ev: Evaluated) -> Result<Amount, EvalError>;
#[verifier::external_body]
pub fn amount_try_from_evaluated(ev: Evaluated) -> (r: Result<Amount, EvalError>) ensures r == amount_of(ev) { unimplemented!() }
#[verifier::external_body]
pub fn commodity_not_found(name: &String) -> (r: QueryError) ensures r is CommodityNotFound { unimplemented!() }
// thiserror #[from] on QueryError (R13)
impl vstd::std_specs::convert::FromSpecImpl<EvalError> for QueryError {
    open spec fn obeys_from_spec() -> bool { true }
    open spec fn from_spec(e: EvalError) -> QueryError { QueryError::EvalFailed(e) }
}
impl From<EvalError> for QueryError { fn from(e: EvalError) -> (r: QueryError) { QueryError::EvalFailed(e) } }
/// what the expression evaluates to (None: it does not parse, is ill-typed, or is not an amount)
pub open spec fn expr_amount(ctx: &ReportContext, text: Seq<char>) -> Option<Amount> {
    match parsed_expr(text) { Ok(e) => match e.eval_ro(ctx) { Ok(v) => match amount_of(v) { Ok(a) => Some(a), Err(_) => None }, Err(_) => None }, Err(_) => None }
}
"""),
        U("Ledger::eval", QU, [r"impl<'ctx> Ledger<'ctx>", r"pub fn eval\b"], fn="eval", wrap=("impl Ledger {", "}"),
          rewrites=[RET(), ("R34b",),
                    ("R11-ok-or", "re:ctx\\.commodities\\.resolve\\(x\\)\\.ok_or_else\\(\\|\\| \\{\\s*QueryError::CommodityNotFound\\([^;{}]*\\)\\s*\\}\\)", "ctx.commodities.resolve(x.as_str()).ok_or(commodity_not_found(x))", 1),
                    ("R24-std-model", "re:expression\\.try_into\\(\\)\\.map_err\\(QueryError::ParseFailed\\)\\?",
                     "match parse_value_expr(expression) { Ok(p__) => p__, Err(e__) => { return Err(QueryError::ParseFailed(e__)); } }", 1),
                    ("R20-into-to-from", "re:let evaled: Amount = parsed\\.eval\\(ctx\\)\\?\\.try_into\\(\\)\\?;", "let evaled: Amount = amount_try_from_evaluated(parsed.eval(ctx)?)?;", 1),
                    ("R1-path", "price_db::convert_amount(", "convert_amount(", 1), ("R4-to-string", "err.to_string()", "opaque_string()", 1)],
          contract="""
        requires old(self).price_repos.cache_consistent(),
        ensures
            final(self).price_repos.cache_consistent(), final(self).price_repos.inner == old(self).price_repos.inner,
            final(self).transactions == old(self).transactions, final(self).raw_balance == old(self).raw_balance,
            // an exchange commodity that the ledger does not know is an error, whatever the expression is
            (eval_ctx.exchange matches Some(x) && ctx.commodities.resolved(x@) is None) ==> r matches Err(QueryError::CommodityNotFound(_)),   // @Ledger.eval.unknown_exchange_commodity_rejected
            // without -X: the amount the expression evaluates to, or an error
            eval_ctx.exchange is None ==> (match expr_amount(ctx, expression@) { Some(a) => r == Ok::<Amount, QueryError>(a), None => r is Err }),   // @Ledger.eval.value_of_the_expression
            // with -X T: that amount converted as a whole into T at the asked date - every holding once, or failure (C10)
            eval_ctx.exchange matches Some(x) ==> (ctx.commodities.resolved(x@) matches Some(t) ==> (match expr_amount(ctx, expression@) {
                Some(a) => (match conv_amount(&old(self).price_repos.inner, a, t, eval_ctx.date) { Some(m) => r matches Ok(out) && out@ == m, None => r is Err }),
                None => r is Err })),   // @Ledger.eval.converted_at_the_asked_date_or_fails
"""),
    ],
}
