"""C10: convert_amount converts every holding exactly once or fails."""
from ._amount_units import U, RET, TYPES, SINGLE, POSTING, AMOUNT, opaque
PD = "core/src/report/price_db.rs"

GROUP = {
    "name": "convert",
    "uses": "use std::collections::HashMap;\nuse vstd::std_specs::hash::*;\nuse core::ops::{Add, AddAssign, Mul, MulAssign, Neg, Sub, SubAssign};\nuse vstd::std_specs::cmp::*;\n",
    "broadcast": ["rust_decimal::axiom_round", "rust_decimal::axiom_sign", "key_axioms::axiom_commodity_key_model", "key_axioms::axiom_account_key_model", "cache_key_axiom::axiom_cache_key_model", "amount_lemmas::lemma_single_entry", "amount_lemmas::lemma_ncomm"],
    "parts": [
        ("text", "rust_decimal.rs"),
        ("text", "handles.rs"),
        ("text", "std_gaps.rs"),
        ("text", "hashmap_iter_models.rs"),
        ("text", "ctx_stub.rs"),
        ("text", "chrono.rs"),
        *TYPES,
        ("text", "amount_spec.rs"),
        *opaque(SINGLE), *opaque(POSTING), *opaque(AMOUNT),
        U("ConversionError", PD, [r"pub enum ConversionError<'ctx>"]),
        ("text", "prices_base.rs"),
        U("Distance(type)", PD, [r"struct Distance\b"], derive="Clone"),
        U("WithDistance(type)", PD, [r"struct WithDistance<T>"]),
        U("Entry(type)", PD, [r"struct Entry\b"]),
        ("text", "prices_table.rs"),
        ("text", "convert_spec.rs"),
        # ---- convert_single, whole: memoised table look-up, value x rate or RateNotFound (C09 + C10) ----
        U("NaivePriceRepository(type)", PD, [r"struct NaivePriceRepository<'ctx>"]),
        U("PriceRepository(type)", PD, [r"pub struct PriceRepository<'ctx>"]),
        U("PriceRepository::new", PD, [r"impl<'ctx> PriceRepository<'ctx>", r"fn new\b"], fn="new", wrap=("impl PriceRepository {", "}"),
          rewrites=[RET()],
          contract="""
        ensures r.inner == inner, r.cache_consistent(), r.cache@.len() == 0,   // @PriceRepository.new.empty_cache
"""),
        U("PriceRepository::convert_single", PD, [r"impl<'ctx> PriceRepository<'ctx>", r"pub fn convert_single\b"], fn="convert_single",
          wrap=("impl PriceRepository {", "}"),
          rewrites=[RET(), ("R29",)],
          contract="""
        requires old(self).cache_consistent(),
        ensures
            final(self).cache_consistent(),                // the memo never disagrees with the records ...   @convert_single.memo_stays_consistent
            final(self).inner == old(self).inner,          // ... and converting never changes them   @convert_single.records_untouched
            // C09: A into A is the identity
            value.commodity == commodity_with ==> r == Ok::<SingleAmount, ConversionError>(value),   // @convert_single.identity
            // C09/C10: otherwise value x the rate the records give for (target, date) - whatever was asked before - in the target commodity
            (value.commodity != commodity_with && old(self).inner.table(commodity_with, date).contains_key(value.commodity)) ==>
                (r matches Ok(x) && x.commodity == commodity_with
                    && x.v() == value.v() * old(self).inner.table(commodity_with, date)[value.commodity].1.val()),   // @convert_single.value_times_rate_of_this_target_and_date
            // C09/C10: no chain = the conversion fails
            (value.commodity != commodity_with && !old(self).inner.table(commodity_with, date).contains_key(value.commodity)) ==> r is Err,   // @convert_single.no_rate_fails
"""),
        U("convert_amount", PD, [r"pub fn convert_amount<'ctx>"], fn="convert_amount",
          rewrites=[RET(), ("R25d",)],
          contract="""
    requires old(price_repos).cache_consistent(),
    ensures
        // the rates are a function of the records; converting never changes them, and the memo stays consistent with them
        final(price_repos).cache_consistent(),
        final(price_repos).inner == old(price_repos).inner,
        // C10: every holding is converted exactly once (amounts already in the target commodity untouched, others value x rate) and summed ...
        all_convertible(&old(price_repos).inner, amount.iter_listing(), amount.iter_listing().len() as int, commodity_with, date) ==>
            (r matches Ok(x) && x@ == (if amount.iter_listing().len() == 0 { Map::<Commodity, real>::empty() }
                else { Map::<Commodity, real>::empty().insert(commodity_with, conv_sum(&old(price_repos).inner, amount.iter_listing(), amount.iter_listing().len() as int, commodity_with, date)) })),   // @convert_amount.sum_of_every_holding_converted_exactly_once
        // ... or the conversion fails: nothing is dropped or left unconverted
        !all_convertible(&old(price_repos).inner, amount.iter_listing(), amount.iter_listing().len() as int, commodity_with, date) ==> r is Err,   // @convert_amount.missing_rate_fails
""",
          loops={0: """
        invariant
            i__ <= items__@.len(),
            items__@ == amount.iter_listing(),
            price_repos.cache_consistent(),
            price_repos.inner == old(price_repos).inner,
            all_convertible(&old(price_repos).inner, items__@, i__ as int, commodity_with, date),
            result@ == (if i__ == 0 { Map::<Commodity, real>::empty() }
                else { Map::<Commodity, real>::empty().insert(commodity_with, conv_sum(&old(price_repos).inner, items__@, i__ as int, commodity_with, date)) }),
        decreases items__@.len() - i__,
"""},
          loop_body_end={0: """        proof {
            reveal_with_fuel(conv_sum, 2);
            assert(result@ =~= Map::<Commodity, real>::empty().insert(commodity_with, conv_sum(&old(price_repos).inner, items__@, i__ as int, commodity_with, date)));
        }"""}),
    ],
}
