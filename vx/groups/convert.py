"""C10: convert_amount converts every holding exactly once or fails."""
from ._amount_units import U, RET, TYPES, SINGLE, POSTING, AMOUNT, opaque
PD = "core/src/report/price_db.rs"

GROUP = {
    "name": "convert",
    "uses": "use std::collections::HashMap;\nuse vstd::std_specs::hash::*;\nuse core::ops::{Add, AddAssign, Mul, MulAssign, Neg, Sub, SubAssign};\nuse vstd::std_specs::cmp::*;\n",
    "broadcast": ["rust_decimal::axiom_round", "rust_decimal::axiom_sign", "key_axioms::axiom_commodity_key_model", "key_axioms::axiom_account_key_model", "amount_lemmas::lemma_single_entry", "amount_lemmas::lemma_ncomm"],
    "parts": [
        ("text", "rust_decimal.rs"),
        ("text", "handles.rs"),
        ("text", "std_gaps.rs"),
        ("text", "hashmap_iter_models.rs"),
        ("text", "ctx_stub.rs"),
        ("text", "chrono.rs"),
        *TYPES,
        ("text", "amount_spec.rs"),
        *opaque(SINGLE), *opaque(POSTING), *opaque(AMOUNT),
        U("ConversionError", PD, [r"pub enum ConversionError<'ctx>"]),
        ("text", "convert_spec.rs"),
        U("convert_amount", PD, [r"pub fn convert_amount<'ctx>"], fn="convert_amount",
          rewrites=[RET(), ("R25d",)],
          contract="""
    ensures
        // the rates are a function of the records; converting never changes them
        final(price_repos).records() == old(price_repos).records(),
        forall|a: Commodity, b: Commodity, d: NaiveDate| final(price_repos).rate(a, b, d) == old(price_repos).rate(a, b, d),
        // C10: every holding is converted exactly once (amounts already in the target commodity untouched, others value x rate) and summed ...
        all_convertible(old(price_repos), amount.iter_listing(), amount.iter_listing().len() as int, commodity_with, date) ==>
            (r matches Ok(x) && x@ == (if amount.iter_listing().len() == 0 { Map::<Commodity, real>::empty() }
                else { Map::<Commodity, real>::empty().insert(commodity_with, conv_sum(old(price_repos), amount.iter_listing(), amount.iter_listing().len() as int, commodity_with, date)) })),   // @convert_amount.sum_of_every_holding_converted_exactly_once
        // ... or the conversion fails: nothing is dropped or left unconverted
        !all_convertible(old(price_repos), amount.iter_listing(), amount.iter_listing().len() as int, commodity_with, date) ==> r is Err,   // @convert_amount.missing_rate_fails
""",
          loops={0: """
        invariant
            i__ <= items__@.len(),
            items__@ == amount.iter_listing(),
            price_repos.records() == old(price_repos).records(),
            forall|a: Commodity, b: Commodity, d: NaiveDate| price_repos.rate(a, b, d) == old(price_repos).rate(a, b, d),
            all_convertible(old(price_repos), items__@, i__ as int, commodity_with, date),
            result@ == (if i__ == 0 { Map::<Commodity, real>::empty() }
                else { Map::<Commodity, real>::empty().insert(commodity_with, conv_sum(old(price_repos), items__@, i__ as int, commodity_with, date)) }),
        decreases items__@.len() - i__,
"""},
          loop_body_end={0: """        proof {
            reveal_with_fuel(conv_sum, 2);
            assert(result@ =~= Map::<Commodity, real>::empty().insert(commodity_with, conv_sum(old(price_repos), items__@, i__ as int, commodity_with, date)));
        }"""}),
    ],
}
