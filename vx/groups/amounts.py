"""C08 typing / C01-C03 leaves: SingleAmount, PostingAmount, Amount."""
from ._amount_units import TYPES, SINGLE, POSTING, AMOUNT

GROUP = {
    "name": "amounts",
    "uses": "use std::collections::HashMap;\nuse vstd::std_specs::hash::*;\nuse core::ops::{Add, AddAssign, Mul, MulAssign, Neg, Sub, SubAssign};\n",
    "broadcast": ["rust_decimal::axiom_round", "rust_decimal::axiom_sign", "key_axioms::axiom_commodity_key_model", "key_axioms::axiom_account_key_model", "amount_lemmas::lemma_single_entry", "amount_lemmas::lemma_ncomm"],
    "parts": [
        ("text", "rust_decimal.rs"),
        ("text", "handles.rs"),
        ("text", "std_gaps.rs"),
        ("text", "hashmap_iter_models.rs"),
        ("text", "ctx_stub.rs"),
        *TYPES,
        ("text", "amount_spec.rs"),
        *SINGLE, *POSTING, *AMOUNT,
    ],
}
