"""C20: the golden-file helper."""
from ._amount_units import U, RET
G = "golden/src/lib.rs"
STD = [("R21-std-redirect", "re:\\bstd::(fs|env|io)::", "env_model::\\1::", None)]

ASSERT_REWRITES = [
    ("R21-std-redirect", "re:\\bstd::(fs|env|io)::", "env_model::\\1::", None),
]

def assert_unit(name, fn, r15, contract):
    return U(name, G, [r"impl Golden\b", r"pub fn assert\b"], fn=fn, wrap=("impl Golden {", "}"),
             rewrites=ASSERT_REWRITES + [("R15-assert-macro", "re:(?s)assert_str_eq!\\(\\s*want,\\s*got,.*?\\);", r15 + "(want, got);", 1),
                                         ("R0-rename", "pub fn assert(", "pub fn " + fn + "(", 1)],
             contract=contract)

GROUP = {
    "name": "golden",
    "uses": "use vstd::string::*;\n",
    "features": ["pattern"],
    "broadcast": ["env_model::axiom_pat_view_str"],
    "parts": [
        ("text", "env_model.rs"),
        U("Golden(type)", G, [r"pub struct Golden\b"]),
        U("is_update_golden", G, [r"fn is_update_golden\b"], fn="is_update_golden", rewrites=[RET()] + STD,
          contract="""
    ensures r == update_set(),   // @is_update_golden.iff_nonempty_UPDATE_GOLDEN
"""),
        U("read_as_utf8", G, [r"pub fn read_as_utf8\b"], fn="read_as_utf8",
          rewrites=[RET()] + STD + [("R11-closure-spec", ".map(|s| s.replace(", ".map(|s: String| -> (o: String) ensures o@ == replace_spec(s@, \"\\r\\n\"@, \"\\n\"@) { s.replace(", 1),
                                    ("R11-closure-spec", "\"\\n\"))", "\"\\n\") })", 1)],
          contract="""
    ensures
        r matches Ok(s) ==> env_model::fs::fs_read(filename) is Ok && s@ == crlf_to_lf(env_model::fs::fs_read(filename)->Ok_0@),   // @read_as_utf8.crlf_normalised
        r matches Err(e) ==> env_model::fs::fs_read(filename) == Err::<String, env_model::io::Error>(e),                               // @read_as_utf8.errors_propagate
"""),
        U("Golden::new", G, [r"impl Golden\b", r"pub fn new\b"], fn="new", wrap=("impl Golden {", "}"),
          rewrites=[RET()] + STD + [("R4",), ("R0-self-type", "Ok(Self { path, content })", "Ok(Golden { path, content })", 1),
                    ("R21-deref", "read_as_utf8(&path)", "read_as_utf8(path.as_path())", 1),
                    ("R11-closure-spec", ".or_else(|e| {",
                     ".or_else(|e: env_model::io::Error| -> (o: Result<String, env_model::io::Error>)\n"
                     "            ensures\n"
                     "                (e.kind_spec() == env_model::io::ErrorKind::NotFound && update_set()) ==> (o matches Ok(s) && s@.len() == 0),\n"
                     "                (e.kind_spec() == env_model::io::ErrorKind::NotFound && !update_set()) ==> (o matches Err(e2) && e2.kind_spec() == env_model::io::ErrorKind::NotFound),\n"
                     "                e.kind_spec() != env_model::io::ErrorKind::NotFound ==> o == Err::<String, env_model::io::Error>(e),\n"
                     "        {", 1)],
          contract="""
    ensures
        // file present: content = file with CRLF normalised
        env_model::fs::fs_read(path.as_path_spec()) matches Ok(raw) ==> (r matches Ok(g) && g.path == path && g.content@ == crlf_to_lf(raw@)),   // @Golden.new.reads_normalised_content
        // missing file is an error unless UPDATE_GOLDEN is set (then: empty expectation)
        (env_model::fs::fs_read(path.as_path_spec()) matches Err(e) && e.kind_spec() == env_model::io::ErrorKind::NotFound && !update_set()) ==> r is Err,   // @Golden.new.missing_is_error
        (env_model::fs::fs_read(path.as_path_spec()) matches Err(e) && e.kind_spec() == env_model::io::ErrorKind::NotFound && update_set()) ==> (r matches Ok(g) && g.path == path && g.content@.len() == 0),
        (env_model::fs::fs_read(path.as_path_spec()) matches Err(e) && e.kind_spec() != env_model::io::ErrorKind::NotFound) ==> r is Err,   // @Golden.new.io_errors_propagate
"""),
        # variant S: the cases in which assert must SUCCEED: the comparison must hold and a write happens only under UPDATE_GOLDEN
        assert_unit("Golden::assert[succeeds]", "assert_succeeds", "require_eq", """
    requires
        update_set() || got@ == self.content@,
        // the only write allowed: UPDATE_GOLDEN set, this golden's path, exactly `got`
        forall|p: &Path, c: Seq<char>| env_model::fs::write_allowed(p, c) <==> (update_set() && p == self.path.as_path_spec() && c == got@),   // @Golden.assert.writes_only_when_told
    ensures
        // when UPDATE_GOLDEN is set the file afterwards contains exactly `got`: the write has happened
        update_set() ==> env_model::fs::wrote(self.path.as_path_spec(), got@),   // @Golden.assert.update_writes_exactly_got
"""),
        # variant F: the cases in which assert must FAIL: no write may happen and the comparison is reached with different operands
        assert_unit("Golden::assert[fails]", "assert_fails", "require_ne", """
    requires
        !update_set() && got@ != self.content@,
        forall|p: &Path, c: Seq<char>| !env_model::fs::write_allowed(p, c),   // @Golden.assert.never_writes_without_UPDATE_GOLDEN
    ensures true,   // @Golden.assert.fails_when_different
"""),
    ],
}
