"""C16 (sign clauses): FieldMap::amount, amount_with_sign, OwnedAmount/BorrowedAmount negation."""
from ._amount_units import U, RET
CSV = "cli/src/import/csv.rs"
CFG = "cli/src/import/config.rs"
AM = "cli/src/import/amount.rs"
SE = "cli/src/import/single_entry.rs"

GROUP = {
    "name": "csvsign",
    "uses": "use core::ops::Neg;\n",
    "broadcast": ["rust_decimal::axiom_round", "rust_decimal::axiom_sign"],
    "parts": [
        ("text", "rust_decimal.rs"),
        ("text", "csv_stub.rs"),
        U("FieldKey", CFG, [r"pub enum FieldKey\b"], derive="Clone, Copy"),
        U("AccountType", CFG, [r"pub enum AccountType\b"], derive="Clone, Copy"),
        ("raw", "pub mod config_reexport { }\nuse FieldKey as _FK;\n"),
        U("Field", CSV, [r"enum Field\b"], rewrites=[("R9-stub-type", "Template(Template)", "Template(template::Template)", 1)]),
        U("TxnValueField", CSV, [r"enum TxnValueField\b"]),
        U("FieldMap(type)", CSV, [r"struct FieldMap\b"], rewrites=[("R9-stub-type", "all_fields: HashMap<FieldKey, Field>,", "", 1)]),
        ("text", "csv_spec.rs"),
        U("FieldMap::amount", CSV, [r"impl FieldMap\b", r"fn amount\b"], fn="amount", wrap=("impl FieldMap {", "}"),
          rewrites=[("R0", "ret"), ("R1-path", "config::AccountType", "AccountType", 3), ("R9-cow-str", "re:&(credit|debit|s)\\)", "\\1.as_str())", 3)],
          contract="""
        ensures
            // C16: credit positive, debit negative; an `amount` column is negated for a liability account
            self.value matches TxnValueField::CreditDebit { credit, debit } ==> ({
                let c = self.resolved(FieldKey::Credit, &credit, r);
                let d = self.resolved(FieldKey::Debit, &debit, r);
                &&& ((c matches Ok(Some(ct)) && d matches Ok(Some(dt)) && ct@.len() > 0 && column_value(ct@) is Some)
                        ==> (ret matches Ok(v) && v.val() == column_value(c->Ok_0->Some_0@)->Some_0))                 // @FieldMap.amount.credit_is_positive
                &&& ((c matches Ok(Some(ct)) && d matches Ok(Some(dt)) && ct@.len() == 0 && dt@.len() > 0 && column_value(dt@) is Some)
                        ==> (ret matches Ok(v) && v.val() == -column_value(d->Ok_0->Some_0@)->Some_0))                // @FieldMap.amount.debit_is_negative
                &&& ((c matches Ok(Some(ct)) && d matches Ok(Some(dt)) && ct@.len() == 0 && dt@.len() == 0) ==> ret is Err)   // @FieldMap.amount.neither_is_error
            }),
            self.value matches TxnValueField::Amount(a) ==> ({
                let s = self.resolved(FieldKey::Amount, &a, r);
                (s matches Ok(Some(t)) && column_value(t@) is Some) ==> (ret matches Ok(v)
                    && v.val() == (match at { AccountType::Asset => column_value(s->Ok_0->Some_0@)->Some_0, AccountType::Liability => -column_value(s->Ok_0->Some_0@)->Some_0 }))   // @FieldMap.amount.liability_negated
            }),
"""),
        U("OwnedAmount(type)", AM, [r"pub struct OwnedAmount\b"]),
        U("BorrowedAmount(type)", AM, [r"pub struct BorrowedAmount<'a>"], lifetimes="static", derive="Clone, Copy"),
        ("text", "csv_amount_spec.rs"),
        U("Neg for OwnedAmount", AM, [r"impl std::ops::Neg for OwnedAmount\b"], fn="neg", rewrites=[RET()],
          contract="""
        ensures r.commodity == self.commodity, r.value.val() == -self.value.val(),   // @OwnedAmount.neg
"""),
        U("Neg for BorrowedAmount", AM, [r"impl std::ops::Neg for BorrowedAmount<'_>"], fn="neg", rewrites=[RET()], lifetimes="static",
          contract="""
        ensures r.commodity == self.commodity, r.value.val() == -self.value.val(),   // @BorrowedAmount.neg
"""),
        U("AmountRef(trait)", AM, [r"pub trait AmountRef<'a>"], lifetimes="static",
          rewrites=[("R8-trait-contract", "fn into_borrowed(self) -> BorrowedAmount;",
                     "spec fn value_spec(self) -> Decimal;\n    spec fn commodity_spec(self) -> Seq<char>;\n    fn into_borrowed(self) -> (r: BorrowedAmount) ensures r.value == self.value_spec(), r.commodity@ == self.commodity_spec();", 1)]),
        U("AmountRef for &OwnedAmount", AM, [r"impl<'a> AmountRef<'a> for &'a OwnedAmount"], lifetimes="static",
          rewrites=[("R8-trait-contract", "fn into_borrowed(self)", "open spec fn value_spec(self) -> Decimal { self.value }\n    open spec fn commodity_spec(self) -> Seq<char> { self.commodity@ }\n    fn into_borrowed(self)", 1)]),
        U("amount_with_sign", SE, [r"fn amount_with_sign\b"], fn="amount_with_sign", rewrites=[RET(), ("R1-lifetime(static)", "amount: &OwnedAmount", "amount: &'static OwnedAmount", 1)], lifetimes="static",
          contract="""
        ensures
            // the secondary (transferred) amount keeps its magnitude and commodity and takes the sign of `sign`
            r.commodity@ == amount.commodity@,
            r.value.negbit() == sign.negbit(),                                                                   // @amount_with_sign.takes_sign
            r.value.val() == (if sign.negbit() == amount.value.negbit() { amount.value.val() } else { -amount.value.val() }),   // @amount_with_sign.keeps_magnitude
"""),
        # Txn::dest_amount: what the counter-posting carries (the two expressions handed to to_posting_amount)
        U("callsite:dest_amount.transferred", SE, [r"impl Txn\b", r"fn dest_amount\b"], fn="dest_transferred", no_canary=True, lifetimes="static",
          slice=r"self\.to_posting_amount\((amount_with_sign\(transferred, [^)]*\))\)", slice_count=1,
          slice_template="""fn dest_transferred(this: &'static TxnAmounts, transferred: &'static OwnedAmount) -> (r: BorrowedAmount)
    ensures
        // C16: with a conversion the counter-posting carries the secondary amount, its sign opposite to the row's amount
        r.commodity@ == transferred.commodity@,
        r.value.negbit() == !this.amount.value.negbit(),                                                  // @dest_amount.secondary_amount_gets_the_opposite_sign
        r.value.val() == transferred.value.val() || r.value.val() == -transferred.value.val(),           // @dest_amount.secondary_amount_keeps_its_magnitude
{
    {EXPR}
}""",
          rewrites=[("R17-free-variable", "self.amount", "this.amount", 1)]),
        U("callsite:dest_amount.plain", SE, [r"impl Txn\b", r"fn dest_amount\b"], fn="dest_plain", no_canary=True, lifetimes="static",
          slice=r"unwrap_or_else\(\|\| self\.to_posting_amount\(([^)]*\(\))\)\)", slice_count=1,
          slice_template="""fn dest_plain(this: &'static TxnAmounts) -> (r: BorrowedAmount)
    ensures
        // C16: without a conversion the counter-posting carries the opposite amount
        r.commodity@ == this.amount.commodity@,
        r.value.val() == -this.amount.value.val(),   // @dest_amount.counter_posting_is_the_opposite_amount
{
    {EXPR}
}""",
          rewrites=[("R17-free-variable", "self.amount", "this.amount", 1)]),
        ("text", "csv_roworder_stub.rs"),
        U("callsite:row_order", CSV, [r"pub fn import<R: std::io::Read>"], fn="apply_row_order", no_canary=True,
          slice=r"match config\.format\.row_order \{", slice_count=1,
          slice_template="""fn apply_row_order(config: &RowOrderConfig, res: &mut Vec<TxnStub>)
    ensures
        // C16: rows come out oldest first under either row_order: a newest-first statement is reversed, an oldest-first one kept
        config.format.row_order is OldToNew ==> final(res)@ == old(res)@,                  // @csv.import.old_to_new_kept
        config.format.row_order is NewToOld ==> final(res)@ == old(res)@.reverse(),        // @csv.import.new_to_old_reversed
{
    {EXPR}
}"""),
    ],
}
