"""C04 (c): which postings the register of an account lists."""
from ._amount_units import U, RET
F = "core/src/report/query.rs"

GROUP = {
    "name": "register",
    "uses": "use std::collections::HashSet;\nuse vstd::std_specs::hash::*;\n",
    "broadcast": ["key_axioms::axiom_account_key_model"],
    "parts": [
        ("text", "handles.rs"),
        ("text", "register_spec.rs"),
        U("AccountFilter(type)", F, [r"enum AccountFilter<'ctx>"]),
        U("AccountFilter::is_match", F, [r"impl<'ctx> AccountFilter<'ctx>", r"fn is_match\b"], fn="is_match", wrap=("impl AccountFilter {", "}"),
          rewrites=[RET()],
          contract="""
        ensures
            // C04: without an account argument every posting is listed; with one, exactly the postings of the selected accounts
            r == (match *self { AccountFilter::Any => true, AccountFilter::Set(targets) => targets@.contains(*account) }),   // @is_match.exactly_the_selected_accounts
"""),
        # which accounts are selected: the predicate handed to `.filter(..)` in AccountFilter::new
        U("callsite:AccountFilter::new.selected", F, [r"impl<'ctx> AccountFilter<'ctx>", r"fn new\b"], fn="account_selected", no_canary=True,
          slice=r"\.filter\(\|x\| ((?:[^()]|\([^()]*\))*)\)", slice_count=1,
          slice_template="""fn account_selected(x: &Account, filter: &str) -> (b: bool)
    ensures
        // C04: the register of an account lists that account only: the name must be EQUAL to the argument (not a prefix / substring)
        b == (x.name() == filter@),   // @AccountFilter.new.selects_the_account_of_exactly_that_name
{
    {EXPR}
}"""),
        # the register applies the filter to the posting's own account
        U("anchor:Ledger::postings filters on the posting's account", F, [r"impl<'ctx> Ledger<'ctx>", r"pub fn postings<'a>"], no_canary=True,
          slice=r"(\.flat_map\(\|txn\| &\*txn\.postings\)\s*\.filter\(\|x\| af\.is_match\(&x\.account\)\)\s*\.collect\(\))", slice_count=1,
          slice_template="/* anchor: {EXPR} */\n"),
    ],
}
